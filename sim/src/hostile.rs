//! Byzantine toolkit: nodes that use openmls directly on their MDK provider and build their own
//! wrapper events, so that anything a modified client can emit (unauthorised commits, forged
//! rumors, re-wrapped ciphertexts, garbage under the right exporter secret, hostile welcomes) and
//! anything a network can do to an event in transit (byte damage, field edits) is injected into
//! running worlds.

use mdk_core::prelude::*;
use mdk_storage_traits::groups::GroupStorage;
use nostr::nips::nip44;
use nostr::{Event, EventBuilder, EventId, JsonUtil, Keys, Kind, PublicKey, SecretKey, Tag, TagKind, Timestamp, UnsignedEvent};
use openmls::prelude::*;
use openmls_basic_credential::SignatureKeyPair;
use openmls_traits::OpenMlsProvider;
use serde::{Deserialize, Serialize};
use tls_codec::Serialize as TlsSerialize;

use crate::node::Mdk;
use crate::with_mdk;
use crate::world::*;

#[derive(Debug, Clone, PartialEq, Eq, Serialize, Deserialize)]
pub enum HostileOp {
    Placeholder,
    /// storage-level operation (storediff runs carry their operations in ordinary steps)
    Store(crate::store::StOp),
    /// call of one exported function of the foreign-language bindings (C06 binding runs)
    Bind(crate::checks::bind::BindCall),
    /// operation of the multi-device runs (C03)
    Multi(crate::checks::multidev::MdOp),
    /// member encrypts a rumor it forged. mode: 0 foreign pubkey (victim), 1 preset id = existing
    /// message of another author (victim_msg), 2 preset id = own earlier message, 3 wrong hash id,
    /// 4 honest-looking but arbitrary kind/tags/created_at, 5 own rumor dated (far) in the future
    ForgedRumor { g: usize, mode: u8, victim: usize, victim_msg: Option<EvRef>, tag: u32 },
    /// re-wrap the MLS ciphertext of a published event in a fresh wrapper. mode: 0 same group,
    /// 1 other group's h tag (g2), 2 future timestamp inside skew, 3 duplicate-content new key,
    /// 4 dated a few seconds before the original
    Rewrap { ev: EvRef, mode: u8, g2: usize },
    /// commit built directly with openmls. kind: 0 remove(victim) 1 add(outsider) 2 group data
    /// (nostr id byte flip) 3 pure self-update 4 self-update with changed identity (victim's)
    /// 5 commit to pending proposals 6 group data (name byte flip) 7 self-promotion to admin
    /// 8 / 9 own Remove(victim) / Add(outsider) proposal committed by reference with an update path
    /// 10 / 11 self-update whose new leaf carries the author's identity with one byte too many / few
    CraftedCommit { g: usize, kind: u8, victim: usize },
    /// proposal built directly with openmls. kind: 0 add(outsider) 1 remove(victim) 2 group data
    CraftedProposal { g: usize, kind: u8, victim: usize },
    /// arbitrary / mutated bytes correctly NIP-44-wrapped under the current exporter secret.
    /// mode: 0 random bytes 1 mutated real MLS message (ev) 2 truncated 3 trailing bytes 4 empty
    GarbageInner { g: usize, mode: u8, ev: Option<EvRef>, seed: u32 },
    /// damage to the outer wrapper in transit. mode: 0 content byte flip 1 kind 2 created_at far
    /// future 3 created_at ancient 4 no h tag 5 two h tags 6 short h 7 non-hex h 8 truncated
    /// content 9 other group's h tag 10 empty content
    MutatedOuter { ev: EvRef, mode: u8, seed: u32 },
    /// invitation built by `node` with its own openmls group. mode: 0 fresh random group id,
    /// 1 MLS group id of a group the victim holds (g), 2 as 1 + colliding nostr id, 3 malformed
    /// content, 4 missing encoding tag, 5 rumor without an id, 6 fresh group id but the Nostr
    /// group id that group g was last rotated to
    HostileWelcome { victim: usize, mode: u8, g: usize, seed: u32 },
    /// hand a hostile welcome / re-delivery of any welcome under a new wrapper id
    RewrappedWelcome { w: EvRef, seed: u32 },
    /// the published key-package event (kind 443) of `owner`, damaged (tags, content, kind,
    /// signer; see `damage_key_package`) and handed to this node's `parse_key_package` and, when
    /// `use_in` is 1, to `add_members` of group g
    HostileKeyPackage { owner: usize, mode: u8, seed: u32, g: usize, use_in: u8 },
}

pub fn short(h: &HostileOp) -> &'static str {
    match h {
        HostileOp::Placeholder => "placeholder",
        HostileOp::Store(_) => "store",
        HostileOp::Bind(_) => "bind",
        HostileOp::Multi(_) => "multidev",
        HostileOp::ForgedRumor { .. } => "forged_rumor",
        HostileOp::Rewrap { .. } => "rewrap",
        HostileOp::CraftedCommit { .. } => "crafted_commit",
        HostileOp::CraftedProposal { .. } => "crafted_proposal",
        HostileOp::GarbageInner { .. } => "garbage_inner",
        HostileOp::MutatedOuter { .. } => "mutated_outer",
        HostileOp::HostileWelcome { .. } => "hostile_welcome",
        HostileOp::RewrappedWelcome { .. } => "rewrapped_welcome",
        HostileOp::HostileKeyPackage { .. } => "hostile_key_package",
    }
}

/// Strings that stress tag grammars: multi-byte characters straddling the byte offsets the
/// parsers slice at, wrong case, wrong length, separators, control characters, oversize.
pub const HOSTILE_STRINGS: &[&str] = &[
    "", "0\u{20ac}01", "0\u{e9}001", "\u{1f600}01", "0x0001", "0X0001", "0x001", "0x00001", "0xzzzz", "0x0001\u{0}", " 0x0001", "0x\u{e9}01",
    "1.0", "1.0\u{e9}", "\u{e9}", "\u{202e}", "0x000a,0xf2ee", "0xf2ee", "0x\u{e9}0", "0x", "0x000\u{e9}", "base64", "hex", "base64\n", "BASE64",
    "\u{ff22}ase64", "wss://", "ws://\u{e9}", "0", "-1", "18446744073709551616", "\u{0}", "\u{1f600}\u{1f600}\u{1f600}\u{1f600}",
];

/// Damage a key-package event. Returns (kind, content, tags, sign with a foreign key).
pub fn damage_key_package(e: &Event, mode: u8, rng: &mut crate::rng::Rng) -> (Kind, String, Vec<Tag>, bool) {
    let mut kind = e.kind;
    let mut content = e.content.clone();
    let mut tags: Vec<Vec<String>> = e.tags.iter().map(|t| t.as_slice().to_vec()).collect();
    let mut foreign = false;
    let pool = |rng: &mut crate::rng::Rng| -> String {
        if rng.chance(1, 12) {
            "A".repeat(1 + rng.below(70_000) as usize)
        } else {
            HOSTILE_STRINGS[rng.below(HOSTILE_STRINGS.len() as u64) as usize].to_string()
        }
    };
    let nt = tags.len().max(1) as u64;
    match mode {
        0 => {
            // the value of one tag replaced
            if let Some(t) = tags.get_mut(rng.below(nt) as usize) {
                let v = pool(rng);
                t.truncate(1);
                t.push(v);
            }
        }
        1 => {
            // one value inside a multi-value tag replaced
            if let Some(t) = tags.get_mut(rng.below(nt) as usize) {
                if t.len() > 1 {
                    let i = 1 + rng.below(t.len() as u64 - 1) as usize;
                    t[i] = pool(rng);
                }
            }
        }
        2 => {
            if !tags.is_empty() {
                tags.remove(rng.below(nt) as usize);
            }
        }
        3 => {
            if let Some(t) = tags.get(rng.below(nt) as usize).cloned() {
                let dup = vec![t[0].clone(), pool(rng)];
                if rng.chance(1, 2) {
                    tags.insert(0, dup);
                } else {
                    tags.push(dup);
                }
            }
        }
        4 => {
            if let Some(t) = tags.get_mut(rng.below(nt) as usize) {
                t.truncate(1);
            }
        }
        5 => {
            let idx: Vec<usize> = content.char_indices().map(|(i, _)| i).collect();
            if !idx.is_empty() {
                content.truncate(idx[rng.below(idx.len() as u64) as usize]);
            }
        }
        6 => {
            let mut b = content.into_bytes();
            if !b.is_empty() {
                let i = rng.below(b.len() as u64) as usize;
                b[i] = b"ABCDEFGHabcdefgh0123456789+/=-_"[rng.below(31) as usize];
            }
            content = String::from_utf8_lossy(&b).to_string();
        }
        7 => {
            if rng.chance(1, 2) {
                content = pool(rng);
            } else {
                let idx: Vec<usize> = content.char_indices().map(|(i, _)| i).collect();
                let at = if idx.is_empty() { 0 } else { idx[rng.below(idx.len() as u64) as usize] };
                content.insert_str(at, ["\u{e9}", "\u{20ac}", "\u{1f600}", " ", "\n"][rng.below(5) as usize]);
            }
        }
        8 => kind = [Kind::Custom(444), Kind::Custom(445), Kind::TextNote, Kind::Custom(10051)][rng.below(4) as usize],
        9 => foreign = true,
        10 => {
            // damage below the transport encoding: the TLS structure itself
            use base64::Engine;
            let dec = base64::engine::general_purpose::STANDARD.decode(content.as_bytes()).ok().or_else(|| hex::decode(&content).ok());
            if let Some(mut b) = dec {
                match rng.below(4) {
                    0 => {
                        if !b.is_empty() {
                            let i = rng.below(b.len() as u64) as usize;
                            b[i] ^= 1 << rng.below(8);
                        }
                    }
                    1 => {
                        let n = rng.below(b.len().max(1) as u64) as usize;
                        b.truncate(n);
                    }
                    2 => {
                        let n = 1 + rng.below(40) as usize;
                        b.extend(rng.bytes(n));
                    }
                    _ => {
                        // a length prefix blown up
                        if b.len() > 8 {
                            let i = rng.below(b.len() as u64 - 4) as usize;
                            b[i] = 0xff;
                            b[i + 1] = 0xff;
                        }
                    }
                }
                content = base64::engine::general_purpose::STANDARD.encode(&b);
            }
        }
        _ => {}
    }
    let tags: Vec<Tag> = tags.into_iter().filter_map(|t| Tag::parse(t).ok()).collect();
    (kind, content, tags, foreign)
}

fn o(class: &'static str, text: impl Into<String>) -> Outcome {
    Outcome { text: text.into(), class, created: vec![], panicked: false }
}

/// NIP-44 wrap `mls_bytes` under the exporter secret of `epoch` (default: current) with an
/// ephemeral key, exactly like MDK::build_message_event does.
pub fn wrap<S: MdkStorageProvider>(mdk: &MDK<S>, gid: &GroupId, mls_bytes: &[u8], h: Option<[u8; 32]>, created_at: Option<u64>, extra_h: Option<Vec<String>>) -> Result<Event, String> {
    let g = mdk.load_mls_group(gid).map_err(|e| e.to_string())?.ok_or("no mls group")?;
    let rec = mdk.get_group(gid).map_err(|e| e.to_string())?.ok_or("no record")?;
    let secret = mdk
        .provider
        .storage()
        .get_group_exporter_secret(gid, g.epoch().as_u64())
        .map_err(|e| e.to_string())?
        .ok_or("no exporter secret for the current epoch")?;
    let sk = SecretKey::from_slice(secret.secret.as_ref()).map_err(|e| e.to_string())?;
    let keys = Keys::new(sk);
    let content = nip44::encrypt(keys.secret_key(), &keys.public_key, mls_bytes, nip44::Version::default()).map_err(|e| e.to_string())?;
    let eph = Keys::generate();
    let mut b = EventBuilder::new(Kind::MlsGroupMessage, content);
    match extra_h {
        Some(list) => {
            for v in list {
                b = b.tag(Tag::custom(TagKind::h(), [v]));
            }
        }
        None => {
            b = b.tag(Tag::custom(TagKind::h(), [hex::encode(h.unwrap_or(rec.nostr_group_id))]));
        }
    }
    if let Some(ts) = created_at {
        b = b.custom_created_at(Timestamp::from(ts));
    }
    b.sign_with_keys(&eph).map_err(|e| e.to_string())
}

/// the MLS bytes inside a wrapper, using any exporter secret the node holds for the group
pub fn unwrap_mls<S: MdkStorageProvider>(mdk: &MDK<S>, gid: &GroupId, ev: &Event) -> Option<Vec<u8>> {
    let g = mdk.load_mls_group(gid).ok()??;
    for e in (0..=g.epoch().as_u64()).rev() {
        if let Ok(Some(s)) = mdk.provider.storage().get_group_exporter_secret(gid, e) {
            if let Ok(sk) = SecretKey::from_slice(s.secret.as_ref()) {
                let k = Keys::new(sk);
                if let Ok(b) = nip44::decrypt_to_bytes(k.secret_key(), &k.public_key, &ev.content) {
                    return Some(b);
                }
            }
        }
    }
    None
}

fn signer_of<S: MdkStorageProvider>(mdk: &MDK<S>, g: &MlsGroup) -> Result<SignatureKeyPair, String> {
    let leaf = g.own_leaf().ok_or("no own leaf")?;
    SignatureKeyPair::read(mdk.provider.storage(), leaf.signature_key().as_slice(), g.ciphersuite().signature_algorithm()).ok_or_else(|| "no signer".to_string())
}

fn leaf_of<S: MdkStorageProvider>(g: &MlsGroup, _mdk: &MDK<S>, pk: &PublicKey) -> Option<LeafNodeIndex> {
    g.members().find(|m| BasicCredential::try_from(m.credential.clone()).map(|c| c.identity() == pk.to_bytes().as_slice()).unwrap_or(false)).map(|m| m.index)
}

/// group context extensions of the group with one byte of the Nostr group data flipped
fn mutated_extensions(g: &MlsGroup, name_byte: bool) -> Result<Extensions<GroupContext>, String> {
    let mut exts = g.extensions().clone();
    let mut found = None;
    for e in exts.iter() {
        if let Extension::Unknown(t, UnknownExtension(bytes)) = e {
            if *t == 0xF2EE {
                found = Some(bytes.clone());
            }
        }
    }
    let mut bytes = found.ok_or("no group data extension")?;
    // layout: version u16 | nostr_group_id [32] | name <V> | ...
    let idx = if name_byte { 2 + 32 + 1 } else { 2 + 5 };
    if idx >= bytes.len() {
        return Err("extension too short".into());
    }
    bytes[idx] ^= 0x01;
    exts.add_or_replace(Extension::Unknown(0xF2EE, UnknownExtension(bytes))).map_err(|e| e.to_string())?;
    Ok(exts)
}

fn read_vlen(b: &[u8], at: usize) -> Option<(usize, usize)> {
    let first = *b.get(at)?;
    match first >> 6 {
        0 => Some(((first & 0x3f) as usize, 1)),
        1 => Some(((((first & 0x3f) as usize) << 8) | *b.get(at + 1)? as usize, 2)),
        2 => Some(((((first & 0x3f) as usize) << 24) | ((*b.get(at + 1)? as usize) << 16) | ((*b.get(at + 2)? as usize) << 8) | *b.get(at + 3)? as usize, 4)),
        _ => None,
    }
}
fn write_vlen(n: usize) -> Vec<u8> {
    if n < 64 {
        vec![n as u8]
    } else if n < 16384 {
        vec![0x40 | (n >> 8) as u8, n as u8]
    } else {
        vec![0x80 | (n >> 24) as u8, (n >> 16) as u8, (n >> 8) as u8, n as u8]
    }
}

/// group context extensions with `pk` appended to the admin list of the Nostr group data
fn extensions_with_admin(g: &MlsGroup, pk: &PublicKey) -> Result<Extensions<GroupContext>, String> {
    let mut exts = g.extensions().clone();
    let mut found = None;
    for e in exts.iter() {
        if let Extension::Unknown(0xF2EE, UnknownExtension(bytes)) = e {
            found = Some(bytes.clone());
        }
    }
    let b = found.ok_or("no group data extension")?;
    // version u16 | nostr_group_id [32] | name <V> | description <V> | admin_pubkeys <V>(32 each) | ...
    let mut at = 34;
    for _ in 0..2 {
        let (n, l) = read_vlen(&b, at).ok_or("bad length")?;
        at += l + n;
    }
    let (n, l) = read_vlen(&b, at).ok_or("bad admin length")?;
    if n % 32 != 0 {
        return Err("unexpected admin list encoding".into());
    }
    let mut out = b[..at].to_vec();
    out.extend(write_vlen(n + 32));
    out.extend_from_slice(&b[at + l..at + l + n]);
    out.extend_from_slice(&pk.to_bytes());
    out.extend_from_slice(&b[at + l + n..]);
    exts.add_or_replace(Extension::Unknown(0xF2EE, UnknownExtension(out))).map_err(|e| e.to_string())?;
    Ok(exts)
}

fn publish(w: &mut World, step: &Step, node: usize, g: usize, event: Event, kind: EvKind, desc: String, result_state: Option<String>) -> EvRef {
    let pre = w.node_state(node, g);
    let (epoch, parent) = pre.unwrap_or((0, String::new()));
    let origin = EvRef(step.id, 0);
    w.publish_event(PubEvent { origin, event, kind, creator: node, g, epoch, parent_state: parent, result_state, desc, msg: None, refs_proposals: false })
}

pub fn exec(w: &mut World, step: &Step, h: HostileOp) -> Outcome {
    let node = step.node;
    match h {
        HostileOp::Placeholder | HostileOp::Store(_) | HostileOp::Bind(_) | HostileOp::Multi(_) => o("skipped", "n/a"),
        HostileOp::ForgedRumor { g, mode, victim, victim_msg, tag } => {
            let Some(gid) = w.gid(g) else { return o("skipped", "no group") };
            let own_pk = w.nodes[node].pubkey();
            let victim_pk = w.nodes.get(victim).map(|n| n.pubkey()).unwrap_or(own_pk);
            let node_now = (w.now as i64 + w.nodes[node].cfg.clock_offset) as u64;
            let content = format!("FORGED-{}-{}-{} by n{node}", w.seed % 100_000, step.id, tag);
            let mut rumor = EventBuilder::new(Kind::Custom(if mode == 4 { 30_000 + (tag % 100) as u16 } else { 9 }), content.clone())
                .tags(vec![Tag::custom(TagKind::Custom("t".into()), [format!("forged{tag}")])])
                .custom_created_at(Timestamp::from(if mode == 4 { 1 } else if mode == 5 { node_now + 400 + (tag as u64 % 7) * 100_000 } else { node_now }))
                .build(if mode == 0 { victim_pk } else { own_pk });
            rumor.ensure_id();
            match mode {
                1 => {
                    let Some(vm) = victim_msg.and_then(|r| w.ledger.iter().find(|l| l.origin == r)) else { return o("skipped", "no victim message") };
                    rumor.id = EventId::from_hex(&vm.rumor_id).ok();
                }
                2 => {
                    let mine = w.ledger.iter().rev().find(|l| l.author == node && l.g == g);
                    let Some(m) = mine else { return o("skipped", "no own message") };
                    rumor.id = EventId::from_hex(&m.rumor_id).ok();
                }
                3 => {
                    rumor.id = Some(EventId::from_slice(&sha2_32(format!("bogus{}:{}", w.seed, step.id).as_bytes())).unwrap());
                }
                _ => {}
            }
            let json = rumor.as_json();
            let r: Result<Event, String> = with_mdk!(w.nodes[node].mdk(), m => (|| {
                let mut grp = m.load_mls_group(&gid).map_err(|e| e.to_string())?.ok_or("no mls group")?;
                let signer = signer_of(m, &grp)?;
                let out = grp.create_message(&m.provider, &signer, json.as_bytes()).map_err(|e| e.to_string())?;
                let bytes = out.tls_serialize_detached().map_err(|e| e.to_string())?;
                wrap(m, &gid, &bytes, None, None, None)
            })());
            match r {
                Ok(ev) => {
                    let claimed_id = rumor.id.map(|i| i.to_hex()).unwrap_or_default();
                    let r = publish(w, step, node, g, ev, EvKind::Hostile, format!("forged_rumor mode{mode} claimed_id={claimed_id} victim=n{victim}"), None);
                    let mut out = o("ok", format!("forged rumor mode {mode}"));
                    out.created = vec![r];
                    out
                }
                Err(e) => o("err", e),
            }
        }
        HostileOp::Rewrap { ev, mode, g2 } => {
            let Some(pe) = w.ev(ev).cloned() else { return o("skipped", "no event") };
            let Some(gid) = w.gid(pe.g) else { return o("skipped", "no group") };
            let other = w.groups.get(g2).map(|x| x.initial_nostr_id);
            let node_now = (w.now as i64 + w.nodes[node].cfg.clock_offset) as u64;
            let r: Result<Event, String> = with_mdk!(w.nodes[node].mdk(), m => (|| {
                let bytes = unwrap_mls(m, &gid, &pe.event).ok_or("cannot open the captured wrapper")?;
                let h = if mode == 1 { other } else { None };
                // mode 4: dated before the original (a copy of an applied commit then looks like a
                // better candidate of its epoch under MIP-03)
                let ts = if mode == 2 { Some(node_now + 120) } else if mode == 4 { Some(pe.event.created_at.as_secs().saturating_sub(3)) } else { None };
                wrap(m, &gid, &bytes, h, ts, None)
            })());
            match r {
                Ok(e2) => {
                    let g_target = if mode == 1 { g2 } else { pe.g };
                    let r = publish(w, step, node, g_target.min(w.groups.len().saturating_sub(1)), e2, EvKind::Hostile, format!("rewrap of {:?} mode{mode} original_creator=n{}", ev, pe.creator), None);
                    let mut out = o("ok", "rewrapped");
                    out.created = vec![r];
                    out
                }
                Err(e) => o("err", e),
            }
        }
        HostileOp::CraftedCommit { g, kind, victim } | HostileOp::CraftedProposal { g, kind, victim } => {
            let is_commit = matches!(step.op, Op::Hostile(HostileOp::CraftedCommit { .. }));
            let Some(gid) = w.gid(g) else { return o("skipped", "no group") };
            let victim_pk = w.nodes.get(victim).map(|n| n.pubkey());
            // outsider key package for adds
            let members = w.members_of(node, g);
            let outsider_kp = w.nodes.iter().find(|n| !members.contains(&n.idx) && !n.key_packages.is_empty()).and_then(|n| n.key_packages.last().cloned());
            let r: Result<(Event, Option<String>, Option<Event>), String> = with_mdk!(w.nodes[node].mdk(), m => (|| {
                let mut grp = m.load_mls_group(&gid).map_err(|e| e.to_string())?.ok_or("no mls group")?;
                if grp.pending_commit().is_some() {
                    return Err("attacker has a pending commit".into());
                }
                let signer = signer_of(m, &grp)?;
                let mut extra: Option<MlsMessageOut> = None;
                let msg: MlsMessageOut = if is_commit {
                    match kind {
                        8 | 9 => {
                            // a proposal of its own, then a commit that covers it BY REFERENCE and
                            // carries an update path: dressed up as a self-update
                            let p = if kind == 8 {
                                let idx = victim_pk.and_then(|pk| leaf_of(&grp, m, &pk)).ok_or("victim not a member")?;
                                if idx == grp.own_leaf_index() { return Err("self".into()); }
                                grp.propose_remove_member(&m.provider, &signer, idx).map_err(|e| e.to_string())?.0
                            } else {
                                let kp_ev = outsider_kp.clone().ok_or("no outsider key package")?;
                                let kp = m.parse_key_package(&kp_ev).map_err(|e| e.to_string())?;
                                grp.propose_add_member(&m.provider, &signer, &kp).map_err(|e| e.to_string())?.0
                            };
                            extra = Some(p);
                            grp.commit_to_pending_proposals(&m.provider, &signer).map_err(|e| e.to_string())?.0
                        }
                        0 => {
                            let idx = victim_pk.and_then(|pk| leaf_of(&grp, m, &pk)).ok_or("victim not a member")?;
                            if idx == grp.own_leaf_index() { return Err("self".into()); }
                            grp.remove_members(&m.provider, &signer, &[idx]).map_err(|e| e.to_string())?.0
                        }
                        1 => {
                            let kp_ev = outsider_kp.clone().ok_or("no outsider key package")?;
                            let kp = m.parse_key_package(&kp_ev).map_err(|e| e.to_string())?;
                            grp.add_members(&m.provider, &signer, &[kp]).map_err(|e| e.to_string())?.0
                        }
                        2 | 6 => {
                            let exts = mutated_extensions(&grp, kind == 6)?;
                            grp.update_group_context_extensions(&m.provider, exts, &signer).map_err(|e| e.to_string())?.0
                        }
                        7 => {
                            let me = m.get_members(&gid).map_err(|e| e.to_string())?;
                            let _ = me;
                            let own = BasicCredential::try_from(grp.own_leaf().ok_or("no leaf")?.credential().clone()).map_err(|e| e.to_string())?;
                            let pk = PublicKey::from_slice(own.identity()).map_err(|e| e.to_string())?;
                            let exts = extensions_with_admin(&grp, &pk)?;
                            grp.update_group_context_extensions(&m.provider, exts, &signer).map_err(|e| e.to_string())?.0
                        }
                        3 => grp.self_update(&m.provider, &signer, LeafNodeParameters::default()).map_err(|e| e.to_string())?.into_commit(),
                        4 => {
                            let pk = victim_pk.ok_or("no victim")?;
                            let cred = BasicCredential::new(pk.to_bytes().to_vec());
                            let cwk = CredentialWithKey { credential: cred.into(), signature_key: signer.public().into() };
                            let params = LeafNodeParameters::builder().with_credential_with_key(cwk).build();
                            grp.self_update(&m.provider, &signer, params).map_err(|e| e.to_string())?.into_commit()
                        }
                        10 | 11 => {
                            // its own identity made unparseable: one byte too many / too few
                            let own = BasicCredential::try_from(grp.own_leaf().ok_or("no leaf")?.credential().clone()).map_err(|e| e.to_string())?;
                            let mut id = own.identity().to_vec();
                            if kind == 10 { id.push(0x01) } else { id.pop(); }
                            let cwk = CredentialWithKey { credential: BasicCredential::new(id).into(), signature_key: signer.public().into() };
                            let params = LeafNodeParameters::builder().with_credential_with_key(cwk).build();
                            grp.self_update(&m.provider, &signer, params).map_err(|e| e.to_string())?.into_commit()
                        }
                        _ => grp.commit_to_pending_proposals(&m.provider, &signer).map_err(|e| e.to_string())?.0,
                    }
                } else {
                    match kind {
                        0 => {
                            let kp_ev = outsider_kp.clone().ok_or("no outsider key package")?;
                            let kp = m.parse_key_package(&kp_ev).map_err(|e| e.to_string())?;
                            grp.propose_add_member(&m.provider, &signer, &kp).map_err(|e| e.to_string())?.0
                        }
                        1 => {
                            let idx = victim_pk.and_then(|pk| leaf_of(&grp, m, &pk)).ok_or("victim not a member")?;
                            grp.propose_remove_member(&m.provider, &signer, idx).map_err(|e| e.to_string())?.0
                        }
                        _ => {
                            let exts = mutated_extensions(&grp, false)?;
                            grp.propose_group_context_extensions(&m.provider, exts, &signer).map_err(|e| e.to_string())?.0
                        }
                    }
                };
                let result_state = grp.pending_commit().and_then(|c| c.epoch_authenticator().map(|a| hex::encode(a.as_slice())));
                let bytes = msg.tls_serialize_detached().map_err(|e| e.to_string())?;
                let ev = wrap(m, &gid, &bytes, None, None, None)?;
                let extra_ev = match extra {
                    Some(p) => Some(wrap(m, &gid, &p.tls_serialize_detached().map_err(|e| e.to_string())?, None, None, None)?),
                    None => None,
                };
                // the attacker stays where it is: drop the pending commit / own proposal
                if is_commit {
                    let _ = grp.clear_pending_commit(m.provider.storage());
                    if extra_ev.is_some() {
                        let _ = grp.clear_pending_proposals(m.provider.storage());
                    }
                } else {
                    let _ = grp.clear_pending_proposals(m.provider.storage());
                }
                Ok((ev, result_state, extra_ev))
            })());
            match r {
                Ok((ev, rs, extra_ev)) => {
                    if let Some(pev) = extra_ev {
                        let pre = w.node_state(node, g);
                        let (epoch, parent) = pre.unwrap_or((0, String::new()));
                        w.publish_event(PubEvent { origin: EvRef(step.id, 1), event: pev, kind: EvKind::Hostile, creator: node, g, epoch, parent_state: parent, result_state: None, desc: format!("crafted proposal {} by n{node} admin={} victim=n{victim} (committed by reference in the same step)", if kind == 8 { "prop_remove" } else { "prop_add" }, w.is_admin(node, g)), msg: None, refs_proposals: false });
                    }
                    let admin = w.is_admin(node, g);
                    let what = if is_commit { ["remove", "add", "groupdata_id", "selfupdate", "identity_change", "commit_pending", "groupdata_name", "groupdata_self_promotion", "remove_by_reference", "add_by_reference", "identity_change_malformed", "identity_change_malformed"][kind.min(11) as usize] } else { ["prop_add", "prop_remove", "prop_groupdata"][kind.min(2) as usize] };
                    let r = publish(w, step, node, g, ev, EvKind::Hostile, format!("crafted {} {what} by n{node} admin={admin} victim=n{victim}", if is_commit { "commit" } else { "proposal" }), rs);
                    let mut out = o("ok", format!("crafted {what}"));
                    out.created = vec![r];
                    out
                }
                Err(e) => o("err", e),
            }
        }
        HostileOp::GarbageInner { g, mode, ev, seed } => {
            let Some(gid) = w.gid(g) else { return o("skipped", "no group") };
            let mut rng = crate::rng::Rng::new(seed as u64 ^ w.seed);
            let src = ev.and_then(|r| w.ev(r).cloned());
            let r: Result<Event, String> = with_mdk!(w.nodes[node].mdk(), m => (|| {
                let real = src.as_ref().and_then(|pe| unwrap_mls(m, &gid, &pe.event));
                let bytes: Vec<u8> = match (mode, real) {
                    (1, Some(mut b)) => {
                        let n = 1 + rng.below(3);
                        for _ in 0..n {
                            let i = rng.below(b.len() as u64) as usize;
                            b[i] ^= 1 << rng.below(8);
                        }
                        b
                    }
                    (2, Some(b)) => b[..(rng.below(b.len() as u64) as usize)].to_vec(),
                    (3, Some(mut b)) => {
                        let n = 1 + rng.below(8) as usize;
                        b.extend(rng.bytes(n));
                        b
                    }
                    (4, _) => vec![],
                    _ => {
                        let n = 1 + rng.below(200) as usize;
                        rng.bytes(n)
                    }
                };
                if bytes.is_empty() {
                    // NIP-44 refuses empty plaintext: send one byte
                    return wrap(m, &gid, &[0u8], None, None, None);
                }
                wrap(m, &gid, &bytes, None, None, None)
            })());
            match r {
                Ok(e2) => {
                    let r = publish(w, step, node, g, e2, EvKind::Hostile, format!("garbage_inner mode{mode}"), None);
                    let mut out = o("ok", "garbage wrapped");
                    out.created = vec![r];
                    out
                }
                Err(e) => o("err", e),
            }
        }
        HostileOp::MutatedOuter { ev, mode, seed } => {
            let Some(pe) = w.ev(ev).cloned() else { return o("skipped", "no event") };
            let mut rng = crate::rng::Rng::new(seed as u64 ^ w.seed);
            let e = &pe.event;
            let mut content = e.content.clone();
            let mut kind = e.kind;
            let mut created_at = e.created_at;
            let mut tags: Vec<Tag> = e.tags.iter().cloned().collect();
            let other_h = w.groups.iter().enumerate().find(|(i, _)| *i != pe.g).map(|(_, x)| hex::encode(x.initial_nostr_id));
            match mode {
                0 => {
                    let mut b = content.into_bytes();
                    if !b.is_empty() {
                        let i = rng.below(b.len() as u64) as usize;
                        b[i] = b"ABCDEFGHabcdefgh0123456789+/="[rng.below(29) as usize];
                    }
                    content = String::from_utf8_lossy(&b).to_string();
                }
                1 => kind = Kind::Custom(9),
                2 => created_at = Timestamp::from(e.created_at.as_secs() + 10_000_000),
                3 => created_at = Timestamp::from(1_000_000),
                4 => tags.retain(|t| t.kind() != TagKind::h()),
                5 => tags.push(Tag::custom(TagKind::h(), [hex::encode([7u8; 32])])),
                6 => {
                    tags.retain(|t| t.kind() != TagKind::h());
                    tags.push(Tag::custom(TagKind::h(), ["abcd".to_string()]));
                }
                7 => {
                    tags.retain(|t| t.kind() != TagKind::h());
                    tags.push(Tag::custom(TagKind::h(), ["zz".repeat(32)]));
                }
                8 => {
                    let n = rng.below(content.len().max(1) as u64) as usize;
                    content.truncate(n);
                }
                9 => {
                    if let Some(h) = other_h {
                        tags.retain(|t| t.kind() != TagKind::h());
                        tags.push(Tag::custom(TagKind::h(), [h]));
                    }
                }
                _ => content.clear(),
            }
            // a relay hands over whatever it has: id/sig are not re-computed by the attacker for
            // most modes (mdk does not verify them); re-sign with a fresh key so the event is
            // well-formed at the Nostr layer
            let eph = Keys::generate();
            let built = EventBuilder::new(kind, content).tags(tags).custom_created_at(created_at).sign_with_keys(&eph);
            match built {
                Ok(e2) => {
                    let r = publish(w, step, node, pe.g, e2, EvKind::Hostile, format!("mutated_outer mode{mode} of {:?}", ev), None);
                    let mut out = o("ok", "mutated in transit");
                    out.created = vec![r];
                    out
                }
                Err(e) => o("err", e.to_string()),
            }
        }
        HostileOp::HostileWelcome { victim, mode, g, seed } => {
            let Some(vkp) = w.nodes.get(victim).and_then(|n| n.key_packages.last().cloned()) else { return o("skipped", "victim has no key package") };
            let target_gid = w.gid(g);
            let victim_nostr = w.gview(victim, g).and_then(|v| v.record.as_ref()).map(|r| r.nostr_group_id.clone());
            let attacker_pk = w.nodes[node].pubkey();
            let rotated_to: Option<[u8; 32]> = w.rotations.iter().rev().find(|(gg, _)| *gg == g).map(|(_, id)| *id);
            let r: Result<UnsignedEvent, String> = with_mdk!(w.nodes[node].mdk(), m => (|| {
                let kp = m.parse_key_package(&vkp).map_err(|e| e.to_string())?;
                // group data: take it from a scratch group created through the public API
                // mode 8: more relays than one of the backends stores for a group
                let relays: Vec<nostr::RelayUrl> = if mode == 8 { (0..101).filter_map(|i| nostr::RelayUrl::parse(&format!("wss://r{i}.evil.example")).ok()).collect() } else { vec![nostr::RelayUrl::parse("wss://relay.evil.sim.example").map_err(|e| e.to_string())?] };
                let cfg = NostrGroupConfigData::new(format!("evil-{seed}"), "evil group".into(), None, None, None, relays, vec![attacker_pk]);
                let scratch = m.create_group(&attacker_pk, vec![], cfg).map_err(|e| e.to_string())?;
                let sg = m.load_mls_group(&scratch.group.mls_group_id).map_err(|e| e.to_string())?.ok_or("no scratch group")?;
                let mut exts = sg.extensions().clone();
                if mode == 2 || mode == 6 {
                    // 2: the id the victim's copy of group g has now; 6: the id group g was last
                    // rotated to (public on the relay as an h tag, possibly not yet known to the victim)
                    let squat: Option<String> = if mode == 6 { rotated_to.map(hex::encode) } else { victim_nostr.clone() };
                    if let Some(n) = &squat {
                        let mut idb = [0u8; 32];
                        let _ = hex::decode_to_slice(n, &mut idb);
                        let mut bytes = None;
                        for e in exts.iter() {
                            if let Extension::Unknown(0xF2EE, UnknownExtension(b)) = e {
                                bytes = Some(b.clone());
                            }
                        }
                        if let Some(mut b) = bytes {
                            b[2..34].copy_from_slice(&idb);
                            exts.add_or_replace(Extension::Unknown(0xF2EE, UnknownExtension(b))).map_err(|e| e.to_string())?;
                        }
                    }
                }
                let signer = signer_of(m, &sg)?;
                let cred = sg.own_leaf().ok_or("no leaf")?.credential().clone();
                let cwk = CredentialWithKey { credential: cred, signature_key: signer.public().into() };
                let mut b = MlsGroup::builder()
                    .ciphersuite(sg.ciphersuite())
                    .use_ratchet_tree_extension(true)
                    .with_group_context_extensions(exts)
                    .with_capabilities(sg.own_leaf().ok_or("no leaf")?.capabilities().clone());
                if mode == 1 || mode == 2 || mode == 9 {
                    if let Some(t) = &target_gid {
                        b = b.with_group_id(openmls::group::GroupId::from_slice(t.as_slice()));
                    }
                }
                let mut evil = b.build(&m.provider, &signer, cwk).map_err(|e| e.to_string())?;
                let (_c, welcome, _gi) = evil.add_members(&m.provider, &signer, &[kp]).map_err(|e| e.to_string())?;
                evil.merge_pending_commit(&m.provider).map_err(|e| e.to_string())?;
                let bytes = welcome.tls_serialize_detached().map_err(|e| e.to_string())?;
                use base64::Engine;
                let mut content = base64::engine::general_purpose::STANDARD.encode(&bytes);
                if mode == 3 {
                    content = format!("!!{}", &content[..content.len() / 2]);
                }
                let mut tags = vec![
                    Tag::from_standardized(nostr::TagStandard::Relays(vec![crate::node::relay()])),
                    Tag::event(vkp.id),
                    Tag::client("evil/0.1".to_string()),
                ];
                if mode != 4 {
                    tags.push(Tag::custom(TagKind::Custom("encoding".into()), ["base64"]));
                }
                if mode == 7 || mode == 9 {
                    // a rumor larger than a backend stores (7: a new group, 9: under the id of a
                    // group the victim holds or held)
                    tags.push(Tag::custom(TagKind::Custom("pad".into()), ["p".repeat(110_000)]));
                }
                let mut rumor = EventBuilder::new(Kind::MlsWelcome, content).tags(tags).build(attacker_pk);
                rumor.ensure_id();
                if mode == 5 {
                    rumor.id = None;
                }
                // the attacker's own evil group must not linger under the victim's group id in
                // the attacker's storage view used by the oracles: it is the attacker's problem
                Ok(rumor)
            })());
            match r {
                Ok(rumor) => {
                    let origin = EvRef(step.id, 0);
                    let wid = EventId::from_slice(&sha2_32(format!("hwrap:{}:{}", w.seed, step.id).as_bytes())).unwrap();
                    w.w_index.insert(origin, w.welcomes.len());
                    w.welcomes.push(PubWelcome { origin, wrapper_id: wid, rumor, recipient: victim, inviter: node, g, commit: None, hostile: true });
                    let mut out = o("ok", format!("hostile welcome mode {mode}"));
                    out.created = vec![origin];
                    out
                }
                Err(e) => o("err", e),
            }
        }
        HostileOp::HostileKeyPackage { owner, mode, seed, g, use_in } => {
            let Some(base) = w.nodes.get(owner).and_then(|n| n.key_packages.last().cloned()) else { return o("skipped", "owner has no key package") };
            let mut rng = crate::rng::Rng::new(seed as u64 ^ w.seed).fork(443);
            let (kind, content, tags, foreign) = damage_key_package(&base, mode, &mut rng);
            let keys = if foreign { Keys::generate() } else { w.nodes[owner].keys.clone() };
            let ev = match EventBuilder::new(kind, content).tags(tags).custom_created_at(base.created_at).sign_with_keys(&keys) {
                Ok(e) => e,
                Err(e) => return o("skipped", format!("cannot sign: {e}")),
            };
            let parsed = with_mdk!(w.nodes[node].mdk(), m => m.parse_key_package(&ev).map(|_| ()).map_err(|e| format!("{e:?} || {e}")));
            if w.capture_logs {
                if let Err(e) = &parsed {
                    w.last_debug = e.clone();
                }
            }
            w.probe(if parsed.is_ok() { "hostile_kp_parsed" } else { "hostile_kp_refused" });
            let mut text = format!("damaged key package mode {mode}: parse -> {}", match &parsed { Ok(()) => "ok".to_string(), Err(e) => format!("Err({})", e.chars().take(90).collect::<String>()) });
            let mut failed = parsed.is_err();
            if use_in == 1 && w.is_active_member(node, g) && !w.has_pending_commit(node, g) {
                if let Some(gid) = w.gid(g) {
                    let r = with_mdk!(w.nodes[node].mdk(), m => {
                        let r = m.add_members(&gid, std::slice::from_ref(&ev)).map(|_| ()).map_err(|e| format!("{e:?} || {e}"));
                        if r.is_ok() {
                            // not part of the run's history: withdraw it at once
                            let _ = m.clear_pending_commit(&gid);
                        }
                        r
                    });
                    w.probe(if r.is_ok() { "hostile_kp_add_accepted" } else { "hostile_kp_add_refused" });
                    if w.capture_logs {
                        if let Err(e) = &r {
                            w.last_debug.push_str(" ## ");
                            w.last_debug.push_str(e);
                        }
                    }
                    text.push_str(&format!("; add_members -> {}", match &r { Ok(()) => "ok (withdrawn)".to_string(), Err(e) => format!("Err({})", e.chars().take(90).collect::<String>()) }));
                    failed = r.is_err();
                }
            }
            o(if failed { "err" } else { "ok" }, text)
        }
        HostileOp::RewrappedWelcome { w: wr, seed } => {
            let Some(pw) = w.w_index.get(&wr).map(|i| w.welcomes[*i].clone()) else { return o("skipped", "no welcome") };
            let origin = EvRef(step.id, 0);
            let wid = EventId::from_slice(&sha2_32(format!("rewrapw:{}:{}:{}", w.seed, step.id, seed).as_bytes())).unwrap();
            w.w_index.insert(origin, w.welcomes.len());
            w.welcomes.push(PubWelcome { origin, wrapper_id: wid, hostile: true, ..pw });
            let mut out = o("ok", "welcome under a new wrapper id");
            out.created = vec![origin];
            out
        }
    }
}

#[allow(dead_code)]
fn _unused(_: &Mdk, _: PublicKey) {}
