//! Byzantine / hostile operations (filled in by the checks that need them).

use serde::{Deserialize, Serialize};

use crate::world::{Outcome, Step, World};

#[derive(Debug, Clone, PartialEq, Eq, Serialize, Deserialize)]
pub enum HostileOp {
    Placeholder,
    /// storage-level operation (storediff runs carry their operations in ordinary steps)
    Store(crate::store::StOp),
}

pub fn exec(_w: &mut World, _step: &Step, _h: HostileOp) -> Outcome {
    Outcome { text: "hostile placeholder".into(), class: "skipped", created: vec![], panicked: false }
}

pub fn short(h: &HostileOp) -> &'static str {
    match h {
        HostileOp::Placeholder => "placeholder",
        HostileOp::Store(_) => "store",
    }
}
