//! storediff: seeded operation sequences over the storage traits, executed on the memory backend,
//! the SQLite backend (with reopen as an operation) and a plain reference model of the contract.
//! Serves C10 (three-way equality), C09 (rollback frame condition) and C18 (total order, pages).

use std::collections::{BTreeMap, BTreeSet};
use std::path::PathBuf;

use mdk_memory_storage::MdkMemoryStorage;
use mdk_sqlite_storage::MdkSqliteStorage;
use mdk_storage_traits::groups::types::*;
use mdk_storage_traits::groups::{GroupStorage, MessageSortOrder, Pagination, MAX_MESSAGE_LIMIT};
use mdk_storage_traits::messages::types::*;
use mdk_storage_traits::messages::MessageStorage;
use mdk_storage_traits::welcomes::types::*;
use mdk_storage_traits::welcomes::{Pagination as WPagination, WelcomeStorage, MAX_PENDING_WELCOMES_LIMIT};
use mdk_storage_traits::{GroupId, MdkStorageProvider, Secret};
use nostr::{EventId, Keys, Kind, PublicKey, RelayUrl, SecretKey, Tag, TagKind, Tags, Timestamp, UnsignedEvent};
use serde::{Deserialize, Serialize};
use serde_json::{json, Value};

use crate::rng::Rng;

pub const N_GROUPS: usize = 4;
pub const N_NOSTR: usize = 5;
pub const N_EVENTS: usize = 8;
pub const N_WRAPPERS: usize = 8;

#[derive(Debug, Clone, Serialize, Deserialize, PartialEq, Eq)]
pub enum StOp {
    SaveGroup { g: u8, nostr: u8, name: u8, epoch: u8, state: u8, admins: u8, last: Option<(u8, u8, u8)>, su: u8 },
    FindGroup { g: u8 },
    FindByNostr { n: u8 },
    AllGroups,
    Admins { g: u8 },
    Relays { g: u8 },
    ReplaceRelays { g: u8, mask: u8 },
    SaveSecret { g: u8, epoch: u8, val: u8 },
    GetSecret { g: u8, epoch: u8 },
    NeedSelfUpdate { threshold: u32 },
    SaveMessage { g: u8, id: u8, ca: u8, pa: u8, state: u8, epoch: Option<u8>, content: u8, wrapper: u8, tag: u8 },
    FindMessage { g: u8, id: u8 },
    Messages { g: u8, limit: Option<u32>, offset: Option<u32>, sort: Option<bool> },
    LastMessage { g: u8, processed_first: bool },
    SaveProcessed { w: u8, msg: Option<u8>, pa: u8, epoch: Option<u8>, g: Option<u8>, state: u8 },
    FindProcessed { w: u8 },
    InvalidateMessages { g: u8, epoch: u8 },
    InvalidateProcessed { g: u8, epoch: u8 },
    FindInvalidated { g: u8 },
    FindInvalidatedProcessed { g: u8 },
    FailedForRetry { g: u8 },
    MarkRetryable { w: u8 },
    EpochByTag { g: u8, tag: u8 },
    SaveWelcome { id: u8, g: u8, nostr: u8, state: u8, wrapper: u8 },
    FindWelcome { id: u8 },
    PendingWelcomes { limit: Option<u32>, offset: Option<u32> },
    SaveProcessedWelcome { w: u8, welcome: Option<u8>, state: u8 },
    FindProcessedWelcome { w: u8 },
    Snapshot { g: u8, name: u8 },
    Rollback { g: u8, name: u8 },
    Release { g: u8, name: u8 },
    ListSnapshots { g: u8 },
    Prune { min_back: u32 },
    /// OpenMLS StorageProvider writes/reads with harness blobs
    MlsWrite { g: u8, kind: u8, val: u8 },
    MlsQueueProposal { g: u8, r: u8, val: u8 },
    MlsClearProposals { g: u8 },
    MlsAppendLeaf { g: u8, val: u8 },
    MlsEpochKeys { g: u8, epoch: u8, leaf: u8, val: u8 },
    MlsDeleteGroup { g: u8 },
    MlsGlobalWrite { kind: u8, key: u8, val: u8 },
    MlsGlobalDelete { kind: u8, key: u8 },
    /// drop and reopen the SQLite file (no-op on memory / model)
    Reopen,
    /// advance the simulated clock
    Tick { dt: u8 },
}

/// offsets: two sentinels stand for values a u32 cannot hold
pub fn off(o: u32) -> usize {
    match o {
        u32::MAX => usize::MAX,
        x if x == u32::MAX - 1 => (i64::MAX as usize) + 1,
        x => x as usize,
    }
}

pub fn gid(i: u8) -> GroupId {
    GroupId::from_slice(&[0xA0 + i; 16])
}
pub fn nostr_id(i: u8) -> [u8; 32] {
    [0x10 + i; 32]
}
pub fn event_id(i: u8) -> EventId {
    EventId::from_slice(&[0x20 + i; 32]).unwrap()
}
pub fn wrapper_id(i: u8) -> EventId {
    EventId::from_slice(&[0x60 + i; 32]).unwrap()
}
pub fn pubkey(i: u8) -> PublicKey {
    Keys::new(SecretKey::from_slice(&[i + 1; 32]).unwrap()).public_key()
}
pub fn relay(i: u8) -> RelayUrl {
    RelayUrl::parse(&format!("wss://r{i}.store.example")).unwrap()
}
pub const TS_POOL: [u64; 5] = [1000, 1000, 1001, 1002, 1005];

fn group_state(i: u8) -> GroupState {
    [GroupState::Active, GroupState::Inactive, GroupState::Pending][(i % 3) as usize]
}
fn msg_state(i: u8) -> MessageState {
    [MessageState::Created, MessageState::Processed, MessageState::Deleted, MessageState::EpochInvalidated][(i % 4) as usize]
}
fn pm_state(i: u8) -> ProcessedMessageState {
    [
        ProcessedMessageState::Created,
        ProcessedMessageState::Processed,
        ProcessedMessageState::ProcessedCommit,
        ProcessedMessageState::Failed,
        ProcessedMessageState::EpochInvalidated,
        ProcessedMessageState::Retryable,
    ][(i % 6) as usize]
}

pub fn mk_group(g: u8, nostr: u8, name: u8, epoch: u8, state: u8, admins: u8, last: Option<(u8, u8, u8)>, su: u8, now: u64) -> Group {
    let mut ad = BTreeSet::new();
    for i in 0..3u8 {
        if (admins >> i) & 1 == 1 {
            ad.insert(pubkey(i));
        }
    }
    Group {
        mls_group_id: gid(g),
        nostr_group_id: nostr_id(nostr),
        name: format!("name-{name}"),
        description: format!("desc-{name}"),
        image_hash: if name % 2 == 0 { Some([name; 32]) } else { None },
        image_key: if name % 2 == 0 { Some(Secret::new([name + 1; 32])) } else { None },
        image_nonce: if name % 2 == 0 { Some(Secret::new([name + 2; 12])) } else { None },
        admin_pubkeys: ad,
        last_message_id: last.map(|l| event_id(l.0)),
        last_message_at: last.map(|l| Timestamp::from(TS_POOL[(l.1 % 5) as usize])),
        last_message_processed_at: last.map(|l| Timestamp::from(TS_POOL[(l.2 % 5) as usize])),
        epoch: epoch as u64,
        state: group_state(state),
        self_update_state: match su % 3 {
            0 => SelfUpdateState::Required,
            1 => SelfUpdateState::CompletedAt(Timestamp::from(now.saturating_sub(50))),
            _ => SelfUpdateState::CompletedAt(Timestamp::from(now)),
        },
    }
}

/// cut-off of a prune call: `min_back` seconds before now; the sentinel u32::MAX stands for the
/// largest cut-off the interface accepts (everything is older)
pub fn prune_cutoff(now: u64, min_back: u32) -> u64 {
    if min_back == u32::MAX { u64::MAX } else { now.saturating_sub(min_back as u64) }
}

/// search term of the tag-content lookup; values from 100 up spell the term in upper case (the
/// contract is a literal substring match: another spelling is another term and matches nothing)
pub fn tag_needle(tag: u8) -> String {
    if tag >= 100 { format!("TAGVAL{}", tag - 100) } else { format!("tagval{tag}") }
}

pub fn mk_message(g: u8, id: u8, ca: u8, pa: u8, state: u8, epoch: Option<u8>, content: u8, wrapper: u8, tag: u8) -> Message {
    let pk = pubkey(content % 3);
    let created_at = Timestamp::from(TS_POOL[(ca % 5) as usize]);
    let tags = Tags::from_list(vec![Tag::custom(TagKind::Custom("x".into()), [format!("tagval{tag}")])]);
    let content_s = format!("content-{content}");
    let mut ev = UnsignedEvent::new(pk, created_at, Kind::Custom(9), tags.clone(), content_s.clone());
    ev.id = Some(event_id(id));
    Message {
        id: event_id(id),
        pubkey: pk,
        kind: Kind::Custom(9),
        mls_group_id: gid(g),
        created_at,
        processed_at: Timestamp::from(TS_POOL[(pa % 5) as usize]),
        content: content_s,
        tags,
        event: ev,
        wrapper_event_id: wrapper_id(wrapper),
        epoch: epoch.map(|e| e as u64),
        state: msg_state(state),
    }
}

pub fn mk_welcome(id: u8, g: u8, nostr: u8, state: u8, wrapper: u8) -> Welcome {
    let pk = pubkey(id % 3);
    let mut ev = UnsignedEvent::new(pk, Timestamp::from(1000), Kind::MlsWelcome, Tags::new(), format!("welcome-{id}"));
    ev.id = Some(event_id(id));
    Welcome {
        id: event_id(id),
        event: ev,
        mls_group_id: gid(g),
        nostr_group_id: nostr_id(nostr),
        group_name: format!("wname-{id}"),
        group_description: "d".into(),
        group_image_hash: None,
        group_image_key: None,
        group_image_nonce: None,
        group_admin_pubkeys: [pk].into_iter().collect(),
        group_relays: [relay(0)].into_iter().collect(),
        welcomer: pk,
        member_count: 2,
        state: [WelcomeState::Pending, WelcomeState::Accepted, WelcomeState::Declined, WelcomeState::Ignored][(state % 4) as usize],
        wrapper_event_id: wrapper_id(wrapper),
    }
}

// ---- harness types for the OpenMLS StorageProvider --------------------------------------------

#[derive(Debug, Clone, Serialize, Deserialize, PartialEq)]
pub struct Blob(pub Vec<u8>);

use openmls_traits::storage::{traits, Entity, Key, CURRENT_VERSION};
impl Entity<CURRENT_VERSION> for Blob {}
impl Key<CURRENT_VERSION> for Blob {}
macro_rules! marker {
    ($($t:ident),*) => { $(impl traits::$t<CURRENT_VERSION> for Blob {})* };
}
marker!(
    QueuedProposal, TreeSync, GroupContext, InterimTranscriptHash, ConfirmationTag, KeyPackage, SignaturePublicKey,
    SignatureKeyPair, EncryptionKey, HpkeKeyPair, EpochKey, LeafNodeIndex, GroupState, MessageSecrets,
    ResumptionPskStore, GroupEpochSecrets, LeafNode, MlsGroupJoinConfig, ProposalRef, HashReference, PskId, PskBundle
);

fn ogid(g: u8) -> openmls::group::GroupId {
    openmls::group::GroupId::from_slice(&[0xA0 + g; 16])
}

fn res<T: Serialize, E>(r: Result<T, E>) -> Value {
    match r {
        Ok(v) => json!({"ok": serde_json::to_value(v).unwrap_or(Value::Null)}),
        Err(_) => json!("err"),
    }
}

fn sorted(mut v: Vec<Value>) -> Vec<Value> {
    v.sort_by_key(|x| x.to_string());
    v
}

/// Execute `op` on a real backend and return its canonical result.
/// `apply_inner` behind catch_unwind: a panicking backend answers "PANIC: ..." (never equal to a
/// model answer, so it is reported as a difference) instead of taking the run down.
pub fn apply<S: MdkStorageProvider>(s: &S, op: &StOp, now: u64) -> Value {
    match std::panic::catch_unwind(std::panic::AssertUnwindSafe(|| apply_inner(s, op, now))) {
        Ok(v) => v,
        Err(p) => json!(format!("PANIC: {}", crate::seam::panic_msg(&p))),
    }
}

fn apply_inner<S: MdkStorageProvider>(s: &S, op: &StOp, now: u64) -> Value {
    match op {
        StOp::SaveGroup { g, nostr, name, epoch, state, admins, last, su } => res(s.save_group(mk_group(*g, *nostr, *name, *epoch, *state, *admins, *last, *su, now))),
        StOp::FindGroup { g } => res(s.find_group_by_mls_group_id(&gid(*g))),
        StOp::FindByNostr { n } => res(s.find_group_by_nostr_group_id(&nostr_id(*n))),
        StOp::AllGroups => res(s.all_groups().map(|v| sorted(v.into_iter().map(|g| serde_json::to_value(g).unwrap()).collect()))),
        StOp::Admins { g } => res(s.admins(&gid(*g))),
        StOp::Relays { g } => res(s.group_relays(&gid(*g))),
        StOp::ReplaceRelays { g, mask } => res(s.replace_group_relays(&gid(*g), (0..4u8).filter(|i| (mask >> i) & 1 == 1).map(relay).collect())),
        StOp::SaveSecret { g, epoch, val } => res(s.save_group_exporter_secret(GroupExporterSecret { mls_group_id: gid(*g), epoch: *epoch as u64, secret: Secret::new([*val; 32]) })),
        StOp::GetSecret { g, epoch } => res(s.get_group_exporter_secret(&gid(*g), *epoch as u64)),
        StOp::NeedSelfUpdate { threshold } => res(s.groups_needing_self_update(*threshold as u64).map(|v| sorted(v.into_iter().map(|g| json!(hex::encode(g.as_slice()))).collect()))),
        StOp::SaveMessage { g, id, ca, pa, state, epoch, content, wrapper, tag } => res(s.save_message(mk_message(*g, *id, *ca, *pa, *state, *epoch, *content, *wrapper, *tag))),
        StOp::FindMessage { g, id } => res(s.find_message_by_event_id(&gid(*g), &event_id(*id))),
        StOp::Messages { g, limit, offset, sort } => {
            let p = Pagination { limit: limit.map(|l| l as usize), offset: offset.map(off), sort_order: sort.map(|b| if b { MessageSortOrder::ProcessedAtFirst } else { MessageSortOrder::CreatedAtFirst }) };
            res(s.messages(&gid(*g), Some(p)))
        }
        StOp::LastMessage { g, processed_first } => res(s.last_message(&gid(*g), if *processed_first { MessageSortOrder::ProcessedAtFirst } else { MessageSortOrder::CreatedAtFirst })),
        StOp::SaveProcessed { w, msg, pa, epoch, g, state } => res(s.save_processed_message(ProcessedMessage {
            wrapper_event_id: wrapper_id(*w),
            message_event_id: msg.map(event_id),
            processed_at: Timestamp::from(TS_POOL[(*pa % 5) as usize]),
            epoch: epoch.map(|e| e as u64),
            mls_group_id: g.map(gid),
            state: pm_state(*state),
            failure_reason: if pm_state(*state) == ProcessedMessageState::Failed { Some("processing_failed".into()) } else { None },
        })),
        StOp::FindProcessed { w } => res(s.find_processed_message_by_event_id(&wrapper_id(*w))),
        StOp::InvalidateMessages { g, epoch } => res(s.invalidate_messages_after_epoch(&gid(*g), *epoch as u64).map(|v| sorted(v.into_iter().map(|i| json!(i.to_hex())).collect()))),
        StOp::InvalidateProcessed { g, epoch } => res(s.invalidate_processed_messages_after_epoch(&gid(*g), *epoch as u64).map(|v| sorted(v.into_iter().map(|i| json!(i.to_hex())).collect()))),
        StOp::FindInvalidated { g } => res(s.find_invalidated_messages(&gid(*g)).map(|v| sorted(v.into_iter().map(|m| serde_json::to_value(m).unwrap()).collect()))),
        StOp::FindInvalidatedProcessed { g } => res(s.find_invalidated_processed_messages(&gid(*g)).map(|v| sorted(v.into_iter().map(|m| serde_json::to_value(m).unwrap()).collect()))),
        StOp::FailedForRetry { g } => res(s.find_failed_messages_for_retry(&gid(*g)).map(|v| sorted(v.into_iter().map(|i| json!(i.to_hex())).collect()))),
        StOp::MarkRetryable { w } => res(s.mark_processed_message_retryable(&wrapper_id(*w))),
        StOp::EpochByTag { g, tag } => res(s.find_message_epoch_by_tag_content(&gid(*g), &tag_needle(*tag))),
        StOp::SaveWelcome { id, g, nostr, state, wrapper } => res(s.save_welcome(mk_welcome(*id, *g, *nostr, *state, *wrapper))),
        StOp::FindWelcome { id } => res(s.find_welcome_by_event_id(&event_id(*id))),
        StOp::PendingWelcomes { limit, offset } => res(s.pending_welcomes(Some(WPagination { limit: limit.map(|l| l as usize), offset: offset.map(off) }))),
        StOp::SaveProcessedWelcome { w, welcome, state } => res(s.save_processed_welcome(ProcessedWelcome {
            wrapper_event_id: wrapper_id(*w),
            welcome_event_id: welcome.map(event_id),
            processed_at: Timestamp::from(1000),
            state: if state % 2 == 0 { ProcessedWelcomeState::Processed } else { ProcessedWelcomeState::Failed },
            failure_reason: if state % 2 == 0 { None } else { Some("x".into()) },
        })),
        StOp::FindProcessedWelcome { w } => res(s.find_processed_welcome_by_event_id(&wrapper_id(*w))),
        StOp::Snapshot { g, name } => res(s.create_group_snapshot(&gid(*g), &format!("snap{name}"))),
        StOp::Rollback { g, name } => res(s.rollback_group_to_snapshot(&gid(*g), &format!("snap{name}"))),
        StOp::Release { g, name } => res(s.release_group_snapshot(&gid(*g), &format!("snap{name}"))),
        StOp::ListSnapshots { g } => res(s.list_group_snapshots(&gid(*g)).map(|v| sorted(v.into_iter().map(|(n, t)| json!([n, t])).collect()))),
        StOp::Prune { min_back } => res(s.prune_expired_snapshots(prune_cutoff(now, *min_back))),
        StOp::MlsWrite { g, kind, val } => {
            let b = Blob(vec![*val; 3]);
            let id = ogid(*g);
            res::<(), _>(match kind % 8 {
                0 => s.write_tree(&id, &b),
                1 => s.write_context(&id, &b),
                2 => s.write_group_state(&id, &b),
                3 => s.write_message_secrets(&id, &b),
                4 => s.write_group_epoch_secrets(&id, &b),
                5 => s.write_own_leaf_index(&id, &b),
                6 => s.write_confirmation_tag(&id, &b),
                _ => s.write_mls_join_config(&id, &b),
            })
        }
        StOp::MlsQueueProposal { g, r, val } => res(s.queue_proposal(&ogid(*g), &Blob(vec![*r]), &Blob(vec![*val; 2]))),
        StOp::MlsClearProposals { g } => res(s.clear_proposal_queue::<_, Blob>(&ogid(*g))),
        StOp::MlsAppendLeaf { g, val } => res(s.append_own_leaf_node(&ogid(*g), &Blob(vec![*val; 2]))),
        StOp::MlsEpochKeys { g, epoch, leaf, val } => res(s.write_encryption_epoch_key_pairs(&ogid(*g), &Blob(vec![*epoch]), *leaf as u32, &[Blob(vec![*val; 2])])),
        StOp::MlsDeleteGroup { g } => {
            let id = ogid(*g);
            let _ = s.delete_tree(&id);
            let _ = s.delete_context(&id);
            res(s.delete_group_state(&id))
        }
        StOp::MlsGlobalWrite { kind, key, val } => {
            let k = Blob(vec![0xF0 + key]);
            let v = Blob(vec![*val; 2]);
            res::<(), _>(match kind % 4 {
                0 => s.write_key_package(&k, &v),
                1 => s.write_signature_key_pair(&k, &v),
                2 => s.write_encryption_key_pair(&k, &v),
                _ => s.write_psk(&k, &v),
            })
        }
        StOp::MlsGlobalDelete { kind, key } => {
            let k = Blob(vec![0xF0 + key]);
            res::<(), _>(match kind % 4 {
                0 => s.delete_key_package(&k),
                1 => s.delete_signature_key_pair(&k),
                2 => s.delete_encryption_key_pair(&k),
                _ => s.delete_psk(&k),
            })
        }
        StOp::Reopen | StOp::Tick { .. } => json!({"ok": null}),
    }
}

/// Everything observable about the MLS part for one group + the global MLS tables.
pub fn mls_dump<S: MdkStorageProvider>(s: &S, g: u8) -> Value {
    let id = ogid(g);
    fn rd<E>(r: Result<Option<Blob>, E>) -> Option<Vec<u8>> {
        r.ok().flatten().map(|b| b.0)
    }
    json!({
        "tree": rd(s.tree(&id)),
        "context": rd(s.group_context(&id)),
        "group_state": rd(s.group_state(&id)),
        "message_secrets": rd(s.message_secrets(&id)),
        "epoch_secrets": rd(s.group_epoch_secrets(&id)),
        "own_leaf_index": rd(s.own_leaf_index(&id)),
        "confirmation_tag": rd(s.confirmation_tag(&id)),
        "join_config": rd(s.mls_group_join_config(&id)),
        "proposals": s.queued_proposals::<_, Blob, Blob>(&id).ok().map(|v| { let mut x: Vec<(Vec<u8>, Vec<u8>)> = v.into_iter().map(|(a, b)| (a.0, b.0)).collect(); x.sort(); x }),
        "own_leaves": s.own_leaf_nodes::<_, Blob>(&id).ok().map(|v| v.into_iter().map(|b| b.0).collect::<Vec<_>>()),
        "epoch_keys": (0..3u8).flat_map(|e| (0..2u8).map(move |l| (e, l))).map(|(e, l)| s.encryption_epoch_key_pairs::<_, Blob, Blob>(&id, &Blob(vec![e]), l as u32).ok().map(|v| v.into_iter().map(|b| b.0).collect::<Vec<_>>())).collect::<Vec<_>>(),
    })
}

pub fn global_dump<S: MdkStorageProvider>(s: &S) -> Value {
    let mut out = vec![];
    for key in 0..3u8 {
        let k = Blob(vec![0xF0 + key]);
        out.push(json!({
            "kp": s.key_package::<_, Blob>(&k).ok().flatten().map(|b: Blob| b.0),
            "sig": s.signature_key_pair::<_, Blob>(&k).ok().flatten().map(|b: Blob| b.0),
            "enc": s.encryption_key_pair::<Blob, Blob>(&k).ok().flatten().map(|b: Blob| b.0),
            "psk": s.psk::<Blob, Blob>(&k).ok().flatten().map(|b: Blob| b.0),
        }));
    }
    json!(out)
}

/// Full dump of the observable store through the read methods over the whole key pool.
/// `scoped(g)`: the part a snapshot of group g covers; `rest`: everything else.
pub fn full_dump<S: MdkStorageProvider>(s: &S, now: u64) -> BTreeMap<String, Value> {
    let mut d = BTreeMap::new();
    for g in 0..N_GROUPS as u8 {
        d.insert(format!("scoped/{g}/group"), apply(s, &StOp::FindGroup { g }, now));
        d.insert(format!("scoped/{g}/relays"), apply(s, &StOp::Relays { g }, now));
        for e in 0..5u8 {
            d.insert(format!("scoped/{g}/secret/{e}"), apply(s, &StOp::GetSecret { g, epoch: e }, now));
        }
        d.insert(format!("scoped/{g}/mls"), mls_dump(s, g));
        for id in 0..N_EVENTS as u8 {
            d.insert(format!("rest/{g}/message/{id}"), apply(s, &StOp::FindMessage { g, id }, now));
        }
        d.insert(format!("rest/{g}/snapshots"), apply(s, &StOp::ListSnapshots { g }, now));
    }
    for w in 0..N_WRAPPERS as u8 {
        d.insert(format!("rest/processed/{w}"), apply(s, &StOp::FindProcessed { w }, now));
        d.insert(format!("rest/processed_welcome/{w}"), apply(s, &StOp::FindProcessedWelcome { w }, now));
    }
    for id in 0..N_EVENTS as u8 {
        d.insert(format!("rest/welcome/{id}"), apply(s, &StOp::FindWelcome { id }, now));
    }
    for n in 0..N_NOSTR as u8 {
        d.insert(format!("index/nostr/{n}"), apply(s, &StOp::FindByNostr { n }, now));
    }
    d.insert("rest/global_mls".into(), global_dump(s));
    d
}

// ---- reference model ----------------------------------------------------------------------------

#[derive(Debug, Clone, Default)]
pub struct Model {
    pub groups: BTreeMap<u8, Group>,
    pub relays: BTreeMap<u8, BTreeSet<u8>>,
    pub secrets: BTreeMap<(u8, u8), u8>,
    pub messages: BTreeMap<(u8, u8), Message>,
    pub processed: BTreeMap<u8, ProcessedMessage>,
    pub welcomes: BTreeMap<u8, Welcome>,
    pub processed_welcomes: BTreeMap<u8, ProcessedWelcome>,
    /// (group, name) -> (created_at, group row, relays, secrets) ; MLS part is not modelled
    pub snapshots: BTreeMap<(u8, u8), (u64, Option<Group>, BTreeSet<u8>, BTreeMap<u8, u8>)>,
}

fn ok<T: Serialize>(v: T) -> Value {
    json!({"ok": serde_json::to_value(v).unwrap_or(Value::Null)})
}
fn err() -> Value {
    json!("err")
}

impl Model {
    fn by_nostr(&self, n: u8) -> Option<&Group> {
        self.groups.values().find(|g| g.nostr_group_id == nostr_id(n))
    }

    fn sorted_messages(&self, g: u8, processed_first: bool) -> Vec<Message> {
        let mut v: Vec<Message> = self.messages.iter().filter(|((gg, _), _)| *gg == g).map(|(_, m)| m.clone()).collect();
        if processed_first {
            v.sort_by(|a, b| b.processed_at.cmp(&a.processed_at).then(b.created_at.cmp(&a.created_at)).then(b.id.cmp(&a.id)));
        } else {
            v.sort_by(|a, b| b.created_at.cmp(&a.created_at).then(b.processed_at.cmp(&a.processed_at)).then(b.id.cmp(&a.id)));
        }
        v
    }

    /// Returns the model's answer, or None where the contract leaves the answer open.
    pub fn apply(&mut self, op: &StOp, now: u64) -> Option<Value> {
        Some(match op {
            StOp::SaveGroup { g, nostr, name, epoch, state, admins, last, su } => {
                if let Some(other) = self.by_nostr(*nostr) {
                    if other.mls_group_id != gid(*g) {
                        return Some(err());
                    }
                }
                self.groups.insert(*g, mk_group(*g, *nostr, *name, *epoch, *state, *admins, *last, *su, now));
                ok(())
            }
            StOp::FindGroup { g } => ok(self.groups.get(g)),
            StOp::FindByNostr { n } => ok(self.by_nostr(*n)),
            StOp::AllGroups => ok(sorted(self.groups.values().map(|g| serde_json::to_value(g).unwrap()).collect())),
            StOp::Admins { g } => match self.groups.get(g) {
                Some(gr) => ok(&gr.admin_pubkeys),
                None => err(),
            },
            StOp::Relays { g } => match self.groups.get(g) {
                Some(_) => ok(self.relays.get(g).cloned().unwrap_or_default().into_iter().map(|r| GroupRelay { relay_url: relay(r), mls_group_id: gid(*g) }).collect::<BTreeSet<_>>()),
                None => err(),
            },
            StOp::ReplaceRelays { g, mask } => {
                if !self.groups.contains_key(g) {
                    return Some(err());
                }
                self.relays.insert(*g, (0..4u8).filter(|i| (mask >> i) & 1 == 1).collect());
                ok(())
            }
            StOp::SaveSecret { g, epoch, val } => {
                if !self.groups.contains_key(g) {
                    return Some(err());
                }
                self.secrets.insert((*g, *epoch), *val);
                ok(())
            }
            StOp::GetSecret { g, epoch } => {
                if !self.groups.contains_key(g) {
                    return Some(err());
                }
                ok(self.secrets.get(&(*g, *epoch)).map(|v| GroupExporterSecret { mls_group_id: gid(*g), epoch: *epoch as u64, secret: Secret::new([*v; 32]) }))
            }
            StOp::NeedSelfUpdate { threshold } => ok(sorted(
                self.groups
                    .values()
                    .filter(|g| g.state == GroupState::Active)
                    .filter(|g| match g.self_update_state {
                        SelfUpdateState::Required => true,
                        SelfUpdateState::CompletedAt(ts) => now.saturating_sub(ts.as_secs()) >= *threshold as u64,
                    })
                    .map(|g| json!(hex::encode(g.mls_group_id.as_slice())))
                    .collect(),
            )),
            StOp::SaveMessage { g, id, ca, pa, state, epoch, content, wrapper, tag } => {
                if !self.groups.contains_key(g) {
                    return Some(err());
                }
                self.messages.insert((*g, *id), mk_message(*g, *id, *ca, *pa, *state, *epoch, *content, *wrapper, *tag));
                ok(())
            }
            StOp::FindMessage { g, id } => ok(self.messages.get(&(*g, *id))),
            StOp::Messages { g, limit, offset, sort } => {
                let lim = limit.map(|l| l as usize).unwrap_or(1000);
                if !(1..=MAX_MESSAGE_LIMIT).contains(&lim) {
                    return Some(err());
                }
                if !self.groups.contains_key(g) {
                    return Some(err());
                }
                let v = self.sorted_messages(*g, sort.unwrap_or(false));
                let off = offset.map(off).unwrap_or(0);
                ok(v.into_iter().skip(off).take(lim).collect::<Vec<_>>())
            }
            StOp::LastMessage { g, processed_first } => {
                if !self.groups.contains_key(g) {
                    return Some(err());
                }
                ok(self.sorted_messages(*g, *processed_first).into_iter().next())
            }
            StOp::SaveProcessed { w, msg, pa, epoch, g, state } => {
                self.processed.insert(
                    *w,
                    ProcessedMessage {
                        wrapper_event_id: wrapper_id(*w),
                        message_event_id: msg.map(event_id),
                        processed_at: Timestamp::from(TS_POOL[(*pa % 5) as usize]),
                        epoch: epoch.map(|e| e as u64),
                        mls_group_id: g.map(gid),
                        state: pm_state(*state),
                        failure_reason: if pm_state(*state) == ProcessedMessageState::Failed { Some("processing_failed".into()) } else { None },
                    },
                );
                ok(())
            }
            StOp::FindProcessed { w } => ok(self.processed.get(w)),
            StOp::InvalidateMessages { g, epoch } => {
                let mut ids = vec![];
                for ((gg, _), m) in self.messages.iter_mut() {
                    if *gg == *g && m.epoch.map(|e| e > *epoch as u64).unwrap_or(false) {
                        m.state = MessageState::EpochInvalidated;
                        ids.push(json!(m.id.to_hex()));
                    }
                }
                ok(sorted(ids))
            }
            StOp::InvalidateProcessed { g, epoch } => {
                let mut ids = vec![];
                for (_, p) in self.processed.iter_mut() {
                    if p.mls_group_id.as_ref() == Some(&gid(*g)) && p.epoch.map(|e| e > *epoch as u64).unwrap_or(false) {
                        p.state = ProcessedMessageState::EpochInvalidated;
                        ids.push(json!(p.wrapper_event_id.to_hex()));
                    }
                }
                ok(sorted(ids))
            }
            StOp::FindInvalidated { g } => ok(sorted(self.messages.iter().filter(|((gg, _), m)| *gg == *g && m.state == MessageState::EpochInvalidated).map(|(_, m)| serde_json::to_value(m).unwrap()).collect())),
            StOp::FindInvalidatedProcessed { g } => ok(sorted(self.processed.values().filter(|p| p.mls_group_id.as_ref() == Some(&gid(*g)) && p.state == ProcessedMessageState::EpochInvalidated).map(|p| serde_json::to_value(p).unwrap()).collect())),
            StOp::FailedForRetry { g } => ok(sorted(self.processed.values().filter(|p| p.mls_group_id.as_ref() == Some(&gid(*g)) && p.state == ProcessedMessageState::Failed && p.epoch.is_none()).map(|p| json!(p.wrapper_event_id.to_hex())).collect())),
            StOp::MarkRetryable { w } => match self.processed.get_mut(w) {
                Some(p) if p.state == ProcessedMessageState::Failed => {
                    p.state = ProcessedMessageState::Retryable;
                    ok(())
                }
                _ => err(),
            },
            StOp::EpochByTag { g, tag } => {
                let needle = tag_needle(*tag);
                let cands: BTreeSet<u64> = self
                    .messages
                    .iter()
                    .filter(|((gg, _), m)| *gg == *g && m.epoch.is_some() && serde_json::to_string(&m.tags).unwrap().contains(&needle))
                    .map(|(_, m)| m.epoch.unwrap())
                    .collect();
                if cands.len() > 1 {
                    return None; // the contract does not say which match is returned
                }
                ok(cands.into_iter().next())
            }
            StOp::SaveWelcome { id, g, nostr, state, wrapper } => {
                self.welcomes.insert(*id, mk_welcome(*id, *g, *nostr, *state, *wrapper));
                ok(())
            }
            StOp::FindWelcome { id } => ok(self.welcomes.get(id)),
            StOp::PendingWelcomes { limit, offset } => {
                let lim = limit.map(|l| l as usize).unwrap_or(1000);
                if !(1..=MAX_PENDING_WELCOMES_LIMIT).contains(&lim) {
                    return Some(err());
                }
                let mut v: Vec<Welcome> = self.welcomes.values().filter(|w| w.state == WelcomeState::Pending).cloned().collect();
                v.sort_by(|a, b| b.id.cmp(&a.id));
                ok(v.into_iter().skip(offset.map(off).unwrap_or(0)).take(lim).collect::<Vec<_>>())
            }
            StOp::SaveProcessedWelcome { w, welcome, state } => {
                self.processed_welcomes.insert(
                    *w,
                    ProcessedWelcome {
                        wrapper_event_id: wrapper_id(*w),
                        welcome_event_id: welcome.map(event_id),
                        processed_at: Timestamp::from(1000),
                        state: if state % 2 == 0 { ProcessedWelcomeState::Processed } else { ProcessedWelcomeState::Failed },
                        failure_reason: if state % 2 == 0 { None } else { Some("x".into()) },
                    },
                );
                ok(())
            }
            StOp::FindProcessedWelcome { w } => ok(self.processed_welcomes.get(w)),
            StOp::Snapshot { g, name } => {
                let secrets: BTreeMap<u8, u8> = self.secrets.iter().filter(|((gg, _), _)| gg == g).map(|((_, e), v)| (*e, *v)).collect();
                self.snapshots.insert((*g, *name), (now, self.groups.get(g).cloned(), self.relays.get(g).cloned().unwrap_or_default(), secrets));
                ok(())
            }
            StOp::Rollback { g, name } => {
                // a Nostr group id belongs to one group: a snapshot whose id another group has
                // taken since is refused and kept
                if let Some((_, Some(grp), ..)) = self.snapshots.get(&(*g, *name)) {
                    if self.groups.iter().any(|(k, x)| k != g && x.nostr_group_id == grp.nostr_group_id) {
                        return Some(err());
                    }
                }
                match self.snapshots.remove(&(*g, *name)) {
                None => err(),
                Some((_, grp, relays, secrets)) => {
                    match grp {
                        Some(x) => {
                            self.groups.insert(*g, x);
                        }
                        None => {
                            self.groups.remove(g);
                        }
                    }
                    self.relays.insert(*g, relays);
                    self.secrets.retain(|(gg, _), _| gg != g);
                    for (e, v) in secrets {
                        self.secrets.insert((*g, e), v);
                    }
                    ok(())
                }
                }
            }
            StOp::Release { g, name } => {
                self.snapshots.remove(&(*g, *name));
                ok(())
            }
            StOp::ListSnapshots { g } => ok(sorted(self.snapshots.iter().filter(|((gg, _), _)| gg == g).map(|((_, n), (t, ..))| json!([format!("snap{n}"), t])).collect())),
            StOp::Prune { min_back } => {
                let min = prune_cutoff(now, *min_back);
                let before = self.snapshots.len();
                self.snapshots.retain(|_, (t, ..)| *t >= min);
                ok(before - self.snapshots.len())
            }
            StOp::MlsWrite { .. } | StOp::MlsQueueProposal { .. } | StOp::MlsClearProposals { .. } | StOp::MlsAppendLeaf { .. } | StOp::MlsEpochKeys { .. } | StOp::MlsDeleteGroup { .. } | StOp::MlsGlobalWrite { .. } | StOp::MlsGlobalDelete { .. } => return None,
            StOp::Reopen | StOp::Tick { .. } => ok(Value::Null),
        })
    }
}

// ---- generation -------------------------------------------------------------------------------

pub fn gen_ops(r: &mut Rng, n: usize, with_mls: bool, snapshot_heavy: bool) -> Vec<StOp> {
    let mut v = vec![];
    // most sequences start by creating a few groups so later ops are not all errors
    for g in 0..(1 + r.below(3)) as u8 {
        v.push(StOp::SaveGroup { g, nostr: g, name: r.below(4) as u8, epoch: r.below(3) as u8, state: 0, admins: r.below(8) as u8, last: None, su: r.below(3) as u8 });
    }
    while v.len() < n {
        let g = r.below(N_GROUPS as u64) as u8;
        let id = r.below(N_EVENTS as u64) as u8;
        let w = r.below(N_WRAPPERS as u64) as u8;
        let limit = match r.below(10) {
            0 => Some(0),
            1 => Some(1),
            2 => Some(MAX_MESSAGE_LIMIT as u32),
            3 => Some(MAX_MESSAGE_LIMIT as u32 + 1),
            4 => None,
            _ => Some(r.range(1, 5) as u32),
        };
        let offset = match r.below(8) {
            0 => None,
            1 => Some(100),
            6 => Some(u32::MAX),
            7 => Some(u32::MAX - 1),
            _ => Some(r.below(6) as u32),
        };
        let pick = r.below(if snapshot_heavy { 46 } else { 40 });
        let op = match pick {
            0 | 1 => StOp::SaveGroup { g, nostr: r.below(N_NOSTR as u64) as u8, name: r.below(4) as u8, epoch: r.below(5) as u8, state: r.below(3) as u8, admins: r.below(8) as u8, last: if r.chance(1, 2) { Some((id, r.below(5) as u8, r.below(5) as u8)) } else { None }, su: r.below(3) as u8 },
            2 => StOp::FindGroup { g },
            3 => StOp::FindByNostr { n: r.below(N_NOSTR as u64) as u8 },
            4 => StOp::AllGroups,
            5 => StOp::Admins { g },
            6 => StOp::Relays { g },
            7 => StOp::ReplaceRelays { g, mask: r.below(16) as u8 },
            8 => StOp::SaveSecret { g, epoch: r.below(5) as u8, val: r.below(250) as u8 },
            9 => StOp::GetSecret { g, epoch: r.below(5) as u8 },
            10 => StOp::NeedSelfUpdate { threshold: [0, 1, 50, 51, 1000][r.below(5) as usize] },
            11..=15 => StOp::SaveMessage { g, id, ca: r.below(5) as u8, pa: r.below(5) as u8, state: r.below(4) as u8, epoch: if r.chance(1, 5) { None } else { Some(r.below(5) as u8) }, content: r.below(6) as u8, wrapper: w, tag: r.below(3) as u8 },
            16 => StOp::FindMessage { g, id },
            17..=19 => StOp::Messages { g, limit, offset, sort: match r.below(3) { 0 => None, 1 => Some(false), _ => Some(true) } },
            20 => StOp::LastMessage { g, processed_first: r.chance(1, 2) },
            21 | 22 => StOp::SaveProcessed { w, msg: if r.chance(1, 2) { Some(id) } else { None }, pa: r.below(5) as u8, epoch: if r.chance(1, 3) { None } else { Some(r.below(5) as u8) }, g: if r.chance(1, 5) { None } else { Some(g) }, state: r.below(6) as u8 },
            23 => StOp::FindProcessed { w },
            24 => StOp::InvalidateMessages { g, epoch: r.below(5) as u8 },
            25 => StOp::InvalidateProcessed { g, epoch: r.below(5) as u8 },
            26 => StOp::FindInvalidated { g },
            27 => StOp::FindInvalidatedProcessed { g },
            28 => StOp::FailedForRetry { g },
            29 => StOp::MarkRetryable { w },
            30 => StOp::EpochByTag { g, tag: r.below(3) as u8 + if r.chance(1, 4) { 100 } else { 0 } },
            31 => StOp::SaveWelcome { id, g, nostr: r.below(N_NOSTR as u64) as u8, state: r.below(4) as u8, wrapper: w },
            32 => StOp::FindWelcome { id },
            33 => StOp::PendingWelcomes { limit: limit.map(|l| if l > 10 && l != MAX_MESSAGE_LIMIT as u32 + 1 { l } else { l }), offset },
            34 => StOp::SaveProcessedWelcome { w, welcome: if r.chance(1, 2) { Some(id) } else { None }, state: r.below(2) as u8 },
            35 => StOp::FindProcessedWelcome { w },
            36 => StOp::Tick { dt: r.below(3) as u8 },
            37 => StOp::Reopen,
            38 | 40 | 41 => StOp::Snapshot { g: if r.chance(9, 10) { g % 3 } else { g }, name: r.below(3) as u8 },
            39 | 42 | 43 => StOp::Rollback { g: g % 3, name: r.below(3) as u8 },
            44 => StOp::Release { g: g % 3, name: r.below(3) as u8 },
            _ => StOp::ListSnapshots { g },
        };
        v.push(op);
        if with_mls && r.chance(1, 3) {
            let m = match r.below(9) {
                0..=2 => StOp::MlsWrite { g, kind: r.below(8) as u8, val: r.below(250) as u8 },
                3 => StOp::MlsQueueProposal { g, r: r.below(3) as u8, val: r.below(250) as u8 },
                4 => StOp::MlsClearProposals { g },
                5 => StOp::MlsAppendLeaf { g, val: r.below(250) as u8 },
                6 => StOp::MlsEpochKeys { g, epoch: r.below(3) as u8, leaf: r.below(2) as u8, val: r.below(250) as u8 },
                7 => StOp::MlsGlobalWrite { kind: r.below(4) as u8, key: r.below(3) as u8, val: r.below(250) as u8 },
                _ => StOp::MlsGlobalDelete { kind: r.below(4) as u8, key: r.below(3) as u8 },
            };
            v.push(m);
        }
        if r.chance(1, 25) {
            v.push(StOp::Prune { min_back: [0, 1, 2, 1000, u32::MAX][r.below(5) as usize] });
        }
        if with_mls && r.chance(1, 40) {
            // an ordered list (own leaf nodes) that is long enough for its row ids to cross a
            // decimal digit boundary, snapshotted, extended and rolled back: the order must
            // come back as it was
            let g = r.below(2) as u8;
            let name = r.below(3) as u8;
            for i in 0..(9 + r.below(5) as u8) {
                v.push(StOp::MlsAppendLeaf { g: if i % 4 == 3 { 1 - g } else { g }, val: 10 + i });
            }
            v.push(StOp::Snapshot { g, name });
            v.push(StOp::MlsAppendLeaf { g, val: 99 });
            v.push(StOp::Rollback { g, name });
            v.push(StOp::FindGroup { g });
        }
        if snapshot_heavy && r.chance(1, 30) {
            // a snapshot re-taken under its name after rows of the first take have gone (relays are
            // re-inserted under new row ids, proposals cleared), then a rollback to it: exactly
            // the second take must come back
            let g = r.below(2) as u8;
            let name = r.below(3) as u8;
            let a = 1 + r.below(15) as u8;
            let b = 1 + r.below(15) as u8;
            v.push(StOp::ReplaceRelays { g, mask: a });
            if with_mls {
                v.push(StOp::MlsQueueProposal { g, r: r.below(3) as u8, val: r.below(250) as u8 });
                v.push(StOp::MlsEpochKeys { g, epoch: r.below(3) as u8, leaf: r.below(2) as u8, val: r.below(250) as u8 });
            }
            v.push(StOp::Snapshot { g, name });
            v.push(StOp::ReplaceRelays { g, mask: b });
            if with_mls {
                v.push(StOp::MlsClearProposals { g });
            }
            v.push(StOp::Snapshot { g, name });
            v.push(StOp::ReplaceRelays { g, mask: 1 + r.below(15) as u8 });
            v.push(StOp::Rollback { g, name });
            v.push(StOp::Relays { g });
        }
    }
    v
}

pub struct SqlHolder {
    pub dir: PathBuf,
    pub st: Option<MdkSqliteStorage>,
}

impl SqlHolder {
    pub fn new(dir: PathBuf) -> Self {
        std::fs::create_dir_all(&dir).unwrap();
        let st = MdkSqliteStorage::new_unencrypted(dir.join("s.sqlite")).expect("open sqlite");
        SqlHolder { dir, st: Some(st) }
    }
    pub fn reopen(&mut self) {
        self.st = None;
        self.st = Some(MdkSqliteStorage::new_unencrypted(self.dir.join("s.sqlite")).expect("reopen sqlite"));
    }
    pub fn s(&self) -> &MdkSqliteStorage {
        self.st.as_ref().unwrap()
    }
}

pub fn new_memory() -> MdkMemoryStorage {
    MdkMemoryStorage::default()
}
