//! C03 — only members of the sending epoch ever obtain a message's plaintext.

use std::collections::BTreeSet;

use crate::driver::*;
use crate::genr::*;
use crate::run::Oracle;
use crate::with_mdk;
use crate::world::*;

#[derive(Default)]
pub struct C03 {
    guarded: bool,
    exmember_fed: bool,
    outsider_fed: bool,
    evicted_nodes: BTreeSet<(usize, usize)>,
}

impl Oracle for C03 {
    fn after_step(&mut self, w: &mut World, rec: &StepRecord) {
        let node = rec.step.node;
        if node >= w.nodes.len() || w.nodes[node].mdk.is_none() {
            return;
        }
        let pk = w.nodes[node].pubkey().to_hex();
        let mut viols: Vec<(&str, String)> = vec![];
        for g in 0..w.groups.len() {
            let Some(gv) = w.gview(node, g) else { continue };
            // every stored message: the client was a member of the state it was sent in
            for m in &gv.messages {
                let Some(l) = w.ledger.iter().find(|l| l.g == g && l.rumor_id == m.id) else { continue };
                let was_member = w.state_info.get(&l.state).map(|s| s.members.contains(&pk));
                match was_member {
                    Some(false) => viols.push(("plaintext-stored-by-non-member-of-epoch", format!("g{g} n{node} stores message {} ({}) sent in state {} (epoch {}) of which it was not a member", &m.id[..8], l.canary, &l.state[..8.min(l.state.len())], l.epoch))),
                    _ => {}
                }
            }
            // once the own removal is processed: inactive, cannot send
            let inactive = gv.record.as_ref().map(|r| r.state == "inactive").unwrap_or(false);
            let evicted = gv.mls.as_ref().map(|m| m.own_leaf.is_none() || !m.active).unwrap_or(false);
            // (an invitation to join again, received but not yet accepted, shows as "pending": not active)
            let pending = gv.record.as_ref().map(|r| r.state == "pending").unwrap_or(false);
            if evicted && !inactive && !pending {
                viols.push(("evicted-but-record-not-inactive", format!("g{g} n{node}: MLS state has no own leaf but the record is {:?}", gv.record.as_ref().map(|r| r.state.clone()))));
            }
            if evicted {
                self.evicted_nodes.insert((node, g));
            } else if gv.mls.as_ref().map(|m| m.own_leaf.is_some() && m.active).unwrap_or(false) {
                // joined again: a member like any other from here on
                self.evicted_nodes.remove(&(node, g));
            }
        }
        // a client that was never invited to a group (and did not create it) never holds it
        for g in 0..w.groups.len() {
            if w.gview(node, g).is_some() && w.groups[g].creator != node && !w.welcomes.iter().any(|x| x.g == g && x.recipient == node) {
                viols.push(("group-held-by-never-member", format!("g{g} n{node}: holds the group although no invitation was ever addressed to it")));
            }
        }
        if let Op::ProcessWelcome { w: wr } = &rec.step.op {
            if let Some(pw) = w.w_index.get(wr).map(|i| w.welcomes[*i].clone()) {
                // one MLS Welcome serves every member added by the same commit: a co-invitee can
                // open the copy addressed to another co-invitee, legitimately
                let co_invitee = w.welcomes.iter().any(|x| x.origin.0 == pw.origin.0 && x.g == pw.g && x.recipient == node);
                if pw.recipient != node && !co_invitee {
                    self.outsider_fed = true;
                    w.probe("foreign_invitation_fed_to_outsider");
                    if rec.class == "ok" {
                        viols.push(("foreign-invitation-accepted", format!("g{} n{node}: process_welcome succeeded on an invitation addressed to n{}", pw.g, pw.recipient)));
                    }
                }
            }
        }
        // the commit that removes this client, handed over while the client stands in the commit's
        // parent state, is its removal being processed: it must not be refused (a refusal leaves
        // the client active in a group it is no longer part of)
        if let Op::Deliver { ev } = &rec.step.op {
            if let Some(pe) = w.ev(*ev).cloned() {
                if pe.kind == EvKind::Commit && !pe.refs_proposals && is_refusal(&rec.class) && crate::model::commit_is_authorised(w, &pe) {
                    let removes_me = w.history.iter().any(|r| r.step.id == pe.origin.0 && matches!(&r.step.op, Op::RemoveMembers { g, who } if *g == pe.g && who.contains(&node)));
                    let in_parent = rec.pre_state.get(&pe.g).map(|s| s.1 == pe.parent_state).unwrap_or(false);
                    let first_time = w.delivered[node].get(ev).map(|d| d.1 <= 1).unwrap_or(true);
                    // (a client that a competing commit already evicted stays where it was)
                    let was_active = w.prev_view.groups.get(&w.gid_hex(pe.g)).map(|gv| {
                        gv.record.as_ref().map(|r| r.state == "active").unwrap_or(false) && gv.mls.as_ref().map(|m| m.active && m.own_leaf.is_some()).unwrap_or(false)
                    }).unwrap_or(false);
                    if removes_me && in_parent && first_time && was_active {
                        viols.push(("own-removal-refused", format!("g{} n{node}: the commit that removes it ({}) was handed over in its parent state and answered {}", pe.g, pe.desc, rec.outcome.chars().take(80).collect::<String>())));
                    }
                }
            }
        }
        // an app message returned by process_message to a client that is not a member of its epoch
        if let Op::Deliver { ev } = &rec.step.op {
            if let Some(pe) = w.ev(*ev).cloned() {
                if w.gview(node, pe.g).is_none() {
                    self.outsider_fed = true;
                    w.probe("event_fed_to_never_member");
                    if !matches!(rec.class.as_str(), "err" | "unprocessable" | "skipped") && !crate::world::is_refusal(&rec.class) {
                        viols.push(("never-member-processed-an-event", format!("g{} n{node}: answered {} to an event of a group it never held", pe.g, rec.outcome.chars().take(80).collect::<String>())));
                    }
                }
                if self.evicted_nodes.contains(&(node, pe.g)) && pe.kind == EvKind::App {
                    self.exmember_fed = true;
                    w.probe("message_fed_to_ex_member");
                }
                if rec.class == "app" {
                    if let Some(li) = pe.msg {
                        let l = &w.ledger[li];
                        if w.state_info.get(&l.state).map(|s| !s.members.contains(&pk)).unwrap_or(false) {
                            viols.push(("plaintext-returned-to-non-member-of-epoch", format!("g{} n{node} obtained {} from process_message", pe.g, l.canary)));
                        }
                    }
                }
            }
        }
        // an evicted client cannot send
        if let Op::SendMsg { g, .. } = &rec.step.op {
            if self.evicted_nodes.contains(&(node, *g)) {
                w.probe("send_attempt_after_eviction");
                if rec.class == "ok" {
                    viols.push(("evicted-client-can-send", format!("g{g} n{node}: create_message succeeded after the client processed its own removal")));
                }
            }
        }
        for (clause, detail) in viols {
            w.violations.push(Violation { property: "C03".into(), clause: clause.into(), step: Some(rec.step.id), node: Some(node), detail, known: None });
        }
    }

    fn at_end(&mut self, w: &mut World, _cfg: &RunCfg, _gn: &Gen, _q: bool, _p: usize) {
        // byte scan of every SQLite (unencrypted) database of clients for canaries of messages
        // whose sending state they were not a member of
        for node in 0..w.nodes.len() {
            if w.nodes[node].cfg.backend != crate::node::BackendKind::Sqlite || w.nodes[node].mdk.is_none() {
                continue;
            }
            let pk = w.nodes[node].pubkey().to_hex();
            let mut blob = vec![];
            if let Ok(rd) = std::fs::read_dir(&w.nodes[node].dir) {
                for e in rd.flatten() {
                    if let Ok(b) = std::fs::read(e.path()) {
                        blob.extend(b);
                    }
                }
            }
            let hay = String::from_utf8_lossy(&blob).to_string();
            for l in &w.ledger {
                if w.state_info.get(&l.state).map(|s| !s.members.contains(&pk)).unwrap_or(false) && hay.contains(&l.canary) {
                    w.violations.push(Violation { property: "C03".into(), clause: "canary-in-database-of-non-member".into(), step: None, node: Some(node), detail: format!("n{node}: database files contain {} of a message sent in a state it was not a member of", l.canary), known: None });
                    break;
                }
            }
            w.probe("database_canary_scans");
        }
        let _ = self.guarded;
    }

    fn nontrivial(&self, w: &World) -> bool {
        self.exmember_fed && w.history.iter().any(|r| matches!(r.step.op, Op::RemoveMembers { .. } | Op::Leave { .. }) && r.class == "ok")
    }
}

fn mk(cfg: &RunCfg) -> Box<dyn Oracle> {
    Box::new(C03 { guarded: cfg.guards.contains("guarded"), ..Default::default() })
}

fn churn(g: &mut Gen) {
    g.cfg.weights.remove += 2;
    g.cfg.weights.invite += 2;
    g.cfg.weights.leave += 1;
    g.cfg.weights.msg += 4;
    g.cfg.weights.rotate = g.cfg.weights.rotate.max(1);
    // removals that follow a commit race (the removed client may see the loser first)
    g.cfg.weights.fork += 2;
    // evicted clients keep trying to send
    g.ex_members_send = true;
    g.feed_outsiders = true;
}

pub fn spec() -> CheckSpec {
    let base = Profile { msg_heavy: true, min_nodes: 3, max_nodes: 6, second_group: true, steps_lo: 40, steps_hi: 90, ..Default::default() };
    CheckSpec {
        id: "C03",
        level: "exploration",
        rule: "membership-churn world runs (adds, removals, leaves with admin auto-commit, self-updates, id rotations, re-invites, two groups sharing members), every message carrying a unique canary; ex-members keep their storage (incl. past exporter secrets) and keep being handed every event of the group in seeded orders, repeatedly; clients that never held the group are handed its events and invitations addressed to others (they must refuse, hold nothing, store nothing); oracle after every call: a client stores / is returned a message only if its identity is in the member set (ground-truth ledger) of the state the message was sent in; evicted => record inactive and create_message fails; the commit that removes a client, handed over in its parent state, is not refused; final byte scan of unencrypted SQLite files for foreign canaries; non-trivial = a removal, a later message, and that message fed to the ex-member; distinct = delivery signature; variant multi-device: users with 1-3 devices (one identity, one leaf and one storage per device), a single admin adds and removes USERS (also two by one commit), every device keeps being handed every event: ground truth per user and epoch, same clauses, plus: after a removal the admin's roster no longer lists the identity",
        variants: vec![
            Variant { name: "mem", profile: Profile { backend: BackendMix::Memory, ..base.clone() }, runs_quick: 300, runs_thorough: 15000, oracle: mk, guarded: false, configure_gen: Some(churn), post: None, custom: None },
            Variant { name: "mixed", profile: Profile { backend: BackendMix::Mixed, allow_restart: true, ..base.clone() }, runs_quick: 100, runs_thorough: 5000, oracle: mk, guarded: false, configure_gen: Some(churn), post: None, custom: None },
            Variant { name: "multi-device", profile: Profile { backend: BackendMix::Mixed, steps_lo: 15, steps_hi: 40, ..base.clone() }, runs_quick: 300, runs_thorough: 20000, oracle: super::c10::mk_nop, guarded: false, configure_gen: None, post: None, custom: Some(super::multidev::run) },
        ],
        assumptions: vec!["member sets per state come from the first honest client that exhibited the state"],
        real: super::REAL.to_vec(),
        stubs: super::STUBS.to_vec(),
    }
}

#[allow(dead_code)]
fn _t() {
    let _ = with_mdk!(&crate::node::Mdk::Mem(mdk_core::MDK::new(mdk_memory_storage::MdkMemoryStorage::default())), m => m.get_groups().is_ok());
}
