//! C20 — rollback snapshots stay bounded in number and age.

use std::collections::{BTreeMap, BTreeSet};

use crate::driver::*;
use crate::genr::*;
use crate::run::Oracle;
use crate::world::*;

#[derive(Debug, Clone)]
struct Snap {
    name: String,
    epoch: u64,
    created_at: u64,
}

/// Snapshot-queue model: per (node, group) the snapshots a client should hold.
#[derive(Default)]
pub struct C20 {
    guarded: bool,
    q: BTreeMap<(usize, usize), Vec<Snap>>,
    exceeded: bool,
    rolled: bool,
    restarted_with: bool,
}

fn snap_name(gid_hex: &str, epoch: u64, ev: &str) -> String {
    format!("snap_{gid_hex}_{epoch}_{ev}")
}

impl Oracle for C20 {
    fn wants_quiescence(&self) -> bool {
        true
    }

    fn after_step(&mut self, w: &mut World, rec: &StepRecord) {
        let node = rec.step.node;
        if node >= w.nodes.len() || w.nodes[node].mdk.is_none() {
            return;
        }
        let retention = w.nodes[node].cfg.epoch_snapshot_retention;
        let ttl = w.nodes[node].cfg.snapshot_ttl_seconds;
        let node_now = (w.now as i64 + w.nodes[node].cfg.clock_offset) as u64;
        let persistent = w.nodes[node].cfg.backend.is_sqlite();
        // ---- model transition ----
        match &rec.step.op {
            Op::Deliver { ev } => {
                if let Some(pe) = w.ev(*ev).cloned() {
                    let g = pe.g;
                    let key = (node, g);
                    let infos = w.nodes[node].rollbacks.infos.lock().unwrap().clone();
                    if rec.rollback {
                        self.rolled = true;
                        // every snapshot at or above the rollback target is consumed or released
                        let target = infos.last().map(|i| i.target_epoch).unwrap_or(pe.epoch);
                        if let Some(q) = self.q.get_mut(&key) {
                            q.retain(|s| s.epoch < target);
                        }
                    }
                    let pre = rec.pre_state.get(&g).cloned();
                    let post = rec.post_state.get(&g).cloned();
                    let base_epoch = if rec.rollback { infos.last().map(|i| i.target_epoch) } else { pre.as_ref().map(|p| p.0) };
                    let applied = rec.class == "commit" && pre != post && pe.kind == EvKind::Commit;
                    // after a rollback the commit is applied iff the node ended above the target
                    let applied = if rec.rollback { rec.class == "commit" && post.as_ref().map(|p| Some(p.0) > base_epoch).unwrap_or(false) } else { applied };
                    if applied {
                        if let Some(e) = base_epoch {
                            let name = snap_name(&w.gid_hex(g), e, &pe.event.id.to_hex());
                            let q = self.q.entry(key).or_default();
                            q.retain(|s| s.name != name);
                            q.push(Snap { name, epoch: e, created_at: node_now });
                            if q.len() > retention {
                                self.exceeded = true;
                                w.probe("retention_exceeded_and_pruned");
                            }
                            while q.len() > retention {
                                q.remove(0);
                            }
                        }
                    }
                }
            }
            Op::Restart if rec.class == "ok" => {
                let min_ts = node_now.saturating_sub(ttl);
                for ((n, _), q) in self.q.iter_mut() {
                    if *n == node {
                        if !q.is_empty() {
                            self.restarted_with = true;
                        }
                        let before = q.len();
                        q.retain(|s| s.created_at >= min_ts);
                        if q.len() < before {
                            w.probe("ttl_pruned_on_startup");
                        }
                    }
                }
            }
            _ => {}
        }
        // ---- compare with the client ----
        let mut viols: Vec<(&str, String)> = vec![];
        for g in 0..w.groups.len() {
            let Some(gv) = w.gview(node, g) else { continue };
            let have: BTreeSet<String> = gv.snapshots.iter().cloned().collect();
            if have.len() > retention {
                viols.push(("more-than-retention", format!("g{g} n{node}: {} snapshots held, retention {}", have.len(), retention)));
            }
            let want: BTreeSet<String> = self.q.get(&(node, g)).map(|q| q.iter().map(|s| s.name.clone()).collect()).unwrap_or_default();
            if have != want {
                let extra: Vec<String> = have.difference(&want).map(|s| short(s)).collect();
                let missing: Vec<String> = want.difference(&have).map(|s| short(s)).collect();
                viols.push(("snapshot-set-differs-from-model", format!("g{g} n{node} after #{} ({}): unexpected {:?}, missing {:?} (retention {retention}, ttl {ttl}, persistent {persistent})", rec.step.id, rec.outcome.chars().take(60).collect::<String>(), extra, missing)));
            }
            // none at or above the current epoch
            if let Some(m) = &gv.mls {
                for s in &have {
                    let parts: Vec<&str> = s.split('_').collect();
                    if let Some(e) = parts.get(2).and_then(|x| x.parse::<u64>().ok()) {
                        if e >= m.epoch && m.own_leaf.is_some() {
                            viols.push(("snapshot-at-or-above-current-epoch", format!("g{g} n{node}: snapshot of epoch {e} while the group is at epoch {}", m.epoch)));
                        }
                    }
                }
            }
        }
        for (clause, detail) in viols {
            let known = if self.guarded { None } else { known_trigger(w, rec, clause) };
            w.violations.push(Violation { property: "C20".into(), clause: clause.into(), step: Some(rec.step.id), node: Some(node), detail, known });
            // resynchronise the model with the client so one defect is reported once
            for g in 0..w.groups.len() {
                if let Some(gv) = w.gview(node, g) {
                    let names = gv.snapshots.clone();
                    let q = self.q.entry((node, g)).or_default();
                    let old = q.clone();
                    q.clear();
                    for n in names {
                        let parts: Vec<&str> = n.split('_').collect();
                        let e = parts.get(2).and_then(|x| x.parse::<u64>().ok()).unwrap_or(0);
                        let created_at = old.iter().find(|s| s.name == n).map(|s| s.created_at).unwrap_or(node_now);
                        q.push(Snap { name: n, epoch: e, created_at });
                    }
                    q.sort_by_key(|s| s.epoch);
                }
            }
            break;
        }
    }

    fn nontrivial(&self, w: &World) -> bool {
        let any_sqlite = w.nodes.iter().any(|n| n.cfg.backend.is_sqlite());
        self.exceeded && self.rolled && (!any_sqlite || self.restarted_with)
    }
}

fn short(s: &str) -> String {
    let parts: Vec<&str> = s.split('_').collect();
    format!("epoch{}:{}", parts.get(2).unwrap_or(&"?"), parts.get(3).map(|x| &x[..8.min(x.len())]).unwrap_or("?"))
}

pub fn known_trigger(w: &World, rec: &StepRecord, _clause: &str) -> Option<String> {
    // KF-C20-1: the client re-joined a group through a second invitation (its MLS state is
    // replaced); the snapshots taken under the replaced state are not discarded
    let node = rec.step.node;
    for g in 0..w.groups.len() {
        let accepts = w
            .history
            .iter()
            .filter(|r| r.step.node == node && r.class == "ok" && matches!(&r.step.op, Op::AcceptWelcome { w: wr } if w.w_index.get(wr).map(|i| w.welcomes[*i].g == g).unwrap_or(false)))
            .count();
        if accepts >= 2 {
            return Some("KF-C20-1".into());
        }
    }
    None
}

fn mk(cfg: &RunCfg) -> Box<dyn Oracle> {
    Box::new(C20 { guarded: cfg.guards.contains("guarded"), ..Default::default() })
}

/// Story: a burst of commits inside one second takes a client on persistent storage past epoch
/// 10 (snapshot names then differ in the number of digits of the epoch); the client restarts and
/// applies one more commit: the snapshots kept must still be those of the most recent commits.
fn burst_story(gn: &mut Gen, w: &mut World) -> Option<Step> {
    if w.groups.is_empty() || w.probes.contains_key("commit_burst_past_epoch_10_then_restart_story") || gn.rng().chance(2, 3) {
        return None;
    }
    let g = 0usize;
    let n = w.nodes.len();
    let admins: Vec<usize> = (0..n).filter(|a| w.is_admin(*a, g) && w.is_active_member(*a, g) && !w.has_pending_commit(*a, g)).collect();
    let a = *admins.first()?;
    let xs: Vec<usize> = (0..n).filter(|x| *x != a && w.nodes[*x].cfg.backend.is_sqlite() && w.is_active_member(*x, g) && !w.has_pending_commit(*x, g) && w.node_state(*x, g) == w.node_state(a, g)).collect();
    let x = *gn.rng().pick(&xs)?;
    let epoch = w.node_state(a, g).map(|s| s.0).unwrap_or(1);
    let k = (11u64.saturating_sub(epoch)).clamp(2, 12) as u32 + gn.rng().below(2) as u32;
    let first = gn.mk(w, a, 1, Op::UpdateData { g, variant: 0, arg: 800 });
    let mut q = vec![gn.mk(w, a, 0, Op::MergePending { g }), gn.mk(w, x, 0, Op::Deliver { ev: EvRef(first.id, 0) })];
    for i in 1..k {
        let up = gn.mk(w, a, 0, Op::UpdateData { g, variant: (i % 2) as u8, arg: 800 + i });
        let c = EvRef(up.id, 0);
        q.push(up);
        q.push(gn.mk(w, a, 0, Op::MergePending { g }));
        q.push(gn.mk(w, x, 0, Op::Deliver { ev: c }));
    }
    q.push(gn.mk(w, x, 0, Op::Restart));
    let up = gn.mk(w, a, 0, Op::UpdateData { g, variant: 1, arg: 899 });
    let c = EvRef(up.id, 0);
    q.push(up);
    q.push(gn.mk(w, a, 0, Op::MergePending { g }));
    q.push(gn.mk(w, x, 0, Op::Deliver { ev: c }));
    for st in q {
        gn.queue.push_back(st);
    }
    w.probe("commit_burst_past_epoch_10_then_restart_story");
    Some(first)
}

fn commit_heavy(g: &mut Gen) {
    if g.cfg.nodes.iter().any(|n| n.backend.is_sqlite()) {
        g.hostile_hook = Some(burst_story);
        g.cfg.weights.hostile = g.cfg.weights.hostile.max(1);
    }
    g.cfg.weights.commit += 3;
    g.cfg.weights.fork += 2;
    g.cfg.weights.msg = g.cfg.weights.msg.min(2);
    if g.cfg.nodes.iter().any(|n| n.backend.is_sqlite()) {
        g.cfg.weights.restart = g.cfg.weights.restart.max(1) + 1;
    }
}

pub fn spec() -> CheckSpec {
    let base = Profile { retention: Some((0, 6)), snapshot_ttl: Some((5, 120)), big_dt: true, second_group: true, max_nodes: 4, steps_lo: 30, steps_hi: 80, ..Default::default() };
    CheckSpec {
        id: "C20",
        level: "exploration",
        rule: "commit/rollback-heavy seeded runs on 1-2 groups, retention 0..6, snapshot TTL 5..120 s with clock jumps of 10..90 s, restarts on SQLite; after every step list_group_snapshots of every client and group is compared with a snapshot-queue model (names of the most recent <= retention commits applied through the processing path, nothing at or above a rolled-back epoch, TTL pruning at start-up); non-trivial = retention exceeded at least once, a rollback, and on SQLite a restart with snapshots present; distinct = delivery signature",
        variants: vec![
            Variant { name: "mem", profile: Profile { backend: BackendMix::Memory, ..base.clone() }, runs_quick: 300, runs_thorough: 15000, oracle: mk, guarded: false, configure_gen: Some(commit_heavy), post: None, custom: None },
            Variant { name: "sqlite", profile: Profile { backend: BackendMix::Sqlite, allow_restart: true, ..base.clone() }, runs_quick: 120, runs_thorough: 6000, oracle: mk, guarded: false, configure_gen: Some(commit_heavy), post: None, custom: None },
        ],
        assumptions: vec!["honest members", "snapshot age is measured on the node's own (simulated) clock"],
        real: super::REAL.to_vec(),
        stubs: super::STUBS.to_vec(),
    }
}
