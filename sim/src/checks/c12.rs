//! C12 — a crash at any storage step leaves a recoverable database.
//!
//! Primary run: a short seeded history on SQLite nodes, executed un-armed with the tick hook
//! counting the storage steps of every API call. Then, for every sampled target call and for
//! tick indices k of that call (quick: every k inside the explicit transactions / savepoints and
//! the constructors, a seeded sample of the rest; thorough: every k), the whole history is
//! re-executed from scratch up to the target (per-step reseeding makes it identical), the
//! process is killed at tick k (directory image taken at that instant, unwinding out of the
//! call), the node is reopened from the image, the interrupted call is issued again, the rest of
//! the history and the quiescence phase run, and the end state is compared with the
//! uninterrupted run.

use std::collections::{BTreeMap, BTreeSet};

use crate::driver::*;
use crate::genr::*;
use crate::node::NodeView;
use crate::rng::Rng;
use crate::run::{Oracle, RunOutput};
use crate::seam;
use crate::world::*;

#[derive(Default)]
pub struct C12Primary;

impl Oracle for C12Primary {}

fn mk(_cfg: &RunCfg) -> Box<dyn Oracle> {
    Box::new(C12Primary)
}

/// oracle used inside the crash executions: collects reopen failures and unloadable groups
#[derive(Default)]
struct CrashOracle {
    target: u32,
    recovered: String,
    torn: bool,
}

impl Oracle for CrashOracle {
    fn after_step(&mut self, w: &mut World, rec: &StepRecord) {
        if rec.step.id != self.target {
            return;
        }
        let node = rec.step.node;
        if rec.class == "crashed_reopen_failed" {
            w.violations.push(Violation { property: "C12".into(), clause: "database-does-not-open".into(), step: Some(rec.step.id), node: Some(node), detail: rec.outcome.clone(), known: None });
            return;
        }
        if rec.class != "crashed" {
            return;
        }
        // summary of the recovered state, for triage and known-finding attribution
        let mut summary = vec![];
        for (k, gv) in &w.views[node].groups {
            let r = gv.record.as_ref();
            let m = gv.mls.as_ref();
            summary.push(format!(
                "{}: record(epoch {:?}, {:?}) mls(epoch {:?}, pending_commit {:?}, err {:?})",
                &k[..6],
                r.map(|r| r.epoch),
                r.map(|r| r.state.clone()),
                m.map(|m| m.epoch),
                m.map(|m| m.pending_commit),
                gv.mls_err.is_some()
            ));
        }
        self.recovered = summary.join("; ");
        self.torn = w.views[node].groups.values().any(|gv| match (&gv.record, &gv.mls) {
            (Some(r), Some(m)) => r.state == "active" && m.own_leaf.is_some() && r.epoch != m.epoch,
            _ => false,
        });
        // explicit transactions / savepoints are all-or-nothing: dying inside one leaves the
        // group-scoped state exactly as it was before the call
        if let Some((_, label)) = &rec.crashed_at {
            if label.contains("Txn") {
                for (k, gv) in &w.views[node].groups {
                    // baseline: the database as it was at the statement boundary in front of the
                    // interrupted transaction (earlier statements of the same call - a rollback
                    // that precedes the relay replacement - are committed and stay), else the
                    // state before the call
                    let Some(pv) = w.txn_baseline_view.as_ref().map(|v| v.groups.get(k)).unwrap_or_else(|| w.prev_view.groups.get(k)) else { continue };
                    // what the interrupted transaction covers
                    let ev_hex: String = match &rec.step.op {
                        Op::Deliver { ev } => w.ev(*ev).map(|p| p.event.id.to_hex()).unwrap_or_default(),
                        _ => String::new(),
                    };
                    let before_has = pv.snapshots.iter().filter(|n| !ev_hex.is_empty() && n.ends_with(&ev_hex)).count();
                    let relays_txn = label.contains("relays:");
                    let snapshot_txn = label.contains("snapshot:");
                    let proj = |g: &crate::node::GroupView| {
                        if relays_txn {
                            serde_json::json!({"relays": g.relays})
                        } else if snapshot_txn {
                            // a half-written snapshot shows up under its name: the name of the
                            // snapshot being taken (it embeds the delivered event's id) must be absent
                            let has = g.snapshots.iter().filter(|n| !ev_hex.is_empty() && n.ends_with(&ev_hex)).count();
                            serde_json::json!({"snapshot_of_this_commit_present_beyond_before": has > before_has})
                        } else {
                            serde_json::json!({
                                "record": g.record.as_ref().map(|r| (r.epoch, r.state.clone(), r.name.clone(), r.nostr_group_id.clone(), r.admins.clone())),
                                "relays": g.relays,
                                "mls": g.mls.as_ref().map(|m| (m.epoch, m.authenticator.clone(), m.members.clone(), m.tree_hash.clone())),
                                "mls_err": g.mls_err,
                                "snapshots": g.snapshots,
                            })
                        }
                    };
                    if proj(gv) != proj(pv) {
                        w.violations.push(Violation { property: "C12".into(), clause: "transaction-not-atomic".into(), step: Some(rec.step.id), node: Some(node), detail: format!("{}: dying inside {label} left group {} changed: before {:?} after {:?}", rec.outcome, &k[..8], proj(pv), proj(gv)), known: None });
                    }
                }
            }
        }
        // every group loads
        for (k, gv) in &w.views[node].groups {
            if let Some(e) = &gv.mls_err {
                w.violations.push(Violation { property: "C12".into(), clause: "group-does-not-load".into(), step: Some(rec.step.id), node: Some(node), detail: format!("{}: group {} fails to load after recovery: {e}", rec.outcome, &k[..8]), known: None });
            }
        }
    }
}

fn op_kind(w_log_line: &str, op: &Op) -> &'static str {
    match op {
        Op::CreateGroup { .. } => "create_group",
        Op::SendMsg { .. } => "create_message",
        Op::Deliver { .. } => {
            if w_log_line.contains("[rollback") {
                "process_message:commit_with_rollback"
            } else if w_log_line.contains("-> Commit") {
                "process_message:commit"
            } else if w_log_line.contains("-> App(") {
                "process_message:application"
            } else if w_log_line.contains("Proposal") {
                "process_message:proposal"
            } else {
                "process_message:refused"
            }
        }
        Op::MergePending { .. } => "merge_pending_commit",
        Op::ClearPending { .. } => "clear_pending_commit",
        Op::ProcessWelcome { .. } => "process_welcome",
        Op::AcceptWelcome { .. } => "accept_welcome",
        Op::SelfUpdate { .. } => "self_update",
        Op::AddMembers { .. } => "add_members",
        Op::RemoveMembers { .. } => "remove_members",
        Op::UpdateData { .. } => "update_group_data",
        Op::Leave { .. } => "leave_group",
        Op::PublishKeyPackage => "create_key_package",
        Op::Restart => "open",
        _ => "other",
    }
}

struct CrashRun {
    log: Vec<String>,
    violations: Vec<Violation>,
    finals: Vec<NodeView>,
    label: String,
    hot_journal: bool,
    recovered: String,
    torn: bool,
}

/// Execute `steps` with a crash at (target step id, tick k). After the crash the interrupted call
/// is issued again; then the remaining steps and the quiescence phase run.
fn run_crash(cfg: &RunCfg, steps: &[Step], target: u32, k: u64, reissue: bool, baseline: Option<u64>) -> Result<CrashRun, String> {
    let cfg2 = cfg.clone();
    let steps2: Vec<Step> = steps.to_vec();
    seam::run_isolated(cfg.seed, T0, move || {
        let dir = crate::run::fresh_dir();
        let mut w = World::new(cfg2.seed, dir.clone());
        w.isolate_steps = true;
        for nc in &cfg2.nodes {
            let _ = w.add_node(nc.clone());
        }
        w.arm_crash = if k == 0 { None } else { Some((target, k)) };
        w.arm_baseline = baseline.map(|j| (target, j));
        let mut gn = Gen::new(cfg2.clone());
        for (i, s) in steps2.iter().enumerate() {
            if let Some(nx) = steps2.get(i + 1) {
                if matches!(nx.op, Op::ClearPending { .. }) && nx.node == s.node {
                    gn.withheld.insert(EvRef(s.id, 0));
                }
            }
        }
        let mut oracle = CrashOracle { target, recovered: String::new(), torn: false };
        let mut label = String::new();
        for s in &steps2 {
            if s.id >= 1_000_000 {
                continue;
            }
            if let Op::Deliver { ev } = &s.op {
                let ok = match w.ev(*ev) {
                    Some(pe) => s.node < w.nodes.len() && gn.deliverable(&w, s.node, pe),
                    None => false,
                };
                if !ok {
                    continue;
                }
            }
            let rec = w.exec(s);
            oracle.after_step(&mut w, &rec);
            if s.id == target {
                if let Some((_, l)) = &rec.crashed_at {
                    label = l.clone();
                    if reissue && w.nodes[s.node].mdk.is_some() {
                        // the application repeats the interrupted call after the restart
                        // same step id: the repeated call draws the same entropy as the
                        // uninterrupted one, so both runs stay byte-comparable
                        w.arm_crash = None;
                        let again = Step { id: s.id, node: s.node, dt: 0, op: s.op.clone() };
                        let rec2 = w.exec(&again);
                        oracle.after_step(&mut w, &rec2);
                    }
                }
            }
            if w.nodes.iter().any(|n| n.mdk.is_none()) {
                break;
            }
        }
        let hot = w.probes.get("crash_image_with_hot_journal").copied().unwrap_or(0) > 0;
        if w.nodes.iter().all(|n| n.mdk.is_some()) {
            let withheld = gn.withheld.clone();
            let _ = quiesce(&mut w, &cfg2, &withheld, |w, rec| oracle.after_step(w, rec));
        }
        let finals = w.views.clone();
        let out = CrashRun { log: std::mem::take(&mut w.log), violations: std::mem::take(&mut w.violations), finals, label, hot_journal: hot, recovered: oracle.recovered.clone(), torn: oracle.torn };
        drop(w);
        let _ = std::fs::remove_dir_all(&dir);
        out
    })
}

/// comparison view: what must equal the uninterrupted run
fn cmp_view(v: &NodeView) -> serde_json::Value {
    let groups: Vec<serde_json::Value> = v
        .groups
        .values()
        .map(|g| {
            let m = g.mls.as_ref();
            serde_json::json!({
                "gid": g.gid,
                "record": g.record.as_ref().map(|r| (r.epoch, r.state.clone(), r.name.clone(), r.nostr_group_id.clone(), r.admins.clone())),
                "relays": g.relays,
                "mls": m.map(|m| (m.epoch, m.authenticator.clone(), m.members.clone(), m.pending_commit, m.pending_proposals.len())),
                "messages": g.messages.iter().map(|x| (x.id.clone(), x.state.clone(), x.content.clone())).collect::<Vec<_>>(),
            })
        })
        .collect();
    serde_json::json!({"groups": groups, "pending_welcomes": v.pending_welcomes})
}

pub fn post(v: &Variant, out: &RunOutput) -> (Vec<Violation>, Vec<(String, u64)>) {
    let mut viols = vec![];
    let mut probes: BTreeMap<String, u64> = BTreeMap::new();
    let thorough = std::env::var("VERIF_TIER").map(|t| t == "thorough").unwrap_or(false) || std::env::args().any(|a| a == "thorough");
    let _ = v;
    // baseline: un-armed execution with tick counting (k = 0)
    let steps: Vec<Step> = out.steps.iter().filter(|s| s.id < 1_000_000).cloned().collect();
    let base = {
        let cfg = out.cfg.clone();
        let st = steps.clone();
        seam::run_isolated(cfg.seed, T0, move || {
            let dir = crate::run::fresh_dir();
            let mut w = World::new(cfg.seed, dir.clone());
            w.isolate_steps = true;
            for nc in &cfg.nodes {
                let _ = w.add_node(nc.clone());
            }
            w.count_ticks = true;
            let mut gn = Gen::new(cfg.clone());
            for (i, s) in st.iter().enumerate() {
                if let Some(nx) = st.get(i + 1) {
                    if matches!(nx.op, Op::ClearPending { .. }) && nx.node == s.node {
                        gn.withheld.insert(EvRef(s.id, 0));
                    }
                }
            }
            let mut ticks: Vec<(u32, usize, u64, String, Op, Vec<u64>, Vec<String>)> = vec![];
            for s in &st {
                if let Op::Deliver { ev } = &s.op {
                    let ok = match w.ev(*ev) {
                        Some(pe) => s.node < w.nodes.len() && gn.deliverable(&w, s.node, pe),
                        None => false,
                    };
                    if !ok {
                        continue;
                    }
                }
                let rec = w.exec(s);
                let line = w.log.last().cloned().unwrap_or_default();
                let txn_ticks: Vec<u64> = w.last_tick_labels.iter().enumerate().filter(|(_, l)| l.contains("Txn") || l.contains("Open")).map(|(i, _)| i as u64 + 1).collect();
                ticks.push((s.id, s.node, rec.ticks, line, s.op.clone(), txn_ticks, w.last_tick_labels.clone()));
            }
            w.count_ticks = false;
            let withheld = gn.withheld.clone();
            let _ = quiesce(&mut w, &cfg, &withheld, |_, _| {});
            let finals = w.views.clone();
            drop(w);
            let _ = std::fs::remove_dir_all(&dir);
            (ticks, finals)
        })
    };
    let Ok((ticks, base_finals)) = base else {
        return (vec![Violation { property: "C12".into(), clause: "harness".into(), step: None, node: None, detail: "baseline run failed".into(), known: None }], vec![]);
    };
    let base_cmp: Vec<serde_json::Value> = base_finals.iter().map(cmp_view).collect();
    // choose targets: one per operation kind, seeded
    let mut r = Rng::new(out.cfg.seed).fork(1212);
    let mut by_kind: BTreeMap<&'static str, Vec<usize>> = BTreeMap::new();
    for (i, (_, node, t, line, op, _, _)) in ticks.iter().enumerate() {
        if *t == 0 || !out.cfg.nodes[*node].backend.is_sqlite() {
            continue;
        }
        by_kind.entry(op_kind(line, op)).or_default().push(i);
    }
    let mut targets: Vec<usize> = vec![];
    for (_, idxs) in by_kind.iter() {
        let n = if thorough { idxs.len().min(3) } else { 1 };
        let mut ix = idxs.clone();
        r.shuffle(&mut ix);
        targets.extend(ix.into_iter().take(n));
    }
    let max_points = if thorough { 1200 } else { 60 };
    let mut points = 0usize;
    let mut seen_classes: BTreeSet<String> = BTreeSet::new();
    'outer: for ti in targets {
        let (sid, node, t, line, op, txn_ticks, labels) = &ticks[ti];
        let kind = op_kind(line, op);
        // which ticks: thorough all; quick a seeded sample of <= 6 plus first and last
        let mut ks: Vec<u64> = (1..=*t).collect();
        if !thorough && ks.len() > 8 {
            // every tick inside the explicit transactions / savepoints / constructors, plus a sample
            let mut pick: BTreeSet<u64> = [1, *t].into_iter().collect();
            pick.extend(txn_ticks.iter().copied());
            let want = pick.len() + 6;
            while pick.len() < want.min(*t as usize) {
                pick.insert(r.range(1, *t));
            }
            ks = pick.into_iter().collect();
        }
        let reissue = matches!(op, Op::Deliver { .. } | Op::MergePending { .. } | Op::ClearPending { .. } | Op::ProcessWelcome { .. } | Op::AcceptWelcome { .. } | Op::DeclineWelcome { .. } | Op::Restart);
        for k in ks {
            if points >= max_points {
                break 'outer;
            }
            points += 1;
            *probes.entry(format!("crash_points:{kind}")).or_insert(0) += 1;
            // a crash inside an explicit transaction: remember the database at the statement
            // boundary in front of it (the nearest earlier tick outside any transaction)
            let baseline = if labels.get(k as usize - 1).map(|l| l.contains("Txn")).unwrap_or(false) {
                (1..k).rev().find(|j| labels.get(*j as usize - 1).map(|l| !l.contains("Txn")).unwrap_or(false))
            } else {
                None
            };
            let cr = match run_crash(&out.cfg, &steps, *sid, k, reissue, baseline) {
                Ok(c) => c,
                Err(e) => {
                    viols.push(Violation { property: "C12".into(), clause: "panic-during-recovery".into(), step: Some(*sid), node: Some(*node), detail: format!("{kind} tick {k}/{t}: {e}"), known: None });
                    continue;
                }
            };
            if cr.hot_journal {
                *probes.entry("crash_image_with_hot_journal".into()).or_insert(0) += 1;
            }
            if cr.label.contains("Txn") {
                *probes.entry("crash_inside_explicit_transaction".into()).or_insert(0) += 1;
            }
            for mut x in cr.violations {
                if x.property != "C12" {
                    x.clause = format!("{}:{}", x.property, x.clause);
                    x.property = "C12".into();
                }
                x.detail = format!("{kind} tick {k}/{t} ({}): {} [recovered: {}]", cr.label, x.detail.chars().take(300).collect::<String>(), cr.recovered);
                x.known = known(kind, &x.clause, &cr.label, k, *t);
                let key = format!("{}|{}|{:?}", x.clause, kind, x.known);
                if seen_classes.insert(key) {
                    viols.push(x);
                }
            }
            if reissue && cr.finals.len() == base_cmp.len() {
                for (n, fv) in cr.finals.iter().enumerate() {
                    let c = cmp_view(fv);
                    if c != base_cmp[n] {
                        let mut kn = known(kind, "end-state-differs", &cr.label, k, *t);
                        if kn.is_none() {
                            // does a clean restart at the same position already change the end
                            // state (C11's known defect: race-resolution state is lost)?
                            let idx = steps.iter().position(|s| s.id == *sid).unwrap_or(0);
                            let mut twin = steps.clone();
                            twin.insert(idx, Step { id: 900_000, node: *node, dt: 0, op: Op::Restart });
                            if let Ok(tr) = run_crash(&out.cfg, &twin, *sid, 0, false, None) {
                                if tr.finals.len() == base_cmp.len() && tr.finals.iter().zip(base_cmp.iter()).any(|(f, b)| cmp_view(f) != *b) {
                                    kn = Some("KF-C12-2".into());
                                }
                            }
                        }
                        let key = format!("end-state-differs|{kind}|{:?}", kn);
                        if seen_classes.insert(key) {
                            let tail: Vec<String> = cr.log.iter().filter(|l| l.contains(&format!(" n{node} "))).rev().take(6).cloned().collect();
                            viols.push(Violation {
                                property: "C12".into(),
                                clause: "end-state-differs".into(),
                                step: Some(*sid),
                                node: Some(n),
                                detail: format!("{kind} interrupted at tick {k}/{t} ({}) on n{node}: after recovery, re-issuing the call and all later events, n{n} ends in a state different from the uninterrupted run; recovered state: {}; torn(record epoch != MLS epoch): {}; last calls of n{node}: {:?}", cr.label, cr.recovered, cr.torn, tail),
                                known: kn,
                            });
                        }
                        break;
                    }
                }
            }
        }
    }
    probes.insert("crash_points_total".into(), points as u64);
    (viols, probes.into_iter().collect())
}

/// Known findings, keyed by the operation kind and the phase of the call at which the process died.
pub fn known(kind: &str, clause: &str, label: &str, k: u64, _t: u64) -> Option<String> {
    // KF-C12-1: calls that issue several auto-committed statements are not atomic. Dying after
    // the first statement (k >= 2) and outside the explicit transactions leaves a state from
    // which repeating the call does not lead back to the uninterrupted run (torn MLS state,
    // record epoch behind the MLS epoch, commit answered Unprocessable for ever, ...).
    let multi = matches!(
        kind,
        "process_message:commit" | "process_message:commit_with_rollback" | "process_message:application" | "process_message:proposal" | "process_message:refused"
            | "merge_pending_commit" | "clear_pending_commit" | "accept_welcome" | "process_welcome"
    );
    let _ = label;
    if multi && k >= 2 && matches!(clause, "end-state-differs" | "C01:same-authenticator-different-state" | "group-does-not-load") {
        return Some("KF-C12-1".into());
    }
    None
}

/// Process death inside the constructors: first creation of a database (caller-key and
/// unencrypted constructors) and re-opening of an existing one, at every tick of the open.
/// After the death the directory image is opened again with the same constructor: it must open,
/// be usable, and - for an existing database - still hold its data.
pub fn run_first_open(cfg: &RunCfg, _replay: Option<&[Step]>) -> crate::run::RunOutput {
    use mdk_sqlite_storage::{EncryptionConfig, MdkSqliteStorage};
    use mdk_storage_traits::groups::GroupStorage;
    use mdk_storage_traits::messages::MessageStorage;
    let mut out = crate::checks::c10::empty_output(cfg);
    let mut r = Rng::new(cfg.seed).fork(0x0C12);
    let base = crate::run::fresh_dir();
    let key: [u8; 32] = r.bytes(32).try_into().unwrap();
    let with_key = r.chance(1, 2);
    let existing = r.chance(1, 2);
    let open = |p: &std::path::Path| -> Result<MdkSqliteStorage, String> {
        if with_key { MdkSqliteStorage::new_with_key(p, EncryptionConfig::new(key)).map_err(|e| e.to_string()) } else { MdkSqliteStorage::new_unencrypted(p).map_err(|e| e.to_string()) }
    };
    let write = |s: &MdkSqliteStorage, n: u8| -> bool {
        s.save_group(crate::store::mk_group(n, n, 2, 1, 0, 1, None, 0, T0)).is_ok() && s.save_message(crate::store::mk_message(n, 1, 0, 0, 1, Some(1), 3, 1, 1)).is_ok()
    };
    let read = |s: &MdkSqliteStorage, n: u8| -> bool {
        s.find_group_by_mls_group_id(&crate::store::gid(n)).ok().flatten().is_some() && s.find_message_by_event_id(&crate::store::gid(n), &crate::store::event_id(1)).ok().flatten().is_some()
    };
    seam::set_time(T0);
    // prepare: how many ticks does the open take, and (existing) a database with data in it
    let proto = base.join("proto");
    let _ = std::fs::create_dir_all(&proto);
    if existing {
        match open(&proto.join("db.sqlite")) {
            Ok(s) => {
                let _ = write(&s, 0);
            }
            Err(e) => {
                out.harness_error = Some(format!("prepare: {e}"));
                return out;
            }
        }
    }
    let count = std::rc::Rc::new(std::cell::Cell::new(0u64));
    {
        let probe = base.join("probe");
        crate::world::copy_dir(&proto, &probe);
        let c = count.clone();
        mdk_sqlite_storage::verif::set_thread_hook(Some(Box::new(move |p| {
            if !matches!(p, mdk_sqlite_storage::verif::Point::Lock) {
                c.set(c.get() + 1);
            }
        })));
        let _ = open(&probe.join("db.sqlite"));
        mdk_sqlite_storage::verif::set_thread_hook(None);
    }
    let ticks = count.get();
    let mut sig = vec![format!("key={with_key} existing={existing} ticks={ticks}")];
    for k in 1..=ticks {
        let dir = base.join(format!("k{k}"));
        crate::world::copy_dir(&proto, &dir);
        let image = base.join(format!("k{k}.image"));
        let n = std::rc::Rc::new(std::cell::Cell::new(0u64));
        let label = std::rc::Rc::new(std::cell::RefCell::new(String::new()));
        let (n2, l2, d2, i2) = (n.clone(), label.clone(), dir.clone(), image.clone());
        mdk_sqlite_storage::verif::set_thread_hook(Some(Box::new(move |p| {
            if matches!(p, mdk_sqlite_storage::verif::Point::Lock) {
                return;
            }
            n2.set(n2.get() + 1);
            if n2.get() == k {
                *l2.borrow_mut() = format!("{p:?}");
                crate::world::copy_dir(&d2, &i2);
                // a tick inside the migration runner fires from SQLite's commit hook, through
                // which a panic does not travel: the image taken here is what a death at this
                // instant leaves on disk, whatever the still-running call goes on to do
                if !matches!(p, mdk_sqlite_storage::verif::Point::Open(l) if l.starts_with("migrate:")) {
                    std::panic::panic_any(SimulatedCrash);
                }
            }
        })));
        let res = std::panic::catch_unwind(std::panic::AssertUnwindSafe(|| open(&dir.join("db.sqlite")).map(|_| ())));
        mdk_sqlite_storage::verif::set_thread_hook(None);
        let label = label.borrow().clone();
        if res.is_ok() && !label.contains("migrate:") {
            continue; // the open finished before tick k
        }
        if label.contains("migrate:") {
            *out.probes.entry("crash_between_commits_of_the_migration_runner".into()).or_insert(0) += 1;
        }
        *out.faults.entry("crash".into()).or_insert(0) += 1;
        *out.probes.entry("crash_inside_constructor".into()).or_insert(0) += 1;
        sig.push(format!("{k}:{label}"));
        // the process is gone; a new one opens what is on disk
        match open(&image.join("db.sqlite")) {
            Err(e) => out.violations.push(Violation { property: "C12".into(), clause: "database-does-not-open".into(), step: None, node: None, detail: format!("{} constructor, {} database, death at tick {k}/{ticks} ({label}): reopen failed: {e}", if with_key { "caller-key" } else { "unencrypted" }, if existing { "existing" } else { "new" }), known: None }),
            Ok(s) => {
                if existing && !read(&s, 0) {
                    out.violations.push(Violation { property: "C12".into(), clause: "data-lost-by-death-inside-open".into(), step: None, node: None, detail: format!("death at tick {k}/{ticks} ({label}) of re-opening an existing database: its group / message are gone"), known: None });
                }
                if !(write(&s, 1) && read(&s, 1)) {
                    out.violations.push(Violation { property: "C12".into(), clause: "database-unusable-after-death-inside-open".into(), step: None, node: None, detail: format!("death at tick {k}/{ticks} ({label}): the reopened database cannot store and return a group and a message"), known: None });
                }
            }
        }
        out.log.push(format!("death at tick {k}/{ticks} ({label}) -> reopened"));
    }
    out.n_steps = ticks as usize;
    out.nontrivial = ticks > 0;
    out.signature = crate::node::h8(sig.join(",").as_bytes());
    out.transitions = sig;
    let mut seen = BTreeSet::new();
    out.violations.retain(|v| seen.insert(v.clause.clone()));
    let _ = std::fs::remove_dir_all(&base);
    out
}

pub fn spec() -> CheckSpec {
    let base = Profile { backend: BackendMix::Sqlite, steps_lo: 14, steps_hi: 30, max_nodes: 3, allow_immediate: true, ..Default::default() };
    CheckSpec {
        id: "C12",
        level: "fault_enumeration",
        rule: "seeded short histories on SQLite nodes; for one (thorough: up to three) sampled call of every operation kind occurring in the history (create_group, create_message, process_message on application / proposal / commit / commit-with-rollback / refused, merge_pending_commit, process_welcome, accept_welcome, self_update, add/remove/update, constructor) the storage tick indices k of that call are enumerated (quick: first, last and a seeded sample of 8; thorough: every k): the history is re-executed to the call, the process dies at tick k (directory image incl. hot journal), the node reopens from the image, the call is issued again where the application would do so, the rest of the history and the quiescence phase run; oracles: the database opens, every group loads, end state equals the uninterrupted run; a case = (history, call, k); non-trivial = crash landed after the first write of a multi-statement call (k >= 2); distinct = (operation kind, tick label, k) tuples; variant first-open: death at every tick of the caller-key / unencrypted constructors, creating a new database or re-opening one that holds data: the image reopens with the same constructor, is usable and keeps its data",
        variants: vec![
            Variant { name: "sqlite", profile: base.clone(), runs_quick: 32, runs_thorough: 60, oracle: mk, guarded: false, configure_gen: None, post: Some(post), custom: None },
            Variant { name: "sqlcipher", profile: Profile { backend: BackendMix::SqliteCipher, ..base.clone() }, runs_quick: 16, runs_thorough: 30, oracle: mk, guarded: false, configure_gen: None, post: Some(post), custom: None },
            Variant { name: "first-open", profile: base.clone(), runs_quick: 8, runs_thorough: 64, oracle: mk, guarded: false, configure_gen: None, post: None, custom: Some(run_first_open) },
        ],
        assumptions: vec!["the keyring constructor is not crash-enumerated: a death between pre-creating the file and storing the key leaves an empty file that new() refuses by design (C13)", "process death, not power loss: everything SQLite had handed to the OS survives (torn/lost pages are SQLite's durability contract)", "one crash per execution", "the application repeats the interrupted call after the restart"],
        real: super::REAL.to_vec(),
        stubs: super::STUBS.to_vec(),
    }
}
