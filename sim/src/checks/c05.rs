//! C05 — only admins change roster or group data; identities never change.

use std::collections::{BTreeMap, BTreeSet};

use crate::driver::*;
use crate::genr::*;
use crate::node::MlsView;
use crate::run::Oracle;
use crate::world::*;

#[derive(Default)]
pub struct C05 {
    guarded: bool,
    /// (node, group) -> expectation of the honest admin operation whose commit is pending
    expect: BTreeMap<(usize, usize), (String, BTreeSet<String>, EvRef)>,
    interesting: bool,
}

fn data(m: &MlsView) -> (String, String, String, Vec<String>, Vec<String>, Option<String>, Option<String>, Option<String>) {
    (m.ext_nostr_group_id.clone(), m.ext_name.clone(), m.ext_description.clone(), m.ext_admins.clone(), m.ext_relays.clone(), m.ext_image_hash.clone(), m.ext_image_key.clone(), m.ext_image_nonce.clone())
}

impl Oracle for C05 {
    fn after_step(&mut self, w: &mut World, rec: &StepRecord) {
        let node = rec.step.node;
        if node >= w.views.len() {
            return;
        }
        let mut viols: Vec<(&str, String, Option<String>)> = vec![];
        // ---- receiver side -------------------------------------------------------------------
        if let Op::Deliver { ev } = &rec.step.op {
            if let Some(pe) = w.ev(*ev).cloned() {
                let gk = w.gid_hex(pe.g);
                let pre = w.prev_view.groups.get(&gk).and_then(|g| g.mls.clone());
                let post = w.views[node].groups.get(&gk).and_then(|g| g.mls.clone());
                // a Byzantine node's own client is not a "receiving client" of its crafted events
                let own_crafted = pe.desc.starts_with("crafted") && pe.creator == node;
                if let (Some(pre), Some(post), false) = (pre, post, own_crafted) {
                    let author_pk = w.nodes[pe.creator].pubkey().to_hex();
                    let author_is_admin = pre.ext_admins.contains(&author_pk);
                    let roster_changed = pre.members != post.members;
                    let data_changed = data(&pre) != data(&post);
                    let is_commit = pe.kind == EvKind::Commit || pe.desc.starts_with("crafted commit");
                    let is_proposal = pe.kind == EvKind::Proposal || pe.desc.starts_with("crafted proposal");
                    if pe.desc.starts_with("crafted") && !author_is_admin && !is_refusal(&rec.class) {
                        self.interesting = true;
                        w.probe("unauthorised_crafted_event_reached_authorisation");
                    }
                    if (roster_changed || data_changed) && !rec.rollback {
                        if is_proposal {
                            viols.push(("proposal-took-effect-by-itself", format!("n{node}: [{}] changed roster/data: members {:?} -> {:?}", pe.desc, pre.members.len(), post.members.len()), None));
                        } else if is_commit && !author_is_admin {
                            // (was KF-C05-2, repaired by 6270f5f: a non-admin's self_update no longer
                            // sweeps the proposal queue)
                            let known: Option<String> = None;
                            viols.push(("roster-or-data-changed-by-non-admin-commit", format!("n{node}: [{}] by n{} (not an admin in the receiver's state) changed roster {} / data {}", pe.desc, pe.creator, roster_changed, data_changed), known));
                        } else if !is_commit {
                            viols.push(("roster-or-data-changed-by-a-non-commit", format!("n{node}: [{}]", pe.desc), None));
                        }
                    }
                    // a commit that puts another member's identity on the author's leaf is refused
                    let self_victim = !pe.desc.contains("identity_change_malformed") && pe.desc.ends_with(&format!("victim=n{}", pe.creator));
                    if pe.desc.contains("identity_change") && node != pe.creator && !self_victim {
                        w.probe("identity_change_commit_delivered");
                        if !is_refusal(&rec.class) && rec.pre_state.get(&pe.g) != rec.post_state.get(&pe.g) {
                            viols.push(("identity-of-existing-member-changed", format!("n{node} applied [{}]: leaves {:?} -> {:?}", pe.desc, pre.leaves, post.leaves), None));
                        }
                    }
                }
            }
        }
        // ---- honest admin operations change exactly what they name ----------------------------
        match &rec.step.op {
            Op::AddMembers { g, who } if rec.class == "ok" => {
                let set: BTreeSet<String> = who.iter().map(|n| w.nodes[*n].pubkey().to_hex()).collect();
                self.expect.insert((node, *g), ("add".into(), set, rec.created.first().copied().unwrap_or(EvRef(0, 0))));
            }
            Op::RemoveMembers { g, who } if rec.class == "ok" => {
                let set: BTreeSet<String> = who.iter().map(|n| w.nodes[*n].pubkey().to_hex()).collect();
                self.expect.insert((node, *g), ("remove".into(), set, rec.created.first().copied().unwrap_or(EvRef(0, 0))));
            }
            Op::UpdateData { g, .. } | Op::SelfUpdate { g } if rec.class == "ok" => {
                self.expect.insert((node, *g), ("data".into(), BTreeSet::new(), rec.created.first().copied().unwrap_or(EvRef(0, 0))));
            }
            Op::ClearPending { g } => {
                self.expect.remove(&(node, *g));
            }
            // the one automatic case: an admin commits a member's own request to leave. What the
            // commit may do is remove members who asked to leave, nothing else.
            Op::Deliver { .. } if rec.class == "autocommit" => {
                if let Some(c) = rec.created.first().copied() {
                    if let Some(pe) = w.ev(c) {
                        let g = pe.g;
                        // a member's own request to leave: the honest call, or a Remove proposal a
                        // member built for its own leaf
                        let leavers: BTreeSet<String> = w
                            .events
                            .iter()
                            .filter(|e| e.g == g && ((e.kind == EvKind::Proposal && e.desc == "leave") || (e.desc.starts_with("crafted proposal prop_remove") && e.desc.ends_with(&format!("victim=n{}", e.creator)))))
                            .map(|e| w.nodes[e.creator].pubkey().to_hex())
                            .collect();
                        self.expect.insert((node, g), ("autoleave".into(), leavers, c));
                    }
                }
            }
            _ => {}
        }
        let applied_own: Option<usize> = match &rec.step.op {
            Op::MergePending { g } if rec.class == "ok" => Some(*g),
            Op::Deliver { ev } if rec.class == "commit" && !rec.rollback => w.ev(*ev).filter(|p| p.creator == node && self.expect.get(&(node, p.g)).map(|e| e.2 == p.origin).unwrap_or(false) && rec.pre_state.get(&p.g) != rec.post_state.get(&p.g)).map(|p| p.g),
            _ => None,
        };
        if let Some(g) = applied_own {
            if let Some((kind, who, _)) = self.expect.remove(&(node, g)) {
                let gk = w.gid_hex(g);
                let pre = w.prev_view.groups.get(&gk).and_then(|x| x.mls.clone());
                let post = w.views[node].groups.get(&gk).and_then(|x| x.mls.clone());
                if let (Some(pre), Some(post)) = (pre, post) {
                    let a: BTreeSet<String> = pre.members.iter().cloned().collect();
                    let b: BTreeSet<String> = post.members.iter().cloned().collect();
                    let added: BTreeSet<String> = b.difference(&a).cloned().collect();
                    let removed: BTreeSet<String> = a.difference(&b).cloned().collect();
                    let (want_add, want_rm) = match kind.as_str() {
                        "add" => (who.clone(), BTreeSet::new()),
                        "remove" => (BTreeSet::new(), who.clone()),
                        _ => (BTreeSet::new(), BTreeSet::new()),
                    };
                    if kind == "autoleave" {
                        w.probe("automatic_leave_commit_applied_by_its_author");
                        if !added.is_empty() || !removed.is_subset(&who) {
                            self.interesting = true;
                            w.probe("foreign_proposal_pending_when_leave_was_auto_committed");
                            // (repaired by 67d2fbd: the automatic commit takes foreign proposals out of the queue)
                            let known: Option<String> = None;
                            viols.push(("automatic-leave-commit-did-more-than-the-leave", format!("n{node} g{g}: the commit it created automatically for a leave request added {:?} and removed {:?}; members who asked to leave: {:?}", added.iter().map(|x| &x[..8]).collect::<Vec<_>>(), removed.iter().map(|x| &x[..8]).collect::<Vec<_>>(), who.iter().map(|x| &x[..8]).collect::<Vec<_>>()), known));
                        }
                    } else if added != want_add || removed != want_rm {
                        let had_foreign = !pre.pending_proposals.is_empty();
                        if had_foreign {
                            w.probe("foreign_proposal_pending_when_admin_operated");
                            self.interesting = true;
                        }
                        let known = if !self.guarded && had_foreign { Some("KF-C05-1".to_string()) } else { None };
                        viols.push(("operation-changed-more-than-it-names", format!("n{node} g{g}: its own {kind} operation added {:?} removed {:?} but names add {:?} remove {:?}; proposals of others were queued: {had_foreign}", added.iter().map(|x| &x[..8]).collect::<Vec<_>>(), removed.iter().map(|x| &x[..8]).collect::<Vec<_>>(), want_add.iter().map(|x| &x[..8]).collect::<Vec<_>>(), want_rm.iter().map(|x| &x[..8]).collect::<Vec<_>>()), known));
                    }
                }
            }
        }
        let mut seen = BTreeSet::new();
        for (clause, detail, known) in viols {
            if seen.insert(clause) {
                w.violations.push(Violation { property: "C05".into(), clause: clause.into(), step: Some(rec.step.id), node: Some(node), detail, known });
            }
        }
    }
    fn nontrivial(&self, _w: &World) -> bool {
        self.interesting
    }
}

fn mk(cfg: &RunCfg) -> Box<dyn Oracle> {
    Box::new(C05 { guarded: cfg.guards.contains("guarded"), ..Default::default() })
}

fn conf(g: &mut Gen) {
    super::byz::install(g);
    g.cfg.weights.commit += 2;
    g.cfg.weights.invite += 1;
    g.cfg.weights.remove += 1;
}

pub fn spec() -> CheckSpec {
    let mut guards = BTreeSet::new();
    for g in ["h_commit", "h_proposal"] {
        guards.insert(g.to_string());
    }
    let base = Profile { guards, hostile: 5, min_nodes: 3, ..Default::default() };
    CheckSpec {
        id: "C05",
        level: "exploration",
        rule: "worlds in which members of every role (admin, non-admin, later removed) build commits and proposals directly with openmls on their real provider (remove, add with an outsider's key package, group-data change, pure self-update, self-update carrying another member's identity, commit of the pending queue, Add/Remove/group-data proposals) at random points of honest histories, plus the honest-admin sweep (foreign proposals queued at an admin that then performs an unrelated operation); on every receiving client after every call: roster, admin set and group data change only through a commit whose author is an admin in the receiver's state, never through a proposal, identities at surviving leaves are unchanged; for every honest admin operation the roster difference when its author applies it equals the operation's arguments; non-trivial = an unauthorised crafted event got past openmls to the authorisation check, or a foreign proposal was pending when an admin operated; distinct = delivery signature",
        variants: vec![
            Variant { name: "mem", profile: Profile { backend: BackendMix::Memory, ..base.clone() }, runs_quick: 400, runs_thorough: 20000, oracle: mk, guarded: false, configure_gen: Some(conf), post: None, custom: None },
            Variant { name: "mixed", profile: Profile { backend: BackendMix::Mixed, ..base.clone() }, runs_quick: 100, runs_thorough: 5000, oracle: mk, guarded: false, configure_gen: Some(conf), post: None, custom: None },
        ],
        assumptions: vec!["the Byzantine node is a real member (MLS rejects outsiders before MDK's own checks)", "PSK / ReInit / external proposals are not generated (openmls refuses to build them in this configuration)"],
        real: super::REAL.to_vec(),
        stubs: super::STUBS.to_vec(),
    }
}
