//! C16 — invitations are idempotent, consent-gated and cannot disturb existing groups.

use std::collections::BTreeSet;

use crate::driver::*;
use crate::genr::*;
use crate::run::Oracle;
use crate::world::*;

#[derive(Default)]
pub struct C16 {
    guarded: bool,
    processed_wrappers: BTreeSet<(usize, String)>,
    processed_rumors: BTreeSet<(usize, String)>,
    stored_rumors: BTreeSet<(usize, String)>,
    hit_active: bool,
}

impl Oracle for C16 {
    fn after_step(&mut self, w: &mut World, rec: &StepRecord) {
        let node = rec.step.node;
        if node >= w.views.len() {
            return;
        }
        // an invitation that was merely received (or declined) must not get in the way of a group
        // the user is active in: here, by reserving the Nostr group id that group rotates to
        if let Op::Deliver { ev } = &rec.step.op {
            if let Some(pe) = w.ev(*ev).cloned() {
                if pe.kind == EvKind::Commit && is_refusal(&rec.class) {
                    let new_id = pe.result_state.as_ref().and_then(|st| w.state_info.get(st)).map(|i| i.ext.split('|').next().unwrap_or("").to_string()).unwrap_or_default();
                    let gk = w.gid_hex(pe.g);
                    let was_active = w.prev_view.groups.get(&gk).and_then(|g| g.record.as_ref()).map(|r| r.state == "active").unwrap_or(false);
                    let in_parent = rec.pre_state.get(&pe.g).map(|s| s.1 == pe.parent_state).unwrap_or(false);
                    if !new_id.is_empty() && was_active && in_parent {
                        let squatter = w.views[node].groups.iter().find(|(k, g)| **k != gk && g.record.as_ref().map(|r| r.state != "active" && r.nostr_group_id == new_id).unwrap_or(false)).map(|(k, g)| (k.clone(), g.record.as_ref().map(|r| r.state.clone()).unwrap_or_default()));
                        if let Some((k, st)) = squatter {
                            w.probe("commit_refused_while_an_invitation_holds_its_nostr_id");
                            let known = if self.guarded { None } else { Some("KF-C16-1".to_string()) };
                            w.violations.push(Violation { property: "C16".into(), clause: "invitation-blocks-an-active-group".into(), step: Some(rec.step.id), node: Some(node), detail: format!("n{node} g{}: the commit that rotates the group to Nostr id {} was refused ({}) while the {} record of invitation group {} holds that id", pe.g, &new_id[..8.min(new_id.len())], rec.outcome.chars().take(40).collect::<String>(), st, &k[..8]), known });
                        }
                    }
                }
            }
        }
        let wref = match &rec.step.op {
            Op::ProcessWelcome { w } | Op::AcceptWelcome { w } | Op::DeclineWelcome { w } => *w,
            _ => return,
        };
        let Some(pw) = w.w_index.get(&wref).map(|i| w.welcomes[*i].clone()) else { return };
        let mut viols: Vec<(&str, String)> = vec![];
        let mut stale_queue: Option<String> = None;
        let active_before: Vec<String> = w.prev_view.groups.iter().filter(|(_, g)| g.record.as_ref().map(|r| r.state == "active").unwrap_or(false)).map(|(k, _)| k.clone()).collect();
        match &rec.step.op {
            Op::ProcessWelcome { .. } | Op::DeclineWelcome { .. } => {
                let is_process = matches!(rec.step.op, Op::ProcessWelcome { .. });
                // groups in which the recipient was active before: untouched
                for k in &active_before {
                    if w.views[node].groups.get(k) != w.prev_view.groups.get(k) {
                        self.hit_active = true;
                        viols.push(("invitation-modified-an-active-group", format!("n{node}: {} of an invitation from n{} (hostile={}) changed active group {}: record {:?} -> {:?}", if is_process { "processing" } else { "declining" }, pw.inviter, pw.hostile, &k[..8], w.prev_view.groups.get(k).and_then(|g| g.record.clone()).map(|r| (r.state, r.epoch, r.name)), w.views[node].groups.get(k).and_then(|g| g.record.clone()).map(|r| (r.state, r.epoch, r.name)))));
                    }
                    if pw.hostile && w.gid(pw.g).map(|g| hex::encode(g.as_slice()) == *k).unwrap_or(false) {
                        self.hit_active = true;
                        w.probe("invitation_for_a_group_id_held_as_active");
                    }
                }
                // merely received / declined / failed: no new active group
                for (k, g) in &w.views[node].groups {
                    let now_active = g.record.as_ref().map(|r| r.state == "active").unwrap_or(false);
                    if now_active && !active_before.contains(k) {
                        viols.push(("active-group-without-consent", format!("n{node}: group {} became active by {}", &k[..8], if is_process { "process_welcome" } else { "decline_welcome" })));
                    }
                }
                if is_process {
                    // same wrapper id again: same stored welcome, nothing new
                    // "again" = an earlier processing of it at this client was answered with the
                    // stored welcome (a refusal that wrote nothing - the invitation's Nostr id
                    // was taken at the time - stores nothing to return later)
                    let key = (node, pw.wrapper_id.to_hex());
                    let again_same_wrapper = self.processed_wrappers.contains(&key);
                    if rec.class == "ok" {
                        self.processed_wrappers.insert(key);
                    }
                    if again_same_wrapper {
                        w.probe("same_invitation_processed_again");
                        if w.views[node] != w.prev_view {
                            viols.push(("reprocessing-created-something", format!("n{node}: processing the invitation with wrapper {} a second time changed the client", &pw.wrapper_id.to_hex()[..8])));
                        }
                    }
                    // an invitation the client has stored is answered from storage when it comes
                    // again, under whatever wrapper and whatever has happened to the key package
                    // it was built for
                    if let Some(rid) = pw.rumor.id {
                        let key = (node, rid.to_hex());
                        if self.stored_rumors.contains(&key) && is_refusal(&rec.class) && again_same_wrapper {
                            viols.push(("stored-invitation-not-returned-on-reprocessing", format!("n{node}: the stored invitation {} processed again under the same wrapper id was answered {}", &rid.to_hex()[..8], rec.outcome.chars().take(90).collect::<String>())));
                        }
                        if self.stored_rumors.contains(&key) && is_refusal(&rec.class) && !again_same_wrapper {
                            viols.push(("stored-invitation-not-returned-on-replay", format!("n{node}: the stored invitation {} delivered again under a new wrapper id was answered {}", &rid.to_hex()[..8], rec.outcome.chars().take(90).collect::<String>())));
                        }
                        if rec.class == "ok" {
                            self.stored_rumors.insert(key);
                        }
                    }
                    // the same invitation (same rumor) replayed under another wrapper id
                    if let Some(rid) = pw.rumor.id {
                        let again_same_rumor = self.processed_rumors.contains(&(node, rid.to_hex()));
                        if rec.class == "ok" {
                            self.processed_rumors.insert((node, rid.to_hex()));
                        }
                        if again_same_rumor && !again_same_wrapper {
                            w.probe("same_invitation_under_new_wrapper_processed");
                            if w.views[node] != w.prev_view {
                                let before = w.prev_view.pending_welcomes.clone();
                                let after = w.views[node].pending_welcomes.clone();
                                viols.push(("replayed-invitation-created-something", format!("n{node}: the invitation {} delivered again under a new wrapper id changed the client (answer {}); pending welcomes {:?} -> {:?}", &rid.to_hex()[..8], rec.outcome.chars().take(60).collect::<String>(), before, after)));
                            }
                        }
                    }
                }
            }
            Op::AcceptWelcome { .. } if rec.class == "ok" && !pw.hostile && {
                // an invitation is accepted once: accepting the same invitation again (the same
                // rumor, under whatever wrapper) leaves the client as it is
                let rid = pw.rumor.id;
                let n = w.history.len();
                let earlier = w.history[..n.saturating_sub(1)].iter().any(|r| {
                    r.step.node == node && r.class == "ok" && matches!(&r.step.op, Op::AcceptWelcome { w: w2 } if w.w_index.get(w2).map(|i| w.welcomes[*i].rumor.id == rid).unwrap_or(false))
                });
                if earlier {
                    w.probe("accepted_invitation_accepted_again");
                    if w.views[node] != w.prev_view {
                        let before = w.prev_view.groups.get(&w.gid_hex(pw.g)).and_then(|g| g.mls.as_ref()).map(|m| m.epoch);
                        let after = w.gview(node, pw.g).and_then(|g| g.mls.as_ref()).map(|m| m.epoch);
                        viols.push(("accepted-invitation-accepted-again-changed-the-client", format!("n{node} g{}: MLS epoch {:?} -> {:?}", pw.g, before, after)));
                    }
                }
                earlier
            } => {}
            Op::AcceptWelcome { .. } if rec.class == "ok" && !pw.hostile => {
                // joiner is in exactly the inviter's post-commit state, with the key-rotation obligation
                let want = match pw.commit {
                    None => Some(w.groups[pw.g].root_state.clone()),
                    Some(c) => w.ev(c).and_then(|p| p.result_state.clone()),
                };
                let gv = w.gview(node, pw.g);
                let got = gv.and_then(|g| g.mls.as_ref()).map(|m| m.authenticator.clone());
                if want.is_some() && got != want {
                    viols.push(("joined-state-differs-from-inviter", format!("n{node} g{}: joined authenticator {:?}, inviter's post-commit state {:?}", pw.g, got.clone().map(|x| x[..8].to_string()), want.clone().map(|x| x[..8].to_string()))));
                }
                // the state joined is the inviter's state right after its commit: nothing is queued
                // there; proposals the joiner still holds from an earlier membership are not part of it
                let queued: Vec<String> = gv.and_then(|g| g.mls.as_ref()).map(|m| m.pending_proposals.iter().map(|p| format!("{p:?}")).collect()).unwrap_or_default();
                if got == want && !queued.is_empty() {
                    stale_queue = Some(format!("n{node} g{}: {} proposal(s) queued right after joining: {:?}", pw.g, queued.len(), queued));
                }
                if let Some(r) = gv.and_then(|g| g.record.as_ref()) {
                    if r.self_update != "required" || r.state != "active" {
                        viols.push(("no-self-update-obligation-after-join", format!("n{node} g{}: state {} self_update {}", pw.g, r.state, r.self_update)));
                    }
                    // record mirrors the joined state
                    if let Some(m) = gv.and_then(|g| g.mls.as_ref()) {
                        if r.epoch != m.epoch || r.name != m.ext_name || r.nostr_group_id != m.ext_nostr_group_id {
                            viols.push(("joined-record-differs-from-mls", format!("n{node} g{}: record ({}, {}) vs MLS ({}, {})", pw.g, r.epoch, r.name, m.epoch, m.ext_name)));
                        }
                    }
                }
            }
            _ => {}
        }
        if let Some(d) = stale_queue {
            w.probe("joined_with_proposals_of_an_earlier_membership");
            viols.push(("joined-with-proposals-queued", d));
        }
        let mut seen = BTreeSet::new();
        for (clause, detail) in viols {
            if seen.insert(clause) {
                let _ = self.guarded;
                w.violations.push(Violation { property: "C16".into(), clause: clause.into(), step: Some(rec.step.id), node: Some(node), detail, known: None });
            }
        }
    }
    fn nontrivial(&self, _w: &World) -> bool {
        self.hit_active
    }
}

fn mk(cfg: &RunCfg) -> Box<dyn Oracle> {
    Box::new(C16 { guarded: cfg.guards.contains("guarded"), ..Default::default() })
}

/// Story: a member that has done its post-join key rotation is removed without noticing (the
/// removal does not reach it) and is invited again; it accepts while its record of the group is
/// still active. The joined state is new: the rotation obligation is back.
fn story_hook(gn: &mut Gen, w: &mut World) -> Option<Step> {
    // a stale list entry: an invitation that was accepted long ago is declined, then accepted again
    if gn.rng().chance(1, 10) {
        let accepted: Vec<(usize, EvRef)> = w.history.iter().filter(|r| r.class == "ok").filter_map(|r| match &r.step.op { Op::AcceptWelcome { w: wr } => Some((r.step.node, *wr)), _ => None }).collect();
        if let Some((x, wr)) = gn.rng().pick(&accepted).copied() {
            let first = gn.mk(w, x, 0, Op::DeclineWelcome { w: wr });
            let st = gn.mk(w, x, 0, Op::AcceptWelcome { w: wr });
            gn.queue.push_back(st);
            w.probe("accepted_invitation_declined_then_accepted_story");
            return Some(first);
        }
    }
    // key-package hygiene after a join: the private parts of the key packages published so far are
    // deleted (invitations already stored must keep being answered from storage)
    if gn.rng().chance(1, 10) {
        let joined: Vec<usize> = (0..w.nodes.len()).filter(|n| w.history.iter().any(|r| r.step.node == *n && r.class == "ok" && matches!(r.step.op, Op::AcceptWelcome { .. }))).collect();
        if let Some(x) = gn.rng().pick(&joined).copied() {
            return Some(gn.mk(w, x, 0, Op::RotateKeyPackages));
        }
    }
    if !w.groups.is_empty() && !w.probes.contains_key("reinvited_while_still_active_story") && gn.rng().chance(1, 4) {
        let g = 0usize;
        let n = w.nodes.len();
        let admins: Vec<usize> = (0..n).filter(|a| w.is_admin(*a, g) && w.is_active_member(*a, g) && !w.has_pending_commit(*a, g)).collect();
        if let Some(a) = admins.first().copied() {
            let xs: Vec<usize> = (0..n).filter(|x| *x != a && w.is_active_member(*x, g) && !w.has_pending_commit(*x, g) && w.node_state(*x, g) == w.node_state(a, g)).collect();
            if let Some(x) = gn.rng().pick(&xs).copied() {
                let first = gn.mk(w, x, 1, Op::SelfUpdate { g });
                let su = EvRef(first.id, 0);
                let mut q = vec![gn.mk(w, x, 0, Op::MergePending { g }), gn.mk(w, a, 0, Op::Deliver { ev: su }), gn.mk(w, x, 0, Op::PublishKeyPackage)];
                let rm = gn.mk(w, a, 1, Op::RemoveMembers { g, who: vec![x] });
                let rm_ev = EvRef(rm.id, 0);
                q.push(rm);
                q.push(gn.mk(w, a, 0, Op::MergePending { g }));
                let add = gn.mk(w, a, 1, Op::AddMembers { g, who: vec![x] });
                let wref = EvRef(add.id, 1);
                q.push(add);
                q.push(gn.mk(w, a, 0, Op::MergePending { g }));
                q.push(gn.mk(w, x, 0, Op::ProcessWelcome { w: wref }));
                q.push(gn.mk(w, x, 0, Op::AcceptWelcome { w: wref }));
                let count = q.len();
                for st in q {
                    gn.queue.push_back(st);
                }
                gn.hold_until.insert(rm_ev, gn.emitted + count + 2);
                w.probe("reinvited_while_still_active_story");
                return Some(first);
            }
        }
    }
    super::byz::hook(gn, w)
}

fn conf(g: &mut Gen) {
    super::byz::install(g);
    g.hostile_hook = Some(story_hook);
    g.cfg.weights.invite += 2;
    g.cfg.weights.remove += 1;
    g.reprocess_welcomes = true;
    // in half of the runs recipients take their time: several invitations pending at once
    g.slow_accept = g.cfg.seed % 2 == 0;
}

pub fn spec() -> CheckSpec {
    let mut guards = BTreeSet::new();
    guards.insert("h_welcome".to_string());
    let base = Profile { guards, hostile: 5, min_nodes: 3, second_group: true, ..Default::default() };
    CheckSpec {
        id: "C16",
        level: "exploration",
        rule: "worlds with honest invitations (group creation, add commits, re-invites) and invitations built by members, ex-members and outsiders with their own openmls group: fresh group id, the MLS group id of a group the recipient holds (active / pending / inactive), additionally a colliding Nostr group id, malformed content, missing encoding tag, the same rumor under new wrapper ids, the same wrapper id again; delivered in any order relative to the group's other events, followed by accept / decline / nothing; oracle around process_welcome / decline_welcome: every group in which the recipient was active is bit-for-bit unchanged, no group becomes active without accept, re-processing a wrapper id changes nothing; around accept of an honest invitation: joiner's authenticator equals the inviter's post-commit state, record mirrors it, self_update == Required; non-trivial = an invitation naming an MLS group id the recipient holds as active; distinct = delivery signature",
        variants: vec![
            Variant { name: "mem", profile: Profile { backend: BackendMix::Memory, ..base.clone() }, runs_quick: 400, runs_thorough: 20000, oracle: mk, guarded: false, configure_gen: Some(conf), post: None, custom: None },
            Variant { name: "mixed", profile: Profile { backend: BackendMix::Mixed, allow_restart: true, ..base.clone() }, runs_quick: 120, runs_thorough: 6000, oracle: mk, guarded: false, configure_gen: Some(conf), post: None, custom: None },
        ],
        assumptions: vec!["accepting an invitation is the user's consent: what an accepted hostile invitation does to the group it names is outside the statement"],
        real: super::REAL.to_vec(),
        stubs: super::STUBS.to_vec(),
    }
}
