//! C01 — members converge on the MIP-03-selected state.

use std::collections::BTreeSet;

use crate::driver::*;
use crate::genr::*;
use crate::model::*;
use crate::node::GroupView;
use crate::run::Oracle;
use crate::world::*;

pub struct C01 {
    pub guarded: bool,
}

/// projection of a group view that all converged members must agree on
pub fn shared_projection(v: &GroupView) -> serde_json::Value {
    let m = v.mls.as_ref();
    let r = v.record.as_ref();
    serde_json::json!({
        "epoch": m.map(|m| m.epoch),
        "authenticator": m.map(|m| m.authenticator.clone()),
        "tree_hash": m.map(|m| m.tree_hash.clone()),
        "members": m.map(|m| m.members.clone()),
        "ext": m.map(|m| (m.ext_nostr_group_id.clone(), m.ext_name.clone(), m.ext_description.clone(), m.ext_admins.clone(), m.ext_relays.clone(), m.ext_image_hash.clone(), m.ext_image_key.clone(), m.ext_image_nonce.clone(), m.ext_image_upload_key.clone(), m.ext_version)),
        "record": r.map(|r| (r.nostr_group_id.clone(), r.name.clone(), r.description.clone(), r.admins.clone(), r.epoch, r.state.clone(), r.image_hash.clone(), r.image_key.clone(), r.image_nonce.clone())),
        "relays": v.relays.clone(),
    })
}

/// classification of why a node is not on the final state
pub fn classify(w: &World, node: usize, g: usize, wc: &WinningChain) -> String {
    match w.node_state(node, g) {
        None => "no-mls-state".into(),
        Some((e, s)) => {
            if let Some(i) = wc.states.iter().position(|x| *x == s) {
                format!("lagging at chain index {i}/{} (epoch {e})", wc.states.len() - 1)
            } else {
                format!("off-chain at epoch {e} state {}", &s[..8.min(s.len())])
            }
        }
    }
}

pub fn declined(w: &World, node: usize) -> bool {
    w.history.iter().any(|r| r.step.node == node && matches!(r.step.op, Op::DeclineWelcome { .. }) && r.class == "ok")
}

/// did `node` join group g through a welcome whose commit is not on the winning chain?
pub fn joined_dead_branch(w: &World, node: usize, g: usize, wc: &WinningChain) -> bool {
    for r in &w.history {
        if r.step.node != node || r.class != "ok" {
            continue;
        }
        if let Op::AcceptWelcome { w: wr } = &r.step.op {
            if let Some(pw) = w.w_index.get(wr).map(|i| &w.welcomes[*i]) {
                if pw.g == g {
                    if let Some(c) = pw.commit {
                        if !wc.commits.contains(&c) {
                            return true;
                        }
                    }
                }
            }
        }
    }
    false
}

/// First commit of the winning chain that `node` has not applied.
pub fn first_missing(w: &World, node: usize, g: usize, wc: &WinningChain) -> Option<EvRef> {
    let (_, s) = w.node_state(node, g)?;
    match wc.states.iter().position(|x| *x == s) {
        Some(i) => wc.commits.get(i).copied(),
        None => {
            // off-chain: the winning commit at the deepest chain state the node passed through
            let mut last_on_chain = 0usize;
            for r in &w.history {
                if r.step.node != node {
                    continue;
                }
                if let Some((_, st)) = r.post_state.get(&g) {
                    if let Some(i) = wc.states.iter().position(|x| x == st) {
                        last_on_chain = last_on_chain.max(i);
                    }
                }
            }
            wc.commits.get(last_on_chain).copied()
        }
    }
}

/// Known-finding triggers: predicates over the recorded history of the violating node, keyed
/// on the first winning commit it failed to apply and on what happened when that commit was
/// first handed to it.
pub fn known_trigger(w: &World, _cfg: &RunCfg, node: usize, g: usize, wc: &WinningChain) -> Option<String> {
    // (KF-C01-5, a non-admin's self_update sweeping the proposal queue, was repaired by 6270f5f)
    // KF-C01-6: the node rolled back for a "better" commit that it then refused (unauthorised,
    // or covering a proposal it does not hold): the rollback is not undone, the commit applied
    // before is epoch-invalidated, the node is stuck at the fork point
    if w.history.iter().any(|r| {
        r.step.node == node
            && r.rollback
            && is_refusal(&r.class)
            && matches!(&r.step.op, Op::Deliver { ev } if w.ev(*ev).map(|p| p.g == g && p.kind == EvKind::Commit && (!commit_is_authorised(w, p))).unwrap_or(false))
    }) {
        return Some("KF-C01-6".into());
    }
    let missing = first_missing(w, node, g, wc)?;
    let pe = w.ev(missing)?;
    let deliveries: Vec<&StepRecord> = w
        .history
        .iter()
        .filter(|r| r.step.node == node && matches!(&r.step.op, Op::Deliver { ev } if *ev == missing))
        .collect();
    // KF-C01-1: the node applied its own competing commit with merge_pending_commit (that path
    // takes no snapshot), so the better sibling cannot be applied by rollback
    if w.merged_direct[node].iter().any(|(gg, s, c)| *gg == g && *s == pe.parent_state && *c != missing) {
        return Some("KF-C01-1".into());
    }
    // KF-C01-2: the node had applied a commit that rotates the Nostr group id; the winning
    // commit carries the previous id in its h tag and is answered "group not found"
    if deliveries.iter().any(|r| r.class == "err" && r.outcome.contains("group not found")) && w.gview(node, g).is_some() {
        return Some("KF-C01-2".into());
    }
    // KF-C01-3: the winning commit covers proposals by reference and was handed to the node
    // (which was in the commit's parent state) before the proposal: it is refused, recorded as
    // failed and never re-opened
    if pe.refs_proposals {
        // the first hand-over at which the node stood in (or rolled back to) the parent state
        let at_parent = deliveries.iter().find(|r| {
            r.pre_state.get(&g).map(|s| s.1 == pe.parent_state).unwrap_or(false)
                || (r.rollback && r.post_state.get(&g).map(|s| s.1 == pe.parent_state).unwrap_or(false))
        });
        if let Some(first) = at_parent {
            // proposals (of the commit's parent state) the author had processed when it committed
            let props_before = |n: usize, until_step: u32, inclusive: bool| -> std::collections::BTreeSet<EvRef> {
                let mut set = std::collections::BTreeSet::new();
                for r in &w.history {
                    if r.step.id == until_step && !inclusive {
                        break;
                    }
                    if r.step.node == n && !is_refusal(&r.class) {
                        if let Op::Deliver { ev } = &r.step.op {
                            if w.ev(*ev).map(|p| p.kind == EvKind::Proposal && p.g == g && p.parent_state == pe.parent_state).unwrap_or(false) {
                                set.insert(*ev);
                            }
                        }
                    }
                    if r.step.id == until_step {
                        break;
                    }
                }
                set
            };
            let covered = props_before(pe.creator, missing.0, true);
            let held = props_before(node, first.step.id, false);
            let proposal_seen_before = covered.is_subset(&held);
            if is_refusal(&first.class) && !proposal_seen_before {
                return Some("KF-C01-3".into());
            }
        }
    }
    // KF-C01-4: the node was evicted by a commit that is not on the winning chain; every later
    // event, the better commit included, is answered "use after eviction"
    let inactive = w.gview(node, g).and_then(|v| v.record.as_ref()).map(|r| r.state == "inactive").unwrap_or(false);
    if inactive && deliveries.iter().any(|r| r.outcome.contains("evicted")) {
        return Some("KF-C01-4".into());
    }
    // KF-C01-7 (unrestricted regime only): the winning commit was first handed to the node while
    // it was still below the commit's epoch (a commit ahead of its predecessor): it cannot be
    // decrypted yet, is recorded as Failed, and every later hand-over is answered from that record
    let failed = |r: &&StepRecord| is_refusal(&r.class) || r.class == "err";
    let early = |r: &&StepRecord| r.pre_state.get(&g).map(|s| s.0 < pe.epoch).unwrap_or(false);
    if let Some(last_early) = deliveries.iter().rposition(|r| early(r) && failed(r)) {
        // (a failure on another branch is re-opened by the rollback; one below the epoch is not)
        if deliveries.iter().skip(last_early + 1).all(|r| failed(&r)) {
            return Some("KF-C01-7".into());
        }
    }
    None
}

impl Oracle for C01 {
    fn at_end(&mut self, w: &mut World, cfg: &RunCfg, gn: &Gen, quiesced: bool, passes: usize) {
        if !quiesced {
            w.violations.push(Violation {
                property: "C01".into(),
                clause: "no-quiescence".into(),
                step: None,
                node: None,
                detail: format!("fingerprints still changing after {passes} passes"),
                known: None,
            });
        }
        for g in 0..w.groups.len() {
            let wc = winning_chain(w, g, &gn.withheld);
            if wc.forks > 0 {
                w.probe("run_with_fork");
            }
            if wc.max_siblings >= 3 {
                w.probe("fork_3plus_siblings");
            }
            // last state of the chain that some client exhibited
            let Some(last_known) = wc.states.iter().rev().find(|s| w.state_info.contains_key(*s)).cloned() else { continue };
            let final_state = wc.states.last().unwrap().clone();
            let members: Vec<String> = w.state_info[&last_known].members.clone();
            let mut converged: Vec<usize> = vec![];
            for node in 0..w.nodes.len() {
                let pk = w.nodes[node].pubkey().to_hex();
                if !members.contains(&pk) {
                    continue;
                }
                if declined(w, node) {
                    continue;
                }
                if w.gview(node, g).is_none() {
                    // invited on the winning chain but the invitation was never released to it
                    w.probe("member_never_joined");
                    continue;
                }
                if joined_dead_branch(w, node, g, &wc) {
                    w.probe("joined_dead_branch_exempt");
                    continue;
                }
                let cur = w.node_state(node, g);
                if cur.as_ref().map(|c| c.1 == final_state).unwrap_or(false) {
                    converged.push(node);
                    continue;
                }
                // beyond-retention exemption: at no hand-over of the first missing winning commit
                // was the node (having visited the commit's parent state) at most `retention`
                // epochs past it
                let mut exempt = false;
                if let Some(c) = first_missing(w, node, g, &wc) {
                    if let Some(pe) = w.ev(c) {
                        let retention = w.nodes[node].cfg.epoch_snapshot_retention as u64;
                        let mut visited_parent = false;
                        let mut within_reach = false;
                        let mut delivered_any = false;
                        // the snapshot of the parent state is one of the `retention` most recent
                        // ones only as long as the node has not applied more than that many commits
                        // since it stood there: what counts is the highest epoch reached since
                        // (a rollback to a state in between does not bring the snapshot back)
                        let mut high = 0u64;
                        for r in w.history.iter().filter(|r| r.step.node == node) {
                            if r.pre_state.get(&g).map(|s| s.1 == pe.parent_state).unwrap_or(false) {
                                visited_parent = true;
                                high = pe.epoch;
                            } else if let Some(s) = r.pre_state.get(&g) {
                                high = high.max(s.0);
                            }
                            if matches!(&r.step.op, Op::Deliver { ev } if *ev == c) {
                                delivered_any = true;
                                if visited_parent && high.saturating_sub(pe.epoch) <= retention {
                                    within_reach = true;
                                }
                            }
                            if r.post_state.get(&g).map(|s| s.1 == pe.parent_state).unwrap_or(false) {
                                visited_parent = true;
                                high = pe.epoch;
                            } else if let Some(s) = r.post_state.get(&g) {
                                high = high.max(s.0);
                            }
                        }
                        exempt = delivered_any && !within_reach;
                    }
                }
                if exempt {
                    w.probe("beyond_retention_exempt");
                    continue;
                }
                let known = if self.guarded { None } else { known_trigger(w, cfg, node, g, &wc) };
                let detail = format!(
                    "g{g} node n{node} ({:?}) did not reach the MIP-03 state: {}; winning chain {:?}",
                    w.nodes[node].cfg.backend,
                    classify(w, node, g, &wc),
                    wc.commits
                );
                w.violations.push(Violation { property: "C01".into(), clause: "not-converged".into(), step: None, node: Some(node), detail, known });
            }
            // converged members agree on everything shared
            let mut projs: Vec<(usize, String)> = converged
                .iter()
                .filter_map(|n| w.gview(*n, g).map(|v| (*n, shared_projection(v).to_string())))
                .collect();
            projs.sort_by(|a, b| a.1.cmp(&b.1));
            if let (Some(first), Some(last)) = (projs.first(), projs.last()) {
                if first.1 != last.1 {
                    w.violations.push(Violation {
                        property: "C01".into(),
                        clause: "converged-but-different".into(),
                        step: None,
                        node: Some(last.0),
                        detail: format!("n{}: {} vs n{}: {}", first.0, first.1, last.0, last.1),
                        known: None,
                    });
                }
            }
            if converged.len() >= 2 {
                w.probe("converged_group_2plus");
            }
        }
    }

    fn nontrivial(&self, w: &World) -> bool {
        // >= 1 fork with >= 2 published siblings and >= 1 rollback or lost own commit
        let fork = w.probes.get("run_with_fork").copied().unwrap_or(0) > 0;
        let rb = w.probes.get("rollback").copied().unwrap_or(0) > 0;
        fork && rb
    }
}

fn mk(cfg: &RunCfg) -> Box<dyn Oracle> {
    Box::new(C01 { guarded: cfg.guards.contains("guarded") })
}

/// Scripted story "deep fork": one member's commit (the MIP-03 winner: earliest timestamp) is
/// held back by the relay while another member extends the competing branch by k commits that
/// everybody else applies, k at or just below the smallest configured snapshot retention among
/// them; then the winner is released. Everybody has to roll back k epochs and converge on it.
fn deep_fork_story(gn: &mut Gen, w: &mut World) -> Option<Step> {
    if w.groups.is_empty() || w.probes.contains_key("deep_fork_story") || gn.rng().chance(1, 2) {
        return None;
    }
    let g = 0usize;
    let n = w.nodes.len();
    let members: Vec<usize> = (0..n).filter(|x| w.is_active_member(*x, g)).collect();
    if members.len() < 3 {
        return None;
    }
    let states: BTreeSet<Option<(u64, String)>> = members.iter().map(|m| w.node_state(*m, g)).collect();
    if states.len() != 1 || members.iter().any(|m| w.has_pending_commit(*m, g)) {
        return None;
    }
    // the winner's author is the member whose clock is furthest behind, so that its commit
    // carries the earliest wrapper timestamp whatever the skew
    let a = *members.iter().min_by_key(|m| (w.nodes[**m].cfg.clock_offset, **m))?;
    let others: Vec<usize> = members.iter().copied().filter(|m| *m != a).collect();
    let b = *gn.rng().pick(&others)?;
    let ret = others.iter().map(|m| w.nodes[*m].cfg.epoch_snapshot_retention).min().unwrap_or(5);
    let k = (ret as i64 - gn.rng().below(2) as i64).max(1) as usize;
    let first = gn.mk(w, a, 0, Op::SelfUpdate { g });
    let winner = EvRef(first.id, 0);
    let st = gn.mk(w, a, 0, Op::MergePending { g });
    gn.queue.push_back(st);
    let mut count = 1usize;
    for _ in 0..k {
        let up = gn.mk(w, b, 1, Op::SelfUpdate { g });
        let ci = EvRef(up.id, 0);
        gn.queue.push_back(up);
        count += 1;
        for x in &others {
            let st = gn.mk(w, *x, 0, Op::Deliver { ev: ci });
            gn.queue.push_back(st);
            count += 1;
        }
    }
    for x in &others {
        let st = gn.mk(w, *x, 0, Op::Deliver { ev: winner });
        gn.queue.push_back(st);
        count += 1;
    }
    gn.hold_until.insert(winner, gn.emitted + count + 2);
    w.probe("deep_fork_story");
    w.probe(&format!("deep_fork_depth_{k}"));
    Some(first)
}

fn with_deep_forks(g: &mut Gen) {
    g.hostile_hook = Some(deep_fork_story);
    g.cfg.weights.hostile = g.cfg.weights.hostile.max(2);
}

pub fn spec() -> CheckSpec {
    let mut guards = BTreeSet::new();
    guards.insert("guarded".to_string());
    guards.insert("no_immediate_merge".to_string());
    guards.insert("no_rotation".to_string());
    guards.insert("no_leave".to_string());
    guards.insert("no_remove".to_string());
    guards.insert("no_publish_failure".to_string());
    guards.insert("no_reinvite".to_string());
    let base = Profile { ..Default::default() };
    CheckSpec {
        id: "C01",
        level: "exploration",
        rule: "seeded swarm runs of the simulated world (2-6 members + late joiners, fork bursts of 2-4 sibling commits with equal/increasing/tied timestamps, concurrent traffic, duplicates, reordering, both own-commit policies; variants *-causal hand an event over only once the receiver has reached its epoch, variant mem-unrestricted hands events over in any order, commits ahead of their predecessors included); a run is non-trivial when it contains >=1 fork with >=2 published siblings and >=1 rollback; distinct = distinct delivery signature (per-node sequence of (event, duplicate?, epoch relation, result class) + fault positions)",
        variants: vec![
            Variant { name: "mem-causal", profile: Profile { backend: BackendMix::Memory, ..base.clone() }, runs_quick: 400, runs_thorough: 20000, oracle: mk, guarded: false, configure_gen: None, post: None, custom: None },
            Variant { name: "sqlite-causal", profile: Profile { backend: BackendMix::Mixed, ..base.clone() }, runs_quick: 120, runs_thorough: 6000, oracle: mk, guarded: false, configure_gen: None, post: None, custom: None },
            Variant { name: "sqlite-causal-guarded", profile: Profile { backend: BackendMix::Mixed, guards: guards.clone(), allow_immediate: false, ..base.clone() }, runs_quick: 120, runs_thorough: 6000, oracle: mk, guarded: true, configure_gen: None, post: None, custom: None },
            Variant { name: "mem-causal-guarded", profile: Profile { backend: BackendMix::Memory, guards: guards.clone(), allow_immediate: false, ..base.clone() }, runs_quick: 400, runs_thorough: 20000, oracle: mk, guarded: true, configure_gen: None, post: None, custom: None },
            Variant { name: "deep-forks-guarded", profile: Profile { backend: BackendMix::Mixed, guards: guards.clone(), allow_immediate: false, retention: Some((5, 8)), ..base.clone() }, runs_quick: 80, runs_thorough: 4000, oracle: mk, guarded: true, configure_gen: Some(with_deep_forks), post: None, custom: None },
            Variant { name: "mem-unrestricted", profile: Profile { backend: BackendMix::Memory, regime: Regime::Unrestricted, ..base.clone() }, runs_quick: 200, runs_thorough: 10000, oracle: mk, guarded: false, configure_gen: None, post: None, custom: None },
        ],
        assumptions: vec!["honest members only", "clock skew within max_future_skew_secs"],
        real: super::REAL.to_vec(),
        stubs: super::STUBS.to_vec(),
    }
}
