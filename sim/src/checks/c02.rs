//! C02 — application messages on the winning branch: exactly once, intact, valid; messages of a
//! losing branch never left valid on a converged client.

use std::collections::{BTreeMap, BTreeSet};

use crate::driver::*;
use crate::genr::*;
use crate::model::*;
use crate::node::MsgView;
use crate::run::Oracle;
use crate::world::*;

#[derive(Default)]
pub struct C02 {
    pub guarded: bool,
    /// (node, group hex, msg id) -> immutable fields first seen
    seen: BTreeMap<(usize, String, String), (String, u16, u64, String, String, String)>,
    obligations: u64,
}

fn immut(m: &MsgView) -> (String, u16, u64, String, String, String) {
    (m.pubkey.clone(), m.kind, m.created_at, m.content.clone(), m.tags.clone(), m.wrapper.clone())
}

impl C02 {
    fn known(&self, w: &World, node: usize, g: usize, m: &LedgerMsg, clause: &str) -> Option<String> {
        if self.guarded {
            return None;
        }
        let _ = (w, node, g, m, clause);
        crate::checks::c02::known_trigger(w, node, g, m, clause)
    }
}

pub fn known_trigger(w: &World, node: usize, g: usize, m: &LedgerMsg, clause: &str) -> Option<String> {
    // KF-C02-1 (same root cause as KF-C01-2): the message carries the Nostr group id in force
    // when it was sent; the receiver has meanwhile applied an id rotation and answers
    // "group not found"
    let deliveries: Vec<&StepRecord> = w
        .history
        .iter()
        .filter(|r| r.step.node == node && matches!(&r.step.op, Op::Deliver { ev } if *ev == m.origin))
        .collect();
    if (clause == "missing" || clause == "not-valid") && deliveries.iter().any(|r| r.class == "err" && r.outcome.contains("group not found")) && w.gview(node, g).is_some() {
        return Some("KF-C02-1".into());
    }
    // KF-C02-2: the client re-joined the group through a second invitation (which replaces its
    // MLS state); messages it stored under the replaced state keep their valid state
    if clause == "losing-branch-message-valid" {
        let accepts = w
            .history
            .iter()
            .filter(|r| r.step.node == node && r.class == "ok" && matches!(&r.step.op, Op::AcceptWelcome { w: wr } if w.w_index.get(wr).map(|i| w.welcomes[*i].g == g).unwrap_or(false)))
            .count();
        if accepts >= 2 {
            return Some("KF-C02-2".into());
        }
    }
    None
}

impl Oracle for C02 {
    fn after_step(&mut self, w: &mut World, rec: &StepRecord) {
        let node = rec.step.node;
        if node >= w.views.len() {
            return;
        }
        // stored content never changes; never two records for one wrapper
        let mut viols = vec![];
        for (gk, gv) in &w.views[node].groups {
            let mut wrappers: BTreeMap<&str, &str> = BTreeMap::new();
            for m in &gv.messages {
                let key = (node, gk.clone(), m.id.clone());
                let cur = immut(m);
                match self.seen.get(&key) {
                    None => {
                        self.seen.insert(key, cur);
                    }
                    Some(old) => {
                        if *old != cur {
                            viols.push(("content-changed", format!("n{node} message {} changed from {:?} to {:?}", &m.id[..8], old, cur)));
                        }
                    }
                }
                if let Some(other) = wrappers.insert(m.wrapper.as_str(), m.id.as_str()) {
                    if other != m.id {
                        viols.push(("two-records-one-wrapper", format!("n{node} wrapper {} stored as {} and {}", &m.wrapper[..8], &other[..8], &m.id[..8])));
                    }
                }
            }
        }
        for (clause, detail) in viols {
            w.violations.push(Violation { property: "C02".into(), clause: clause.into(), step: Some(rec.step.id), node: Some(node), detail, known: None });
        }
    }

    fn at_end(&mut self, w: &mut World, _cfg: &RunCfg, gn: &Gen, _quiesced: bool, _passes: usize) {
        let mut out = vec![];
        for g in 0..w.groups.len() {
            let wc = winning_chain(w, g, &gn.withheld);
            let final_state = wc.states.last().unwrap().clone();
            let chain_idx = |s: &str| wc.states.iter().position(|x| x == s);
            let ledger: Vec<LedgerMsg> = w.ledger.iter().filter(|m| m.g == g).cloned().collect();
            for m in &ledger {
                let on_chain = chain_idx(&m.state);
                for node in 0..w.nodes.len() {
                    let Some(gv) = w.gview(node, g) else { continue };
                    let stored: Vec<&MsgView> = gv.messages.iter().filter(|x| x.id == m.rumor_id).collect();
                    let node_final = w.node_state(node, g).map(|s| s.1 == final_state).unwrap_or(false);
                    let active = w.is_active_member(node, g);
                    match on_chain {
                        None => {
                            // losing branch: never left valid on a client that converged
                            if node_final && active {
                                for s in &stored {
                                    if s.state == "created" || s.state == "processed" {
                                        out.push((node, "losing-branch-message-valid", format!("g{g} n{node}: message {} sent in losing state {} is stored as {}", &m.rumor_id[..8], &m.state[..8], s.state), m.clone()));
                                    }
                                }
                            }
                        }
                        Some(i) => {
                            // obligation: member of the sending state, and offered at least once
                            // while standing on the winning chain inside the epoch windows
                            let pk = w.nodes[node].pubkey().to_hex();
                            let was_member = w.state_info.get(&m.state).map(|s| s.members.contains(&pk)).unwrap_or(false);
                            if !was_member {
                                continue;
                            }
                            // membership must be continuous: a client that was removed and joined
                            // again after the message was sent starts from a fresh MLS state and
                            // cannot open what it missed (C03: a joiner reads nothing from before
                            // its join)
                            let sent_at = w.history.iter().position(|r| r.step.id == m.origin.0);
                            let rejoined_after = sent_at.map(|p| {
                                w.history.iter().skip(p + 1).any(|r| {
                                    r.step.node == node && r.class == "ok" && matches!(&r.step.op, Op::AcceptWelcome { w: wr } if w.w_index.get(wr).map(|i| w.welcomes[*i].g == g).unwrap_or(false))
                                })
                            }).unwrap_or(false);
                            if rejoined_after {
                                continue;
                            }
                            // the same by epochs: a message of an epoch below the one the client
                            // (last) joined in - a sender that lags behind can still produce one
                            // after the re-join - is from before its join: the state joined through
                            // the welcome holds no secrets of earlier epochs
                            let joined_at: Option<u64> = w
                                .history
                                .iter()
                                .filter(|r| r.step.node == node && r.class == "ok" && matches!(&r.step.op, Op::AcceptWelcome { w: wr } if w.w_index.get(wr).map(|i| w.welcomes[*i].g == g).unwrap_or(false)))
                                .filter_map(|r| r.post_state.get(&g).map(|s| s.0))
                                .last();
                            if joined_at.map(|e| m.epoch < e).unwrap_or(false) {
                                w.probe("message_of_an_epoch_before_the_re_join");
                                continue;
                            }
                            let window = w.nodes[node].cfg.max_past_epochs as usize;
                            let is_author = node == m.author;
                            let mut offered_in_window = false;
                            let mut echo_delivered = false;
                            // sender-ratchet generation of m among its author's messages of that state
                            let gen_of = |x: &LedgerMsg| ledger.iter().filter(|y| y.author == x.author && y.state == x.state && y.origin < x.origin).count() as i64;
                            let my_gen = gen_of(m);
                            let tolerance = w.nodes[node].cfg.out_of_order_tolerance as i64;
                            let forward = w.nodes[node].cfg.maximum_forward_distance as i64;
                            let mut max_gen_seen: i64 = -1;
                            let mut in_window_at: Vec<(u32, usize, String)> = vec![];
                            let mut first_seen = false;
                            let mut done = false;
                            let mut any_out_of_window = false;
                            for r in w.history.iter().filter(|r| r.step.node == node) {
                                if let Op::Deliver { ev } = &r.step.op {
                                    if *ev == m.origin {
                                        if done {
                                            continue;
                                        }
                                        // every hand-over up to the first successful one must lie
                                        // inside the windows: an out-of-window offer legitimately
                                        // fails and its failure record may block later offers
                                        first_seen = true;
                                        if !is_refusal(&r.class) {
                                            done = true;
                                        }
                                        if let Some((pe_epoch, _)) = r.pre_state.get(&g) {
                                            {
                                                let j = *pe_epoch as usize;
                                                let epoch_ok = *pe_epoch >= m.epoch && (*pe_epoch - m.epoch) as usize <= window;
                                                let ratchet_ok = is_author || (max_gen_seen - my_gen < tolerance - 1 && my_gen - max_gen_seen < forward - 1);
                                                if !(epoch_ok && ratchet_ok) {
                                                    any_out_of_window = true;
                                                }
                                                if epoch_ok && ratchet_ok {
                                                    offered_in_window = true;
                                                    in_window_at.push((r.step.id, j, r.class.clone()));
                                                    if is_author {
                                                        echo_delivered = true;
                                                    }
                                                }
                                            }
                                        }
                                    } else if r.class == "app" {
                                        if let Some(o) = w.ev(*ev).and_then(|p| p.msg).map(|li| &w.ledger[li]) {
                                            if o.author == m.author && o.state == m.state {
                                                max_gen_seen = max_gen_seen.max(gen_of(o));
                                            }
                                        }
                                    }
                                }
                            }
                            let _ = first_seen;
                            if any_out_of_window {
                                offered_in_window = false;
                                echo_delivered = false;
                            }
                            if is_author {
                                offered_in_window = true;
                            }
                            if !offered_in_window || !node_final {
                                // nodes that did not converge are C01's business
                                continue;
                            }
                            self.obligations += 1;
                            if stored.is_empty() {
                                out.push((node, "missing", format!("g{g} n{node}: message {} (sent at chain index {i}) was offered inside the windows but is not stored; in-window hand-overs (step, chain index, result): {:?}; max_past_epochs {} tolerance {}", &m.rumor_id[..8], in_window_at, w.nodes[node].cfg.max_past_epochs, w.nodes[node].cfg.out_of_order_tolerance), m.clone()));
                                continue;
                            }
                            if stored.len() > 1 {
                                out.push((node, "duplicate", format!("g{g} n{node}: message {} stored {} times", &m.rumor_id[..8], stored.len()), m.clone()));
                            }
                            let s = stored[0];
                            if s.pubkey != m.author_pk || s.kind != m.kind || s.created_at != m.created_at || s.content != m.content || s.tags != m.tags || !s.id_ok || !s.event_consistent {
                                out.push((node, "altered", format!("g{g} n{node}: message {} differs from what its sender gave it: {:?}", &m.rumor_id[..8], s), m.clone()));
                            }
                            let want: &[&str] = if is_author { if echo_delivered { &["processed"] } else { &["created", "processed"] } } else { &["processed"] };
                            if !want.contains(&s.state.as_str()) {
                                out.push((node, "not-valid", format!("g{g} n{node}: message {} of the winning branch (chain index {i}) ended in state {} (stored epoch {:?}); in-window hand-overs (step, chain index, result): {:?}; max_past_epochs {}", &m.rumor_id[..8], s.state, s.epoch, in_window_at, w.nodes[node].cfg.max_past_epochs), m.clone()));
                            }
                        }
                    }
                }
            }
        }
        let mut seen = BTreeSet::new();
        for (node, clause, detail, m) in out {
            if !seen.insert((node, clause)) {
                continue;
            }
            let known = self.known(w, node, m.g, &m, clause);
            w.violations.push(Violation { property: "C02".into(), clause: clause.into(), step: None, node: Some(node), detail, known });
        }
        if self.obligations > 0 {
            w.probe("message_obligations_checked");
        }
    }

    fn nontrivial(&self, w: &World) -> bool {
        // a message processed after the recipient left the message's epoch, and a rollback
        let late = w.history.iter().any(|r| {
            r.class == "app"
                && matches!(&r.step.op, Op::Deliver { ev } if w.ev(*ev).map(|p| r.pre_state.get(&p.g).map(|s| s.0 > p.epoch).unwrap_or(false)).unwrap_or(false))
        });
        late && w.probes.get("rollback").copied().unwrap_or(0) > 0
    }
}

fn mk(cfg: &RunCfg) -> Box<dyn Oracle> {
    Box::new(C02 { guarded: cfg.guards.contains("guarded"), ..Default::default() })
}

/// A message that reaches everybody many epochs late: the sender's relay is slow for this one
/// event while an admin performs k further commits that everybody applies; k is chosen around the
/// LARGEST configured past-epoch window among the members, so that windows above and below the
/// library's built-in look-back are both met from inside and from outside.
fn late_story(gn: &mut Gen, w: &mut World) -> Option<Step> {
    if w.groups.is_empty() || gn.rng().chance(2, 3) {
        return None;
    }
    let g = 0usize;
    let n = w.nodes.len();
    let members: Vec<usize> = (0..n).filter(|x| w.is_active_member(*x, g)).collect();
    if members.len() < 2 {
        return None;
    }
    // everybody stands in the same state (otherwise the scripted deliveries do not apply)
    let states: BTreeSet<Option<(u64, String)>> = members.iter().map(|m| w.node_state(*m, g)).collect();
    if states.len() != 1 || members.iter().any(|m| w.has_pending_commit(*m, g)) {
        return None;
    }
    let admins: Vec<usize> = members.iter().copied().filter(|m| w.is_admin(*m, g)).collect();
    let c = *gn.rng().pick(&admins)?;
    let senders: Vec<usize> = members.iter().copied().filter(|m| *m != c).collect();
    let s = *gn.rng().pick(&senders)?;
    let widest = members.iter().map(|m| w.nodes[*m].cfg.max_past_epochs).max().unwrap_or(5);
    let k = (widest as i64 + [-1i64, 0, 0, 1][gn.rng().below(4) as usize]).max(1) as usize;
    let first = gn.mk(w, s, 0, Op::SendMsg { g, tag: 9000 + gn.emitted as u32, ts_back: 0, kind: 9, imeta: false });
    let late = EvRef(first.id, 0);
    let mut count = 0usize;
    for i in 0..k {
        let up = gn.mk(w, c, 1, Op::UpdateData { g, variant: (i % 2) as u8, arg: 700 + i as u32 });
        let ci = EvRef(up.id, 0);
        gn.queue.push_back(up);
        let st = gn.mk(w, c, 0, Op::MergePending { g });
        gn.queue.push_back(st);
        count += 2;
        for x in members.iter().filter(|m| **m != c) {
            let st = gn.mk(w, *x, 0, Op::Deliver { ev: ci });
            gn.queue.push_back(st);
            count += 1;
        }
    }
    for x in &members {
        let st = gn.mk(w, *x, 0, Op::Deliver { ev: late });
        gn.queue.push_back(st);
        count += 1;
    }
    gn.hold_until.insert(late, gn.emitted + count + 2);
    w.probe("very_late_message_story");
    Some(first)
}

fn with_late_story(g: &mut Gen) {
    g.hostile_hook = Some(late_story);
    g.cfg.weights.hostile = g.cfg.weights.hostile.max(1);
}

pub fn spec() -> CheckSpec {
    let mut guards = BTreeSet::new();
    for g in ["guarded", "no_immediate_merge", "no_rotation", "no_leave", "no_remove", "no_publish_failure", "no_reinvite"] {
        guards.insert(g.to_string());
    }
    let base = Profile { msg_heavy: true, small_config: true, ..Default::default() };
    CheckSpec {
        id: "C02",
        level: "exploration",
        rule: "message-heavy seeded swarm runs (C01 world) with non-default window configs (past-epoch windows 1, 2, 3, 5 and 8) and a scripted story in which one message reaches everybody k epochs late, k around the widest configured window; final ledger check after quiescence: every message sent on the winning chain and offered inside the windows is stored exactly once, intact and valid at every converged member of its epoch, losing-branch messages are not valid; a run is non-trivial when a message was processed after the recipient left the message's epoch and a rollback occurred; distinct = delivery signature",
        variants: vec![
            Variant { name: "mem", profile: Profile { backend: BackendMix::Memory, ..base.clone() }, runs_quick: 300, runs_thorough: 15000, oracle: mk, guarded: false, configure_gen: Some(with_late_story), post: None, custom: None },
            Variant { name: "mixed", profile: Profile { backend: BackendMix::Mixed, ..base.clone() }, runs_quick: 100, runs_thorough: 5000, oracle: mk, guarded: false, configure_gen: Some(with_late_story), post: None, custom: None },
            Variant { name: "mem-guarded", profile: Profile { backend: BackendMix::Memory, guards: guards.clone(), allow_immediate: false, ..base.clone() }, runs_quick: 300, runs_thorough: 15000, oracle: mk, guarded: true, configure_gen: None, post: None, custom: None },
            Variant { name: "mixed-guarded", profile: Profile { backend: BackendMix::Mixed, guards: guards.clone(), allow_immediate: false, ..base.clone() }, runs_quick: 100, runs_thorough: 5000, oracle: mk, guarded: true, configure_gen: None, post: None, custom: None },
        ],
        assumptions: vec!["honest members only", "obligation only for (message, client) pairs offered at least once inside the configured epoch windows while the client stood on the winning chain"],
        real: super::REAL.to_vec(),
        stubs: super::STUBS.to_vec(),
    }
}
