//! Shared Byzantine generator hook for C04 / C05 / C06 / C16.

use crate::genr::Gen;
use crate::hostile::HostileOp;
use crate::world::*;

/// Families are switched on through `cfg.guards`: h_rumor, h_rewrap, h_commit, h_proposal,
/// h_garbage, h_outer, h_welcome, h_keypackage.
pub fn hook(gn: &mut Gen, w: &mut World) -> Option<Step> {
    let fams: Vec<&str> = ["h_rumor", "h_rewrap", "h_commit", "h_proposal", "h_garbage", "h_outer", "h_welcome", "h_keypackage"].into_iter().filter(|f| gn.cfg.guards.contains(*f)).collect();
    if fams.is_empty() || w.groups.is_empty() {
        return None;
    }
    let n_nodes = w.nodes.len();
    let fam = fams[gn.rng().below(fams.len() as u64) as usize];
    let g = gn.rng().below(w.groups.len() as u64) as usize;
    let node = gn.rng().below(n_nodes as u64) as usize;
    let victim = gn.rng().below(n_nodes as u64) as usize;
    let seed = gn.rng().next() as u32;
    let evs: Vec<EvRef> = w.events.iter().filter(|e| e.g == g && e.kind != EvKind::Hostile).map(|e| e.origin).collect();
    let any_ev = if evs.is_empty() { None } else { Some(evs[gn.rng().below(evs.len() as u64) as usize]) };
    let op = match fam {
        "h_rumor" => {
            if !w.is_active_member(node, g) {
                return None;
            }
            let mode = gn.rng().below(5) as u8;
            let others: Vec<EvRef> = w.ledger.iter().filter(|l| l.g == g && l.author != node).map(|l| l.origin).collect();
            let vm = if others.is_empty() { None } else { Some(others[gn.rng().below(others.len() as u64) as usize]) };
            let victim = vm.and_then(|r| w.ledger.iter().find(|l| l.origin == r)).map(|l| l.author).unwrap_or(victim);
            HostileOp::ForgedRumor { g, mode, victim, victim_msg: vm, tag: seed % 1000 }
        }
        "h_rewrap" => {
            let apps: Vec<EvRef> = w.events.iter().filter(|e| e.kind == EvKind::App).map(|e| e.origin).collect();
            if apps.is_empty() {
                return None;
            }
            let ev = apps[gn.rng().below(apps.len() as u64) as usize];
            let eg = w.ev(ev).map(|p| p.g).unwrap_or(0);
            if w.gview(node, eg).is_none() {
                return None;
            }
            HostileOp::Rewrap { ev, mode: gn.rng().below(4) as u8, g2: (eg + 1) % w.groups.len().max(1) }
        }
        "h_commit" => {
            if !w.is_active_member(node, g) || w.has_pending_commit(node, g) {
                return None;
            }
            HostileOp::CraftedCommit { g, kind: gn.rng().below(8) as u8, victim }
        }
        "h_proposal" => {
            if !w.is_active_member(node, g) || w.has_pending_commit(node, g) {
                return None;
            }
            HostileOp::CraftedProposal { g, kind: gn.rng().below(3) as u8, victim }
        }
        "h_garbage" => {
            if w.gview(node, g).is_none() {
                return None;
            }
            HostileOp::GarbageInner { g, mode: gn.rng().below(5) as u8, ev: any_ev, seed }
        }
        "h_keypackage" => {
            let owners: Vec<usize> = (0..n_nodes).filter(|i| !w.nodes[*i].key_packages.is_empty()).collect();
            if owners.is_empty() {
                return None;
            }
            let owner = owners[gn.rng().below(owners.len() as u64) as usize];
            HostileOp::HostileKeyPackage { owner, mode: gn.rng().below(12) as u8, seed, g, use_in: gn.rng().below(2) as u8 }
        }
        "h_outer" => HostileOp::MutatedOuter { ev: any_ev?, mode: gn.rng().below(11) as u8, seed },
        _ => {
            if w.nodes[victim].key_packages.is_empty() || victim == node {
                return None;
            }
            if gn.rng().chance(1, 5) && !w.welcomes.is_empty() {
                let i = gn.rng().below(w.welcomes.len() as u64) as usize;
                HostileOp::RewrappedWelcome { w: w.welcomes[i].origin, seed }
            } else {
                HostileOp::HostileWelcome { victim, mode: gn.rng().below(6) as u8, g, seed }
            }
        }
    };
    Some(gn.mk(w, node, 0, Op::Hostile(op)))
}

pub fn install(g: &mut Gen) {
    g.hostile_hook = Some(hook);
    g.cfg.weights.hostile = g.cfg.weights.hostile.max(4);
}
