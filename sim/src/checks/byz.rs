//! Shared Byzantine generator hook for C04 / C05 / C06 / C16.

use crate::genr::Gen;
use crate::hostile::HostileOp;
use crate::world::*;

/// Families are switched on through `cfg.guards`: h_rumor, h_rewrap, h_commit, h_proposal,
/// h_garbage, h_outer, h_welcome, h_keypackage.
pub fn hook(gn: &mut Gen, w: &mut World) -> Option<Step> {
    let fams: Vec<&str> = ["h_rumor", "h_rewrap", "h_commit", "h_proposal", "h_garbage", "h_outer", "h_welcome", "h_keypackage"].into_iter().filter(|f| gn.cfg.guards.contains(*f)).collect();
    if fams.is_empty() || w.groups.is_empty() {
        return None;
    }
    let n_nodes = w.nodes.len();
    let fam = fams[gn.rng().below(fams.len() as u64) as usize];
    let g = gn.rng().below(w.groups.len() as u64) as usize;
    let node = gn.rng().below(n_nodes as u64) as usize;
    let victim = gn.rng().below(n_nodes as u64) as usize;
    let seed = gn.rng().next() as u32;
    let evs: Vec<EvRef> = w.events.iter().filter(|e| e.g == g && e.kind != EvKind::Hostile).map(|e| e.origin).collect();
    let any_ev = if evs.is_empty() { None } else { Some(evs[gn.rng().below(evs.len() as u64) as usize]) };
    let op = match fam {
        "h_rumor" => {
            if !w.is_active_member(node, g) {
                return None;
            }
            let mode = gn.rng().below(6) as u8;
            let others: Vec<EvRef> = w.ledger.iter().filter(|l| l.g == g && l.author != node).map(|l| l.origin).collect();
            let vm = if others.is_empty() { None } else { Some(others[gn.rng().below(others.len() as u64) as usize]) };
            let mut victim = vm.and_then(|r| w.ledger.iter().find(|l| l.origin == r)).map(|l| l.author).unwrap_or(victim);
            if mode == 0 && gn.rng().chance(1, 2) {
                // a name that is not in the group yet: someone who may join later (and may be
                // given the forger's leaf once the forger is gone)
                let members = w.members_of(node, g);
                let future: Vec<usize> = (0..n_nodes).filter(|n| !members.contains(n) && !w.nodes[*n].key_packages.is_empty()).collect();
                if !future.is_empty() {
                    victim = future[gn.rng().below(future.len() as u64) as usize];
                    // and the relay is slow with this event
                    let until = gn.emitted + 6 + gn.rng().below(24) as usize;
                    gn.hold_until.insert(EvRef(w.peek_step_id(), 0), until);
                    w.probe("forged_rumor_in_the_name_of_a_future_member_held_back");
                    // half of the time the whole story is played out: the forger is removed, the
                    // impersonated user is added (and may be given the forger's leaf), and only
                    // then does the forged event reach the others
                    let admins: Vec<usize> = members.iter().copied().filter(|m| *m != node && w.is_admin(*m, g) && w.is_active_member(*m, g) && !w.has_pending_commit(*m, g)).collect();
                    if !admins.is_empty() && gn.rng().chance(1, 2) {
                        let a = admins[gn.rng().below(admins.len() as u64) as usize];
                        let others: Vec<usize> = members.iter().copied().filter(|m| *m != node && *m != a).collect();
                        let first = gn.mk(w, node, 0, Op::Hostile(HostileOp::ForgedRumor { g, mode, victim, victim_msg: None, tag: seed % 1000 }));
                        let forged = EvRef(first.id, 0);
                        let rm = gn.mk(w, a, 1, Op::RemoveMembers { g, who: vec![node] });
                        let c1 = EvRef(rm.id, 0);
                        gn.queue.push_back(rm);
                        let st = gn.mk(w, a, 0, Op::MergePending { g });
                        gn.queue.push_back(st);
                        for x in &others {
                            let st = gn.mk(w, *x, 0, Op::Deliver { ev: c1 });
                            gn.queue.push_back(st);
                        }
                        let add = gn.mk(w, a, 1, Op::AddMembers { g, who: vec![victim] });
                        let c2 = EvRef(add.id, 0);
                        gn.queue.push_back(add);
                        let st = gn.mk(w, a, 0, Op::MergePending { g });
                        gn.queue.push_back(st);
                        for x in &others {
                            let st = gn.mk(w, *x, 0, Op::Deliver { ev: c2 });
                            gn.queue.push_back(st);
                        }
                        for x in others.iter().chain(std::iter::once(&a)) {
                            let st = gn.mk(w, *x, 0, Op::Deliver { ev: forged });
                            gn.queue.push_back(st);
                        }
                        gn.hold_until.insert(forged, gn.emitted + 8 + 3 * others.len());
                        w.probe("leaf_inheritance_story_scripted");
                        return Some(first);
                    }
                }
            }
            HostileOp::ForgedRumor { g, mode, victim, victim_msg: vm, tag: seed % 1000 }
        }
        "h_rewrap" => {
            let apps: Vec<EvRef> = w.events.iter().filter(|e| e.kind == EvKind::App).map(|e| e.origin).collect();
            if apps.is_empty() {
                return None;
            }
            let ev = apps[gn.rng().below(apps.len() as u64) as usize];
            let eg = w.ev(ev).map(|p| p.g).unwrap_or(0);
            if w.gview(node, eg).is_none() {
                return None;
            }
            HostileOp::Rewrap { ev, mode: gn.rng().below(5) as u8, g2: (eg + 1) % w.groups.len().max(1) }
        }
        "h_commit" => {
            if !w.is_active_member(node, g) || w.has_pending_commit(node, g) {
                return None;
            }
            HostileOp::CraftedCommit { g, kind: gn.rng().below(12) as u8, victim }
        }
        "h_proposal" => {
            if !w.is_active_member(node, g) || w.has_pending_commit(node, g) {
                return None;
            }
            if gn.rng().chance(1, 5) && !gn.cfg.guards.contains("no_leave") {
                // story: a member's Add / Remove proposal is queued at an admin, then somebody
                // asks to leave and the admin's client commits the leave automatically
                let admins: Vec<usize> = (0..n_nodes).filter(|a| *a != node && w.is_admin(*a, g) && w.is_active_member(*a, g) && !w.has_pending_commit(*a, g)).collect();
                let leavers: Vec<usize> = (0..n_nodes).filter(|l| w.is_active_member(*l, g) && !w.has_pending_commit(*l, g) && !admins.contains(l)).collect();
                if let (Some(a), Some(l)) = (admins.first().copied(), gn.rng().pick(&leavers).copied()) {
                    let same = w.node_state(a, g) == w.node_state(node, g) && w.node_state(a, g) == w.node_state(l, g);
                    let others: Vec<usize> = (0..n_nodes).filter(|v| *v != node && *v != l && w.is_active_member(*v, g)).collect();
                    if same && !others.is_empty() {
                        let kind = gn.rng().below(2) as u8;
                        let v = others[gn.rng().below(others.len() as u64) as usize];
                        let first = gn.mk(w, node, 0, Op::Hostile(HostileOp::CraftedProposal { g, kind, victim: v }));
                        let p1 = EvRef(first.id, 0);
                        let st = gn.mk(w, a, 0, Op::Deliver { ev: p1 });
                        gn.queue.push_back(st);
                        let lv = gn.mk(w, l, 1, Op::Leave { g });
                        let p2 = EvRef(lv.id, 0);
                        gn.queue.push_back(lv);
                        let st = gn.mk(w, a, 0, Op::Deliver { ev: p2 });
                        let auto = EvRef(st.id, 0);
                        gn.queue.push_back(st);
                        let st = if gn.rng().chance(1, 2) { gn.mk(w, a, 0, Op::MergePending { g }) } else { gn.mk(w, a, 0, Op::Deliver { ev: auto }) };
                        gn.queue.push_back(st);
                        w.probe("proposal_then_leave_story_scripted");
                        return Some(first);
                    }
                }
            }
            HostileOp::CraftedProposal { g, kind: gn.rng().below(3) as u8, victim }
        }
        "h_garbage" => {
            if w.gview(node, g).is_none() {
                return None;
            }
            HostileOp::GarbageInner { g, mode: gn.rng().below(5) as u8, ev: any_ev, seed }
        }
        "h_keypackage" => {
            let owners: Vec<usize> = (0..n_nodes).filter(|i| !w.nodes[*i].key_packages.is_empty()).collect();
            if owners.is_empty() {
                return None;
            }
            let owner = owners[gn.rng().below(owners.len() as u64) as usize];
            HostileOp::HostileKeyPackage { owner, mode: gn.rng().below(12) as u8, seed, g, use_in: gn.rng().below(2) as u8 }
        }
        "h_outer" => HostileOp::MutatedOuter { ev: any_ev?, mode: gn.rng().below(11) as u8, seed },
        _ => {
            if w.nodes[victim].key_packages.is_empty() || victim == node {
                return None;
            }
            if gn.rng().chance(1, 6) && !gn.cfg.guards.contains("no_rotation") {
                // the story of an invitation that takes the Nostr group id a group of the victim
                // is being rotated to: rotation commit published, invitation received (declined
                // or left pending), then the rotation commit reaches the victim
                let admins: Vec<usize> = (0..n_nodes).filter(|a| *a != victim && w.is_admin(*a, g) && w.is_active_member(*a, g) && !w.has_pending_commit(*a, g)).collect();
                if w.is_active_member(victim, g) && !admins.is_empty() && w.node_state(victim, g) == w.node_state(admins[0], g) {
                    let a = admins[0];
                    let rot = gn.mk(w, a, 1, Op::UpdateData { g, variant: 4, arg: seed % 1000 });
                    let rot_ev = EvRef(rot.id, 0);
                    let st = gn.mk(w, a, 0, Op::MergePending { g });
                    gn.queue.push_back(st);
                    let hw = gn.mk(w, node, 0, Op::Hostile(HostileOp::HostileWelcome { victim, mode: 6, g, seed }));
                    let wref = EvRef(hw.id, 0);
                    gn.queue.push_back(hw);
                    let st = gn.mk(w, victim, 0, Op::ProcessWelcome { w: wref });
                    gn.queue.push_back(st);
                    if gn.rng().chance(1, 2) {
                        let st = gn.mk(w, victim, 0, Op::DeclineWelcome { w: wref });
                        gn.queue.push_back(st);
                    }
                    let st = gn.mk(w, victim, 0, Op::Deliver { ev: rot_ev });
                    gn.queue.push_back(st);
                    w.probe("id_squatting_story_scripted");
                    return Some(rot);
                }
            }
            if gn.rng().chance(1, 5) && !w.welcomes.is_empty() {
                let i = gn.rng().below(w.welcomes.len() as u64) as usize;
                HostileOp::RewrappedWelcome { w: w.welcomes[i].origin, seed }
            } else {
                HostileOp::HostileWelcome { victim, mode: gn.rng().below(10) as u8, g, seed }
            }
        }
    };
    Some(gn.mk(w, node, 0, Op::Hostile(op)))
}

pub fn install(g: &mut Gen) {
    g.hostile_hook = Some(hook);
    g.cfg.weights.hostile = g.cfg.weights.hostile.max(4);
}
