//! C08 — the stored group record mirrors the MLS state and routes events to it.

use std::collections::BTreeSet;

use crate::driver::*;
use crate::genr::*;
use crate::run::Oracle;
use crate::with_mdk;
use crate::world::*;

#[derive(Default)]
pub struct C08 {
    pub guarded: bool,
    nontrivial: bool,
}

impl Oracle for C08 {
    fn after_step(&mut self, w: &mut World, rec: &StepRecord) {
        let node = rec.step.node;
        if node >= w.nodes.len() || w.nodes[node].mdk.is_none() {
            return;
        }
        let mut viols: Vec<(&str, String, Option<String>)> = vec![];
        let groups: Vec<(usize, String)> = (0..w.groups.len()).map(|g| (g, w.gid_hex(g))).collect();
        for (g, gk) in &groups {
            let Some(gv) = w.views[node].groups.get(gk) else { continue };
            let Some(r) = &gv.record else { continue };
            if r.state != "active" {
                continue;
            }
            let Some(m) = &gv.mls else {
                viols.push(("active-without-mls-state", format!("g{g} n{node}: record active but MLS group does not load ({:?})", gv.mls_err), None));
                continue;
            };
            let mut diffs = vec![];
            if r.epoch != m.epoch { diffs.push(format!("epoch {} vs MLS {}", r.epoch, m.epoch)); }
            if r.name != m.ext_name { diffs.push(format!("name {:?} vs {:?}", r.name, m.ext_name)); }
            if r.description != m.ext_description { diffs.push("description".into()); }
            if r.admins != m.ext_admins { diffs.push(format!("admins {:?} vs {:?}", r.admins, m.ext_admins)); }
            if r.nostr_group_id != m.ext_nostr_group_id { diffs.push(format!("nostr_group_id {} vs {}", &r.nostr_group_id[..8], &m.ext_nostr_group_id[..8])); }
            if r.image_hash != m.ext_image_hash { diffs.push("image_hash".into()); }
            if r.image_key != m.ext_image_key { diffs.push("image_key".into()); }
            if r.image_nonce != m.ext_image_nonce { diffs.push("image_nonce".into()); }
            let mut a = gv.relays.clone();
            a.sort();
            let mut b = m.ext_relays.clone();
            b.sort();
            if a != b { diffs.push(format!("relays {:?} vs {:?}", a, b)); }
            if !diffs.is_empty() {
                let known = if self.guarded { None } else { known_mirror(w, rec, *g) };
                viols.push(("record-differs-from-mls", format!("after step #{} ({}) g{g} n{node}: {}", rec.step.id, crate::run::op_short(&rec.step.op), diffs.join(", ")), known));
            }
            // lookup by the id in force returns this group, and only this group
            let mut id = [0u8; 32];
            if hex::decode_to_slice(&m.ext_nostr_group_id, &mut id).is_ok() {
                let found = with_mdk!(w.nodes[node].mdk(), x => {
                    use mdk_storage_traits::groups::GroupStorage;
                    use openmls_traits::OpenMlsProvider;
                    x.provider.storage().find_group_by_nostr_group_id(&id).ok().flatten().map(|gr| hex::encode(gr.mls_group_id.as_slice()))
                });
                if found.as_deref() != Some(gk.as_str()) {
                    viols.push(("lookup-by-current-id", format!("g{g} n{node}: lookup of the Nostr id in force returns {:?}", found.map(|f| f[..8].to_string())), None));
                }
            }
        }
        // routing of a delivered event
        if let Op::Deliver { ev } = &rec.step.op {
            if let Some(pe) = w.ev(*ev).cloned() {
                let was_active = w.prev_view.groups.get(&w.gid_hex(pe.g)).and_then(|v| v.record.as_ref()).map(|r| r.state == "active").unwrap_or(false);
                if was_active && rec.class == "err" && rec.outcome.contains("group not found") && pe.kind != EvKind::Hostile {
                    let known = if self.guarded { None } else { Some("KF-C08-1".to_string()) };
                    viols.push(("unroutable", format!("g{} n{node}: event {:?} ({}, created at epoch {}) tagged with the id in force at its creation is answered 'group not found'", pe.g, ev, pe.desc, pe.epoch), known));
                }
                // never processed against another group
                for (g2, gk2) in &groups {
                    if *g2 == pe.g {
                        continue;
                    }
                    let before = w.prev_view.groups.get(gk2);
                    let after = w.views[node].groups.get(gk2);
                    if before != after {
                        viols.push(("cross-group-effect", format!("n{node}: delivering an event of g{} changed g{g2}", pe.g), None));
                    }
                }
                if rec.rollback || pe.desc == "update4" {
                    self.nontrivial = true;
                }
            }
        }
        if matches!(rec.step.op, Op::Restart) {
            self.nontrivial = true;
        }
        for (clause, detail, known) in viols {
            w.violations.push(Violation { property: "C08".into(), clause: clause.into(), step: Some(rec.step.id), node: Some(node), detail, known });
        }
    }

    fn nontrivial(&self, _w: &World) -> bool {
        self.nontrivial
    }
}

pub fn known_mirror(_w: &World, _rec: &StepRecord, _g: usize) -> Option<String> {
    None
}

fn mk(cfg: &RunCfg) -> Box<dyn Oracle> {
    Box::new(C08 { guarded: cfg.guards.contains("guarded"), ..Default::default() })
}

fn more_rotation(g: &mut Gen) {
    if !g.cfg.guards.contains("no_rotation") {
        g.cfg.weights.rotate = 3;
    }
    g.oversize_data = true;
    // in a third of the runs invitations stay pending for a while (removed and re-invited
    // meanwhile: two pending invitations with different group data)
    g.slow_accept = g.cfg.seed % 3 == 0;
    if g.slow_accept {
        g.cfg.weights.invite += 3;
        g.cfg.weights.remove += 2;
    }
}

pub fn spec() -> CheckSpec {
    let mut guards = BTreeSet::new();
    for g in ["guarded", "no_rotation"] {
        guards.insert(g.to_string());
    }
    let base = Profile { second_group: true, ..Default::default() };
    CheckSpec {
        id: "C08",
        level: "exploration",
        rule: "C01 worlds with a second group sharing members, id rotations, relay/admin/image updates, merges/clears, rollbacks, restarts; after every API call: stored record and relays of every active group equal load_mls_group + NostrGroupDataExtension, lookup by the id in force returns this group, a delivered event is never answered 'group not found' by an active member and never changes another group; non-trivial = id rotation, rollback or restart between an epoch change and the next lookup; distinct = delivery signature",
        variants: vec![
            Variant { name: "mem", profile: Profile { backend: BackendMix::Memory, ..base.clone() }, runs_quick: 300, runs_thorough: 15000, oracle: mk, guarded: false, configure_gen: Some(more_rotation), post: None, custom: None },
            Variant { name: "mixed-restart", profile: Profile { backend: BackendMix::Mixed, allow_restart: true, ..base.clone() }, runs_quick: 120, runs_thorough: 6000, oracle: mk, guarded: false, configure_gen: Some(more_rotation), post: None, custom: None },
            Variant { name: "mixed-guarded", profile: Profile { backend: BackendMix::Mixed, allow_restart: true, guards: guards.clone(), ..base.clone() }, runs_quick: 120, runs_thorough: 6000, oracle: mk, guarded: true, configure_gen: None, post: None, custom: None },
        ],
        assumptions: vec!["honest members only"],
        real: super::REAL.to_vec(),
        stubs: super::STUBS.to_vec(),
    }
}
