//! C10 — memory and SQLite backends are observably the same store (and both agree with a plain
//! reference model of the contract). Also hosts the shared storediff runner.

use std::collections::{BTreeMap, BTreeSet};

use serde_json::Value;

use crate::driver::*;
use crate::genr::*;
use crate::hostile::HostileOp;
use crate::rng::Rng;
use crate::run::{fresh_dir, Oracle, RunOutput};
use crate::seam;
use crate::store::*;
use crate::world::*;

pub struct Nop;
impl Oracle for Nop {}
pub fn mk_nop(_cfg: &RunCfg) -> Box<dyn Oracle> {
    Box::new(Nop)
}

pub fn to_steps(ops: &[StOp]) -> Vec<Step> {
    ops.iter().enumerate().map(|(i, o)| Step { id: i as u32 + 1, node: 0, dt: 0, op: Op::Hostile(HostileOp::Store(o.clone())) }).collect()
}
pub fn from_steps(steps: &[Step]) -> Vec<(u32, StOp)> {
    steps.iter().filter_map(|s| if let Op::Hostile(HostileOp::Store(o)) = &s.op { Some((s.id, o.clone())) } else { None }).collect()
}

pub fn short(v: &Value) -> String {
    let s = v.to_string();
    if s.len() > 300 { format!("{}…({} bytes)", &s[..300], s.len()) } else { s }
}

pub fn empty_output(cfg: &RunCfg) -> RunOutput {
    RunOutput {
        cfg: cfg.clone(),
        steps: vec![],
        log: vec![],
        violations: vec![],
        probes: BTreeMap::new(),
        faults: BTreeMap::new(),
        signature: String::new(),
        nontrivial: false,
        sim_time: 0,
        n_steps: 0,
        passes: 0,
        quiesced: true,
        transitions: vec![],
        harness_error: None,
    }
}

fn op_name(o: &StOp) -> String {
    let d = format!("{o:?}");
    d.split(|c| c == ' ' || c == '{').next().unwrap_or("").to_string()
}

pub fn run(cfg: &RunCfg, replay: Option<&[Step]>) -> RunOutput {
    let mut out = empty_output(cfg);
    let mut r = Rng::new(cfg.seed).fork(77);
    let ops: Vec<(u32, StOp)> = match replay {
        Some(s) => from_steps(s),
        None => gen_ops(&mut r, cfg.steps, false, false).into_iter().enumerate().map(|(i, o)| (i as u32 + 1, o)).collect(),
    };
    out.steps = ops.iter().map(|(i, o)| Step { id: *i, node: 0, dt: 0, op: Op::Hostile(HostileOp::Store(o.clone())) }).collect();
    let mem = new_memory();
    let dir = fresh_dir();
    let mut sql = SqlHolder::new(dir.clone());
    let mut model = Model::default();
    let mut now = T0;
    let mut sig = vec![];
    let (mut overwrite, mut tie, mut reuse) = (false, false, false);
    let mut saved: BTreeMap<(u8, u8), (u8, u8)> = BTreeMap::new();
    for (i, op) in &ops {
        seam::set_time(now);
        match op {
            StOp::Tick { dt } => {
                now += *dt as u64;
                out.sim_time += *dt as u64;
            }
            StOp::Reopen => {
                sql.reopen();
                *out.faults.entry("reopen".into()).or_insert(0) += 1;
            }
            StOp::SaveMessage { g, id, ca, pa, .. } => {
                if saved.contains_key(&(*g, *id)) {
                    overwrite = true;
                }
                if saved.iter().any(|((gg, ii), t)| gg == g && ii != id && TS_POOL[(t.0 % 5) as usize] == TS_POOL[(*ca % 5) as usize] && TS_POOL[(t.1 % 5) as usize] == TS_POOL[(*pa % 5) as usize]) {
                    tie = true;
                }
                if saved.keys().any(|(gg, ii)| gg != g && ii == id) {
                    reuse = true;
                }
                saved.insert((*g, *id), (*ca, *pa));
            }
            _ => {}
        }
        if let StOp::Snapshot { g, .. } = op {
            if !model.groups.contains_key(g) {
                out.log.push(format!("#{i} {op:?} -> skipped (snapshot of a group that does not exist is outside the contract)"));
                continue;
            }
        }
        let a = apply(&mem, op, now);
        let b = apply(sql.s(), op, now);
        let m = model.apply(op, now);
        out.log.push(format!("#{i} {op:?} -> mem {} | sqlite {} | model {}", short(&a), short(&b), m.as_ref().map(short).unwrap_or_else(|| "<open>".into())));
        sig.push(format!("{}:{}", op_name(op), if a == "err" { "e" } else { "o" }));
        out.transitions.push(format!("{}:{}", op_name(op), if a == "err" { "err" } else { "ok" }));
        let mut v = None;
        if m.is_none() && matches!(op, StOp::EpochByTag { .. }) {
            // several stored messages match: the contract does not say which one is returned
        } else if a != b {
            v = Some(("backends-differ", format!("op #{i} {op:?}: memory {} vs sqlite {}", short(&a), short(&b))));
        } else if let Some(m) = m {
            if m != a {
                v = Some(("differs-from-model", format!("op #{i} {op:?}: both backends {} vs model {}", short(&a), short(&m))));
            }
        }
        if let Some((clause, detail)) = v {
            out.violations.push(Violation { property: "C10".into(), clause: clause.into(), step: Some(*i), node: None, detail, known: None });
            break;
        }
    }
    out.n_steps = ops.len();
    out.transitions.sort();
    out.transitions.dedup();
    out.signature = crate::node::h8(sig.join(",").as_bytes());
    out.nontrivial = overwrite && tie && reuse;
    drop(sql);
    let _ = std::fs::remove_dir_all(&dir);
    out
}

pub fn spec() -> CheckSpec {
    let p = Profile { steps_lo: 30, steps_hi: 70, ..Default::default() };
    CheckSpec {
        id: "C10",
        level: "exploration",
        rule: "seeded operation sequences (30-70 ops) over every group, message, processed-message, welcome, exporter-secret, relay and snapshot method with small key pools (4 groups, 5 Nostr ids, 8 message ids, 8 wrapper ids, 5 timestamps with ties, epochs 0-4/None), all pagination/sort triples incl. 0, 1, MAX, MAX+1 and offsets beyond the end, reopen of the SQLite file and clock ticks as further operations; each call is executed on the memory backend, the SQLite backend and a reference model and the three canonical results must be equal (error wording ignored); non-trivial = sequence contains an overwrite, a timestamp tie and a cross-group id reuse; distinct = hash of the (operation, ok/err) sequence",
        variants: vec![Variant { name: "three-way", profile: p, runs_quick: 3000, runs_thorough: 200000, oracle: mk_nop, guarded: false, configure_gen: None, post: None, custom: Some(run) }],
        assumptions: vec!["inputs within both backends' documented validation limits", "a rollback that would restore a Nostr group id meanwhile taken by another group is not issued", "create_group_snapshot is only issued for groups that exist (memory keeps an empty snapshot, SQLite has nothing to store)", "unordered results (all_groups, find_invalidated_*, retry lists) compared as sets", "find_message_epoch_by_tag_content only compared when the match is unique"],
        real: vec!["mdk-memory-storage", "mdk-sqlite-storage (bundled SQLite on tmpfs)", "mdk-storage-traits"],
        stubs: vec!["wall clock (interposed clock_gettime)", "reference model of the storage contract (oracle only)"],
    }
}

#[allow(dead_code)]
fn _unused(_: BTreeSet<u8>) {}
