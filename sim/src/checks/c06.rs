//! C06 — hostile or malformed input never panics and a refused event has no effect.

use std::collections::BTreeSet;

use crate::checks::c07::{restricted, restricted_group};
use crate::driver::*;
use crate::genr::*;
use crate::run::Oracle;
use crate::world::*;

#[derive(Default)]
pub struct C06 {
    guarded: bool,
    inner_reached: bool,
}

impl Oracle for C06 {
    fn after_step(&mut self, w: &mut World, rec: &StepRecord) {
        let node = rec.step.node;
        if node >= w.views.len() {
            return;
        }
        let refused_delivery = matches!(rec.step.op, Op::Deliver { .. }) && is_refusal(&rec.class);
        let refused_welcome = matches!(rec.step.op, Op::ProcessWelcome { .. }) && rec.class == "err";
        let refused_kp = matches!(rec.step.op, Op::Hostile(crate::hostile::HostileOp::HostileKeyPackage { .. })) && rec.class == "err";
        if refused_kp {
            w.probe("hostile_key_package_refused");
        }
        if !(refused_delivery || refused_welcome || refused_kp) {
            return;
        }
        if let Op::Deliver { ev } = &rec.step.op {
            if let Some(pe) = w.ev(*ev) {
                if pe.kind == EvKind::Hostile {
                    w.probe("hostile_event_refused");
                    if rec.class == "unprocessable" || rec.outcome.contains("non-admin") || rec.outcome.contains("identity") {
                        self.inner_reached = true;
                        w.probe("hostile_event_reached_inner_layers");
                    }
                }
            }
        }
        let before = restricted(&w.prev_view);
        let after = restricted(&w.views[node]);
        if before != after {
            let mut what = vec![];
            for (k, gv) in &w.views[node].groups {
                match w.prev_view.groups.get(k) {
                    Some(pg) => {
                        let (a, b) = (restricted_group(pg), restricted_group(gv));
                        for key in ["epoch", "authenticator", "members", "ext", "pending_proposals", "pending_commit", "record_epoch", "messages"] {
                            if a[key] != b[key] {
                                what.push(format!("{}:{key}: {} -> {}", &k[..6], a[key].to_string().chars().take(160).collect::<String>(), b[key].to_string().chars().take(160).collect::<String>()));
                            }
                        }
                    }
                    None => what.push(format!("group {} appeared", &k[..6])),
                }
            }
            let desc = match &rec.step.op {
                Op::Deliver { ev } => w.ev(*ev).map(|p| p.desc.clone()).unwrap_or_default(),
                Op::Hostile(_) => "damaged key package".into(),
                _ => "welcome".into(),
            };
            let known = if self.guarded { None } else { known_trigger(w, rec) };
            w.violations.push(Violation {
                property: "C06".into(),
                clause: "refused-event-had-an-effect".into(),
                step: Some(rec.step.id),
                node: Some(node),
                detail: format!("n{node} answered {} to [{}] but its state changed: {}", rec.outcome.chars().take(80).collect::<String>(), desc, what.join("; ")),
                known,
            });
        }
    }
    fn nontrivial(&self, _w: &World) -> bool {
        self.inner_reached
    }
}

pub fn known_trigger(w: &World, rec: &StepRecord) -> Option<String> {
    // KF-C06-1 (same root cause as KF-C01-6): the receiver rolled back for a "better" commit
    // candidate and then refused it
    if rec.rollback && is_refusal(&rec.class) {
        return Some("KF-C06-1".into());
    }
    let _ = w;
    None
}

fn mk(cfg: &RunCfg) -> Box<dyn Oracle> {
    Box::new(C06 { guarded: cfg.guards.contains("guarded"), ..Default::default() })
}

fn conf(g: &mut Gen) {
    super::byz::install(g);
    g.cfg.weights.hostile += 4;
    g.oversize_data = true;
}

pub fn spec() -> CheckSpec {
    let mut guards = BTreeSet::new();
    for g in ["h_garbage", "h_outer", "h_commit", "h_proposal", "h_welcome", "h_rumor", "h_rewrap", "h_keypackage"] {
        guards.insert(g.to_string());
    }
    let base = Profile { second_group: true, guards, hostile: 6, ..Default::default() };
    CheckSpec {
        id: "C06",
        level: "exploration",
        rule: "running worlds (so every group state occurs: idle, pending commit, pending proposals, inactive, mid-race) into which hostile events are injected: in-transit damage of valid wrappers (content byte, kind, timestamps far in the future / past, 0 or 2 h tags, short / non-hex h, truncation, other group's h tag), inner-layer garbage correctly NIP-44-wrapped under the real exporter secret by a member (random bytes, bit-flipped / truncated / extended real MLS messages), unauthorised commits and proposals built with openmls, forged rumors, re-wrapped ciphertexts, hostile and malformed welcomes; catch_unwind around every call (a panic is a violation), and whenever processing reports failure (Err, Unprocessable, PreviouslyFailed, IgnoredProposal, welcome Err) the restricted fingerprint of every group (epoch, authenticator, members, group data, record, pending proposals/commit, messages) equals its value before the call; non-trivial = a hostile event got past the outer layer; distinct = delivery signature; variant binding-strings: every exported function of mdk-uniffi called with values the session produced, damaged variants (character-boundary truncation, multi-byte insertion, JSON leaves replaced by other types, keys removed, values of another kind) and hostile strings: no call panics; process_message / process_welcome answered InvalidInput leave every table of the database unchanged, answered another error leave everything the bindings expose unchanged",
        variants: vec![
            Variant { name: "mem", profile: Profile { backend: BackendMix::Memory, ..base.clone() }, runs_quick: 400, runs_thorough: 20000, oracle: mk, guarded: false, configure_gen: Some(conf), post: None, custom: None },
            Variant { name: "mixed", profile: Profile { backend: BackendMix::Mixed, allow_restart: true, ..base.clone() }, runs_quick: 120, runs_thorough: 6000, oracle: mk, guarded: false, configure_gen: Some(conf), post: None, custom: None },
            Variant { name: "mixed-small-retention", profile: Profile { backend: BackendMix::Mixed, retention: Some((0, 2)), ..base.clone() }, runs_quick: 120, runs_thorough: 6000, oracle: mk, guarded: false, configure_gen: Some(conf), post: None, custom: None },
            Variant { name: "binding-strings", profile: Profile { backend: BackendMix::Sqlite, steps_lo: 30, steps_hi: 70, ..base.clone() }, runs_quick: 200, runs_thorough: 20000, oracle: super::c10::mk_nop, guarded: false, configure_gen: None, post: None, custom: Some(super::bind::run) },
        ],
        assumptions: vec!["binding layer: three mdk-uniffi instances on unencrypted SQLite files play a session through the exported functions only; the callback interface and the keyring constructor are not exercised", "failure records in processed_messages / processed_welcomes may appear"],
        real: {
            let mut r = super::REAL.to_vec();
            r.push("mdk-uniffi (exported functions called directly from Rust; variant binding-strings)");
            r
        },
        stubs: super::STUBS.to_vec(),
    }
}
