//! C17 — media encryption round-trips across epochs, is tamper-evident, and is for members only.

use std::collections::BTreeSet;

use crate::driver::*;
use crate::genr::*;
use crate::run::Oracle;
use crate::world::*;

#[derive(Default)]
pub struct C17 {
    later_epoch: bool,
    gimage_ok: bool,
}

impl Oracle for C17 {
    fn after_step(&mut self, w: &mut World, rec: &StepRecord) {
        if let Op::GroupImageDownload { g, tamper, .. } = &rec.step.op {
            if rec.class != "gimage_ok" && rec.class != "gimage_err" {
                return;
            }
            let node = rec.step.node;
            w.probe("group_image_download");
            let ok = rec.class == "gimage_ok";
            let equal = rec.outcome.contains("equal=true");
            let mut v: Vec<(&str, String)> = vec![];
            if ok && !equal {
                v.push(("group-image-decrypted-to-different-bytes", format!("g{g} n{node}: {}", rec.outcome)));
            }
            if *tamper != 0 {
                w.probe("group_image_tampered_download");
                if ok {
                    v.push(("tampered-group-image-accepted", format!("g{g} n{node}: {}", rec.outcome)));
                }
            } else if !ok {
                // the record names a blob that was uploaded with exactly these parameters
                v.push(("group-image-does-not-decrypt-with-published-parameters", format!("g{g} n{node}: {}", rec.outcome)));
            } else {
                self.gimage_ok = true;
            }
            for (clause, detail) in v {
                w.violations.push(Violation { property: "C17".into(), clause: clause.into(), step: Some(rec.step.id), node: Some(node), detail, known: None });
            }
            return;
        }
        let Op::MediaDownload { msg, tamper, .. } = &rec.step.op else { return };
        if rec.class != "media_ok" && rec.class != "media_err" {
            return;
        }
        let node = rec.step.node;
        let Some(l) = w.ledger.iter().find(|l| l.origin == *msg).cloned() else { return };
        let pk = w.nodes[node].pubkey().to_hex();
        // the epoch that counts is the one the file was encrypted in (an upload takes time: the
        // announcing message may have been created some commits later)
        let (enc_epoch, enc_state) = w.media_enc_state.get(msg).cloned().unwrap_or((l.epoch, l.state.clone()));
        let slow_upload = w.media_enc_state.contains_key(msg);
        let member_of_epoch = w.state_info.get(&enc_state).map(|s| s.members.contains(&pk)).unwrap_or(false);
        let stored_valid = rec.outcome.contains("stored=processed") || rec.outcome.contains("stored=created");
        let ok = rec.class == "media_ok";
        let equal = rec.outcome.contains("equal=true");
        let cur_epoch = w.node_state(node, l.g).map(|s| s.0).unwrap_or(0);
        let mut viols: Vec<(&str, String)> = vec![];
        let mut kf: Option<String> = None;
        if ok && !equal {
            viols.push(("decryption-returned-different-bytes", format!("n{node}: {}", rec.outcome)));
        }
        if *tamper != 0 {
            w.probe("tampered_download");
            if ok {
                viols.push(("tamper-not-detected", format!("n{node}: tamper kind {tamper} on media of {:?}: {}", msg, rec.outcome)));
            }
        } else {
            if ok && !member_of_epoch {
                viols.push(("non-member-of-the-epoch-decrypted", format!("n{node} was not a member of the state the file was encrypted in (epoch {}): {}", enc_epoch, rec.outcome)));
            }
            // the imeta tag does not name the encrypting epoch: the library searches backwards
            // from the announcing message's epoch, as far as the past-epoch window (never less
            // than 5). An upload that took more commits than that is outside what it can find.
            let window = (w.nodes[node].cfg.max_past_epochs as u64).max(5);
            let lag_ok = l.epoch.saturating_sub(enc_epoch) <= window;
            if member_of_epoch && stored_valid && !lag_ok {
                w.probe("upload_took_more_epochs_than_the_window");
            }
            // "member of that epoch": the client stood in the very state the file was encrypted
            // in (a file encrypted on a branch that lost a commit race, and announced after the
            // rollback, was encrypted for the members of a state the others never entered)
            let stood_there = !slow_upload || {
                // ... and has not been rolled back out of it since: a state that lost a commit
                // race is gone, with its exporter secret (stored per epoch number)
                let mut on_chain = false;
                for r in w.history.iter().filter(|r| r.step.node == node) {
                    let pre = r.pre_state.get(&l.g);
                    let post = r.post_state.get(&l.g);
                    if pre.map(|s| s.1 == enc_state).unwrap_or(false) || post.map(|s| s.1 == enc_state).unwrap_or(false) {
                        on_chain = true;
                    }
                    if r.rollback && post.map(|s| s.1 != enc_state && s.0 <= enc_epoch.max(1)).unwrap_or(false) {
                        on_chain = false;
                    }
                    if r.rollback && pre.map(|s| s.1 == enc_state).unwrap_or(false) && post.map(|s| s.1 != enc_state).unwrap_or(true) {
                        on_chain = false;
                    }
                }
                on_chain
            };
            if member_of_epoch && stored_valid && lag_ok && stood_there {
                if slow_upload {
                    w.probe("decrypt_attempt_of_a_file_announced_after_a_commit");
                }
                if cur_epoch > l.epoch {
                    self.later_epoch = true;
                    w.probe("decrypt_attempt_at_later_epoch");
                }
                if !ok {
                    // (KF-C17-1, epoch hint by content hash, was repaired upstream: lookup by nonce)
                    // KF-C17-2 (same root cause as KF-C02-2 / KF-C20-1): after it stored the
                    // announcing message the client accepted another invitation for the same
                    // group; its MLS state and the exporter secret of that epoch number were
                    // replaced by those of the other branch
                    let stored_at = w.history.iter().position(|r| {
                        r.step.node == node && (r.step.id == l.origin.0 || (matches!(&r.step.op, Op::Deliver { ev } if *ev == l.origin) && r.outcome.starts_with("App(")))
                    });
                    let accepts: Vec<usize> = w
                        .history
                        .iter()
                        .enumerate()
                        .filter(|(_, r)| r.step.node == node && r.class == "ok" && matches!(&r.step.op, Op::AcceptWelcome { w: wr } if w.w_index.get(wr).map(|i| w.welcomes[*i].g == l.g).unwrap_or(false)))
                        .map(|(i, _)| i)
                        .collect();
                    if kf.is_none() && accepts.len() >= 2 && stored_at.map(|s| accepts.iter().any(|a| *a > s)).unwrap_or(false) {
                        kf = Some("KF-C17-2".to_string());
                    }
                    viols.push(("member-of-the-epoch-cannot-decrypt", format!("n{node} (member of the encrypting epoch {enc_epoch}, announced in epoch {}, now at epoch {cur_epoch}, announcing message stored and valid): {}", l.epoch, rec.outcome)));
                }
            }
        }
        for (clause, detail) in viols {
            let known = if clause == "member-of-the-epoch-cannot-decrypt" { kf.clone() } else { None };
            w.violations.push(Violation { property: "C17".into(), clause: clause.into(), step: Some(rec.step.id), node: Some(node), detail, known });
        }
    }
    fn nontrivial(&self, _w: &World) -> bool {
        self.later_epoch || self.gimage_ok
    }
}

fn mk(_cfg: &RunCfg) -> Box<dyn Oracle> {
    Box::new(C17::default())
}

fn media_hook(gn: &mut Gen, w: &mut World) -> Option<Step> {
    if !w.group_blobs.is_empty() && gn.rng().chance(1, 2) {
        let g = gn.rng().below(w.groups.len().max(1) as u64) as usize;
        let holders: Vec<usize> = (0..w.nodes.len()).filter(|n| w.gview(*n, g).is_some()).collect();
        let node = if holders.is_empty() || gn.rng().chance(1, 6) { gn.rng().below(w.nodes.len() as u64) as usize } else { holders[gn.rng().below(holders.len() as u64) as usize] };
        let tamper = if gn.rng().chance(1, 2) { 0 } else { 1 + gn.rng().below(5) as u8 };
        let seed = gn.rng().next() as u32;
        return Some(gn.mk(w, node, 0, Op::GroupImageDownload { g, tamper, seed }));
    }
    // story: a file encrypted one commit before it is announced is downloaded many epochs later
    if !w.groups.is_empty() && !w.probes.contains_key("slow_upload_then_many_epochs_story") && gn.rng().chance(1, 8) {
        let g = 0usize;
        let members: Vec<usize> = (0..w.nodes.len()).filter(|n| w.is_active_member(*n, g)).collect();
        let admins: Vec<usize> = members.iter().copied().filter(|m| w.is_admin(*m, g)).collect();
        let same = members.iter().map(|m| w.node_state(*m, g)).collect::<std::collections::BTreeSet<_>>().len() == 1;
        if members.len() >= 2 && same && !admins.is_empty() && members.iter().all(|m| !w.has_pending_commit(*m, g)) {
            let a = admins[0];
            let x = *gn.rng().pick(&members)?;
            let first = gn.mk(w, x, 0, Op::MediaEncrypt { g, tag: 7000 + gn.emitted as u32 });
            let mut q: Vec<Step> = vec![];
            let commit_round = |gn: &mut Gen, w: &mut World, q: &mut Vec<Step>, i: u32| {
                let up = gn.mk(w, a, 1, Op::UpdateData { g, variant: (i % 2) as u8, arg: 900 + i });
                let c = EvRef(up.id, 0);
                q.push(up);
                q.push(gn.mk(w, a, 0, Op::MergePending { g }));
                for m in members.iter().filter(|m| **m != a) {
                    q.push(gn.mk(w, *m, 0, Op::Deliver { ev: c }));
                }
            };
            commit_round(gn, w, &mut q, 0);
            let ann = gn.mk(w, x, 0, Op::SendMsg { g, tag: 7001 + gn.emitted as u32, ts_back: 0, kind: 9, imeta: false });
            let msg = EvRef(ann.id, 0);
            q.push(ann);
            for m in members.iter().filter(|m| **m != x) {
                q.push(gn.mk(w, *m, 0, Op::Deliver { ev: msg }));
            }
            let k = 5 + gn.rng().below(3) as u32;
            for i in 1..=k {
                commit_round(gn, w, &mut q, i);
            }
            for m in &members {
                let seed = gn.rng().next() as u32;
                q.push(gn.mk(w, *m, 0, Op::MediaDownload { msg, tamper: 0, seed }));
            }
            for st in q {
                gn.queue.push_back(st);
            }
            w.probe("slow_upload_then_many_epochs_story");
            return Some(first);
        }
    }
    // slow upload: encrypt now, announce with the client's next message
    if !w.groups.is_empty() && gn.rng().chance(1, 5) {
        let g = gn.rng().below(w.groups.len() as u64) as usize;
        let members: Vec<usize> = (0..w.nodes.len()).filter(|n| w.is_active_member(*n, g)).collect();
        if let Some(node) = gn.rng().pick(&members).copied() {
            let tag = 5000 + gn.emitted as u32;
            return Some(gn.mk(w, node, 0, Op::MediaEncrypt { g, tag }));
        }
    }
    let media: Vec<EvRef> = w.blobs.keys().copied().collect();
    if media.is_empty() {
        return None;
    }
    let m = media[gn.rng().below(media.len() as u64) as usize];
    let node = gn.rng().below(w.nodes.len() as u64) as usize;
    let tamper = if gn.rng().chance(1, 2) { 0 } else { 1 + gn.rng().below(9) as u8 };
    let seed = gn.rng().next() as u32;
    Some(gn.mk(w, node, 0, Op::MediaDownload { msg: m, tamper, seed }))
}

fn conf(g: &mut Gen) {
    g.media = true;
    g.hostile_hook = Some(media_hook);
    g.cfg.weights.hostile = 5;
    g.cfg.weights.msg += 4;
    g.cfg.weights.commit += 1;
    g.cfg.weights.remove += 1;
    g.cfg.weights.invite += 1;
}

pub fn spec() -> CheckSpec {
    let base = Profile { msg_heavy: true, min_nodes: 3, steps_lo: 40, steps_hi: 90, hostile: 5, ..Default::default() };
    CheckSpec {
        id: "C17",
        level: "exploration",
        rule: "worlds in which senders encrypt payloads (0 B, 1 B, 31 B, 1 KiB, 70 KB; text/plain, application/pdf, audio/mpeg, video/mp4 and seeded valid PNG / JPEG / GIF / WebP images, which the library validates against the bytes and re-encodes; distinct file names) with EncryptedMediaManager, store the ciphertext in a simulated blob store and announce it with an imeta message; 0..n commits later - with the announcing message processed before or after those commits, after rollbacks, restarts, evictions and joins - every member, ex-member and later joiner downloads and decrypts, with a seeded fault on half of the downloads (nonce bit, file name prefix / letter case / trailing blank, MIME type swapped, content hash, scheme version suffix in the reference; bit flip or truncation of the blob; other spellings of the SAME value - hex case, MIME case, a lengthened nonce field - are deliberately not counted as tampering); oracle: a member of the sending epoch that holds the announcing message obtains exactly the original bytes at any later epoch, a client that was not a member of that epoch obtains nothing, any tamper yields an error, never different bytes; non-trivial = a decryption attempted at a later epoch than the encryption; distinct = delivery signature. The universal (all positions / all payloads) tamper-evidence and key-separation clauses are statements about a pure function and are only exercised as far as these runs reach (DESIGN.md §9); group images: admins encrypt seeded images (current seed format and the legacy direct-key format) and publish hash / key / nonce with a group-data commit; any client holding the group decrypts the blob named by its OWN stored record - it must obtain the uploader's bytes, and a flipped bit in blob, key or nonce, a truncated blob, or a damaged blob offered without the expected hash must fail",
        variants: vec![
            Variant { name: "mem", profile: Profile { backend: BackendMix::Memory, ..base.clone() }, runs_quick: 300, runs_thorough: 15000, oracle: mk, guarded: false, configure_gen: Some(conf), post: None, custom: None },
            Variant { name: "mixed", profile: Profile { backend: BackendMix::Mixed, allow_restart: true, ..base.clone() }, runs_quick: 100, runs_thorough: 5000, oracle: mk, guarded: false, configure_gen: Some(conf), post: None, custom: None },
        ],
        assumptions: vec!["for image families the reference plaintext is what the sender itself decrypts (the library re-encodes images)", "the blob store is a map; its faults are bit flips and truncation"],
        real: super::REAL.to_vec(),
        stubs: vec!["Blossom blob server (map with bit-flip / truncation faults)", "relay/app layer", "wall clock", "entropy"],
    }
}

#[allow(dead_code)]
fn _u(_: BTreeSet<u8>) {}
