//! C13 — encrypted databases leak nothing at rest and only open with their key.

use std::collections::{BTreeMap, BTreeSet, HashMap};
use std::os::unix::fs::PermissionsExt;
use std::path::Path;

use base64::Engine;
use mdk_sqlite_storage::{EncryptionConfig, MdkSqliteStorage};
use mdk_storage_traits::groups::GroupStorage;
use mdk_storage_traits::messages::MessageStorage;
use openmls_traits::OpenMlsProvider;

use crate::checks::c10::{empty_output, mk_nop};
use crate::driver::*;
use crate::genr::*;
use crate::node::BackendKind;
use crate::run::{fresh_dir, Oracle, RunOutput};
use crate::store::*;
use crate::with_mdk;
use crate::world::*;

/// multi-needle byte scanner keyed on 8-byte prefixes
#[derive(Default)]
pub struct Scanner {
    by_prefix: HashMap<[u8; 8], Vec<(Vec<u8>, String)>>,
    seen: BTreeSet<Vec<u8>>,
}

impl Scanner {
    pub fn add(&mut self, what: &str, needle: &[u8]) {
        if needle.len() < 8 || !self.seen.insert(needle.to_vec()) {
            return;
        }
        let mut p = [0u8; 8];
        p.copy_from_slice(&needle[..8]);
        self.by_prefix.entry(p).or_default().push((needle.to_vec(), what.to_string()));
    }
    pub fn add_all_encodings(&mut self, what: &str, raw: &[u8]) {
        self.add(&format!("{what} (raw bytes)"), raw);
        self.add(&format!("{what} (hex)"), hex::encode(raw).as_bytes());
        self.add(&format!("{what} (HEX)"), hex::encode(raw).to_uppercase().as_bytes());
        self.add(&format!("{what} (base64)"), base64::engine::general_purpose::STANDARD.encode(raw).as_bytes());
    }
    pub fn scan(&self, hay: &[u8]) -> Option<String> {
        if hay.len() < 8 {
            return None;
        }
        for i in 0..=hay.len() - 8 {
            let mut p = [0u8; 8];
            p.copy_from_slice(&hay[i..i + 8]);
            if let Some(list) = self.by_prefix.get(&p) {
                for (n, what) in list {
                    if hay.len() - i >= n.len() && &hay[i..i + n.len()] == n.as_slice() {
                        return Some(what.clone());
                    }
                }
            }
        }
        None
    }
    pub fn len(&self) -> usize {
        self.seen.len()
    }
}

pub fn scan_dir(sc: &Scanner, dir: &Path) -> (Vec<String>, Vec<String>, u64) {
    let mut hits = vec![];
    let mut files = vec![];
    let mut bytes = 0;
    if let Ok(rd) = std::fs::read_dir(dir) {
        for e in rd.flatten() {
            let p = e.path();
            if !p.is_file() {
                continue;
            }
            let name = e.file_name().to_string_lossy().to_string();
            files.push(name.clone());
            if let Ok(b) = std::fs::read(&p) {
                bytes += b.len() as u64;
                if b.starts_with(b"SQLite format 3\0") {
                    hits.push(format!("{name}: plain SQLite header"));
                }
                if let Some(w) = sc.scan(&b) {
                    hits.push(format!("{name}: {w}"));
                }
            }
        }
    }
    (hits, files, bytes)
}

#[derive(Default)]
pub struct C13World {
    sc: Scanner,
    sidecar_seen: bool,
    scans: u64,
}

impl Oracle for C13World {
    fn after_step(&mut self, w: &mut World, rec: &StepRecord) {
        w.capture_sidecars = true;
        w.big_messages = true;
        let node = rec.step.node;
        if node >= w.nodes.len() || w.nodes[node].cfg.backend != BackendKind::SqliteCipher {
            return;
        }
        // canaries known to the simulator
        self.sc.add("group name", b"group-name-");
        self.sc.add("group description", b"group-description-");
        self.sc.add("group description", b"description-");
        self.sc.add("relay url", b"relay.sim.example");
        self.sc.add("message text", b"CANARY-");
        self.sc.add("message text", b"msg CANARY");
        let sens: Vec<String> = w.sensitive.iter().cloned().collect();
        for s in sens {
            if let Ok(b) = hex::decode(&s) {
                self.sc.add_all_encodings("group id / Nostr id / image key", &b);
            }
        }
        for n in 0..w.nodes.len() {
            let pk = w.nodes[n].pubkey();
            self.sc.add_all_encodings("member public key", &pk.to_bytes());
        }
        if w.nodes[node].mdk.is_some() {
            for g in 0..w.groups.len() {
                let Some(gid) = w.gid(g) else { continue };
                let top = w.node_state(node, g).map(|s| s.0).unwrap_or(0);
                for e in 0..=top {
                    let sec = with_mdk!(w.nodes[node].mdk(), m => m.provider.storage().get_group_exporter_secret(&gid, e).ok().flatten().map(|s| s.secret.as_ref().to_vec()));
                    if let Some(s) = sec {
                        self.sc.add_all_encodings("exporter secret", &s);
                    }
                }
            }
        }
        let dir = w.nodes[node].dir.clone();
        let (mut hits, files, _) = scan_dir(&self.sc, &dir);
        self.scans += 1;
        // what the directory held inside the open transactions of this call
        w.capture_sidecars = true;
        let caps = std::mem::take(&mut w.sidecar_captures);
        for (label, name, bytes) in &caps {
            self.scans += 1;
            w.probe("scan_inside_open_transaction");
            if name.ends_with("-journal") || name.ends_with("-wal") {
                self.sidecar_seen = true;
                w.probe(if bytes.len() > 512 { "scan_of_live_journal_with_pages" } else { "scan_of_live_journal_header_only" });
            }
            if bytes.starts_with(b"SQLite format 3\0") {
                hits.push(format!("{name} at {label}: plain SQLite header"));
            }
            if let Some(wh) = self.sc.scan(bytes) {
                hits.push(format!("{name} at {label}: {wh}"));
            }
        }
        if files.iter().any(|f| f.ends_with("-journal") || f.ends_with("-wal")) {
            self.sidecar_seen = true;
            w.probe("scan_while_journal_or_wal_present");
        }
        // permissions: main file 0600, no file group/other accessible
        for f in &files {
            if let Ok(md) = std::fs::metadata(dir.join(f)) {
                let mode = md.permissions().mode() & 0o777;
                if f == "mdk.sqlite" && mode != 0o600 {
                    w.violations.push(Violation { property: "C13".into(), clause: "database-file-mode".into(), step: Some(rec.step.id), node: Some(node), detail: format!("{f} has mode {mode:o}"), known: None });
                }
            }
        }
        if hits.iter().any(|h| h.contains("-journal at") || h.contains("-wal at")) {
            w.probe("hit_in_live_journal");
        }
        for h in hits.into_iter().take(1) {
            w.violations.push(Violation { property: "C13".into(), clause: "plaintext-at-rest".into(), step: Some(rec.step.id), node: Some(node), detail: format!("n{node} after #{} ({}): {h}", rec.step.id, crate::run::op_short(&rec.step.op)), known: None });
        }
    }
    fn at_end(&mut self, w: &mut World, _c: &RunCfg, _g: &Gen, _q: bool, _p: usize) {
        *w.probes.entry("directory_scans".into()).or_insert(0) += self.scans;
        *w.probes.entry("canary_needles".into()).or_insert(0) += self.sc.len() as u64;
    }
    fn nontrivial(&self, w: &World) -> bool {
        self.scans > 0 && w.probes.get("rollback").copied().unwrap_or(0) > 0
    }
}

fn mk_world(_cfg: &RunCfg) -> Box<dyn Oracle> {
    Box::new(C13World::default())
}

// ---- constructor x file-state matrix (exhausted) ----------------------------------------------

fn write_some(s: &MdkSqliteStorage) -> bool {
    s.save_group(mk_group(0, 0, 2, 1, 0, 1, None, 0, T0)).is_ok() && s.save_message(mk_message(0, 1, 0, 0, 1, Some(1), 3, 1, 1)).is_ok()
}
fn read_back(s: &MdkSqliteStorage) -> bool {
    use mdk_storage_traits::messages::MessageStorage;
    s.find_group_by_mls_group_id(&gid(0)).ok().flatten().is_some() && s.find_message_by_event_id(&gid(0), &event_id(1)).ok().flatten().map(|m| m.content == "content-3").unwrap_or(false)
}

static MATRIX_LOCK: std::sync::Mutex<()> = std::sync::Mutex::new(());

pub fn run_matrix(cfg: &RunCfg, _replay: Option<&[Step]>) -> RunOutput {
    // umask and the default keyring store are process-global: one matrix at a time
    let _guard = MATRIX_LOCK.lock().unwrap_or_else(|e| e.into_inner());
    let mut out = empty_output(cfg);
    let base = fresh_dir();
    let store = keyring_core::mock::Store::new().expect("mock keyring");
    keyring_core::set_default_store(store);
    let key_a = [0x11u8; 32];
    let key_b = [0x22u8; 32];
    let mut case = 0u32;
    let mut problems: Vec<(String, String)> = vec![];
    let mut sig = vec![];
    for umask in [0o022u32, 0o000, 0o027, 0o007, 0o002, 0o077] {
        let old = unsafe { libc::umask(umask as libc::mode_t) };
        for file_state in ["missing", "empty", "plain", "encrypted_a", "keyring_encrypted"] {
            for ctor in ["new_keyring_has", "new_keyring_lacks", "with_key_a", "with_key_b", "unencrypted"] {
                case += 1;
                let dir = base.join(format!("m{case}")).join("sub");
                let path = dir.join("db.sqlite");
                let svc = format!("svc-{}-{case}", cfg.seed);
                let kid = "dbkey";
                // a clean keyring entry for this case, whatever ran before in this process
                if let Ok(e) = keyring_core::Entry::new(&svc, kid) {
                    let _ = e.delete_credential();
                }
                // ---- prepare the file state ----
                let mut prepared_data = false;
                match file_state {
                    "missing" => {}
                    "empty" => {
                        std::fs::create_dir_all(&dir).unwrap();
                        std::fs::write(&path, b"").unwrap();
                    }
                    "plain" => {
                        let s = MdkSqliteStorage::new_unencrypted(&path).expect("create plain");
                        prepared_data = write_some(&s);
                    }
                    "encrypted_a" => {
                        let s = MdkSqliteStorage::new_with_key(&path, EncryptionConfig::new(key_a)).expect("create encrypted");
                        prepared_data = write_some(&s);
                    }
                    _ => {
                        let s = MdkSqliteStorage::new(&path, &svc, kid).expect("create keyring-managed");
                        prepared_data = write_some(&s);
                    }
                }
                // keyring entry presence
                if ctor == "new_keyring_lacks" {
                    if let Ok(e) = keyring_core::Entry::new(&svc, kid) {
                        let _ = e.delete_credential();
                    }
                }
                if ctor == "new_keyring_has" && file_state != "keyring_encrypted" {
                    if let Ok(e) = keyring_core::Entry::new(&svc, kid) {
                        let _ = e.set_secret(&key_a);
                    }
                }
                // ---- open ----
                // what the library creates is looked at the instant it exists (ticks right after
                // the directory / the file are created), not only once the constructor is done
                let at_creation: std::rc::Rc<std::cell::RefCell<Vec<(String, u32)>>> = Default::default();
                {
                    let (seen, p2, d2) = (at_creation.clone(), path.clone(), dir.clone());
                    mdk_sqlite_storage::verif::set_thread_hook(Some(Box::new(move |p| {
                        use mdk_sqlite_storage::verif::Point;
                        let mode = |x: &std::path::Path| std::fs::metadata(x).map(|m| m.permissions().mode() & 0o777).unwrap_or(0);
                        match p {
                            Point::Open("precreate:file_created") => seen.borrow_mut().push(("database file".into(), mode(&p2))),
                            Point::Open("precreate:directory_created") => {
                                seen.borrow_mut().push(("directory".into(), mode(&d2)));
                                if let Some(parent) = d2.parent() {
                                    seen.borrow_mut().push(("intermediate directory".into(), mode(parent)));
                                }
                            }
                            _ => {}
                        }
                    })));
                }
                let opened: Result<MdkSqliteStorage, String> = match ctor {
                    "new_keyring_has" | "new_keyring_lacks" => MdkSqliteStorage::new(&path, &svc, kid).map_err(|e| e.to_string()),
                    "with_key_a" => MdkSqliteStorage::new_with_key(&path, EncryptionConfig::new(key_a)).map_err(|e| e.to_string()),
                    "with_key_b" => MdkSqliteStorage::new_with_key(&path, EncryptionConfig::new(key_b)).map_err(|e| e.to_string()),
                    _ => MdkSqliteStorage::new_unencrypted(&path).map_err(|e| e.to_string()),
                };
                mdk_sqlite_storage::verif::set_thread_hook(None);
                if file_state == "missing" {
                    for (what, mode) in at_creation.borrow().iter() {
                        if mode & 0o077 != 0 {
                            problems.push(("created-accessible-to-others".into(), format!("umask {umask:o} {ctor}: {what} had mode {mode:o} right after it was created")));
                        }
                    }
                    if !at_creation.borrow().is_empty() {
                        *out.probes.entry("modes_seen_at_creation".into()).or_insert(0) += at_creation.borrow().len() as u64;
                    }
                }
                let ok = opened.is_ok();
                let data_ok = opened.as_ref().map(|s| read_back(s)).unwrap_or(false);
                sig.push(format!("{file_state}/{ctor}/{}", if ok { "open" } else { "refused" }));
                out.log.push(format!("umask {umask:o} {file_state} x {ctor} -> {} data_readable={data_ok}", if ok { "opened" } else { "refused" }));
                // ---- expectations ----
                let right_key = matches!((file_state, ctor), ("encrypted_a", "with_key_a") | ("encrypted_a", "new_keyring_has") | ("keyring_encrypted", "new_keyring_has"));
                let encrypted = matches!(file_state, "encrypted_a" | "keyring_encrypted");
                if encrypted && !right_key && ok && data_ok {
                    problems.push(("encrypted-database-opened-without-its-key".into(), format!("{file_state} opened by {ctor}")));
                }
                if encrypted && !right_key && ok && !data_ok && ctor != "new_keyring_lacks" {
                    // opening "successfully" with a wrong key must not happen either
                    problems.push(("encrypted-database-opened-with-wrong-key".into(), format!("{file_state} 'opened' by {ctor}")));
                }
                if encrypted && right_key && prepared_data && !(ok && data_ok) {
                    problems.push(("right-key-does-not-reopen".into(), format!("{file_state} x {ctor}: ok={ok} data={data_ok}")));
                }
                if file_state == "plain" && matches!(ctor, "with_key_a" | "with_key_b" | "new_keyring_has" | "new_keyring_lacks") && ok {
                    problems.push(("plain-database-opened-by-encrypting-constructor".into(), format!("{ctor}")));
                }
                if file_state == "plain" && ctor == "unencrypted" && prepared_data && !data_ok {
                    problems.push(("plain-database-does-not-reopen".into(), String::new()));
                }
                // the existing-file branch never generates a key: a file that is already there
                // belongs to whoever created it (possibly a first open still in progress)
                if ctor == "new_keyring_lacks" && file_state != "missing" {
                    let has_entry = keyring_core::Entry::new(&svc, kid).ok().map(|e| e.get_secret().is_ok()).unwrap_or(false);
                    if has_entry {
                        problems.push(("key-generated-for-existing-file".into(), format!("{file_state}: new() without a keyring entry left a key in the keyring ({})", if ok { "and opened" } else { "and failed" })));
                    }
                    if file_state == "empty" && ok {
                        problems.push(("existing-empty-file-taken-over".into(), "new() without a keyring entry initialised a database in a file it did not create".into()));
                    }
                }
                // a key created by the keyring path is created once and reused
                if ctor == "new_keyring_lacks" && file_state == "missing" && ok {
                    drop(opened);
                    let again = MdkSqliteStorage::new(&path, &svc, kid);
                    if again.is_err() {
                        problems.push(("keyring-key-not-reused".into(), format!("{:?}", again.err().map(|e| e.to_string()))));
                    }
                }
                // ---- permissions of what the library created ----
                if path.exists() {
                    let mode = std::fs::metadata(&path).map(|m| m.permissions().mode() & 0o777).unwrap_or(0);
                    if mode & 0o077 != 0 && file_state == "missing" {
                        problems.push(("database-file-mode".into(), format!("umask {umask:o} {ctor}: db file mode {mode:o}")));
                    }
                    if file_state == "missing" {
                        let dmode = std::fs::metadata(&dir).map(|m| m.permissions().mode() & 0o777).unwrap_or(0);
                        if dmode & 0o077 != 0 {
                            problems.push(("library-created-directory-mode".into(), format!("umask {umask:o} {ctor}: directory mode {dmode:o}")));
                        }
                        if let Some(parent) = dir.parent() {
                            let pmode = std::fs::metadata(parent).map(|m| m.permissions().mode() & 0o777).unwrap_or(0);
                            if pmode & 0o077 != 0 {
                                problems.push(("library-created-directory-mode".into(), format!("umask {umask:o} {ctor}: intermediate directory mode {pmode:o}")));
                            }
                        }
                    }
                    for suffix in ["-journal", "-wal", "-shm"] {
                        let sp = dir.join(format!("db.sqlite{suffix}"));
                        if sp.exists() {
                            let sm = std::fs::metadata(&sp).map(|m| m.permissions().mode() & 0o777).unwrap_or(0);
                            let dmode = std::fs::metadata(&dir).map(|m| m.permissions().mode() & 0o777).unwrap_or(0);
                            if sm & 0o077 != 0 && dmode & 0o077 != 0 {
                                problems.push(("sidecar-accessible-to-others".into(), format!("{suffix} mode {sm:o} in directory {dmode:o}")));
                            }
                        }
                    }
                }
            }
        }
        unsafe { libc::umask(old) };
    }
    out.n_steps = case as usize;
    out.signature = crate::node::h8(sig.join(",").as_bytes());
    out.transitions = sig;
    out.nontrivial = true;
    let mut seen = BTreeSet::new();
    for (clause, detail) in problems {
        if seen.insert(clause.clone()) {
            out.violations.push(Violation { property: "C13".into(), clause, step: None, node: None, detail, known: None });
        }
    }
    *out.probes.entry("matrix_cases".into()).or_insert(0) += case as u64;
    let _ = std::fs::remove_dir_all(&base);
    let _: BTreeMap<u8, u8> = BTreeMap::new();
    out
}

fn big_msgs(g: &mut Gen) {
    g.cfg.weights.msg += 3;
}

pub fn spec() -> CheckSpec {
    let wp = Profile { backend: BackendMix::SqliteCipher, msg_heavy: true, allow_restart: true, max_nodes: 4, ..Default::default() };
    CheckSpec {
        id: "C13",
        level: "exploration",
        rule: "(1) world runs on SQLCipher nodes (forks, rollbacks, restarts, group-data and image-key updates, id rotations) with planted canaries: message texts (every third message 10-30 KB, so that values spill to overflow pages), group names/descriptions, relay URLs, and - known to the simulator - MLS group ids, Nostr group ids, exporter secrets of every epoch, image keys, member public keys, as raw bytes, lower/upper hex and base64; after every call - and, through the storage tick hook, at every statement boundary inside the open snapshot / restore / relay transactions of the call, while the rollback journal is live - a byte scan of every file in the database directory (main file, -journal, -wal, -shm, anything else) finds no canary and no plain SQLite header, and the main file has mode 0600; (2) the constructor x file-state matrix is exhausted under umask 022, 000, 027, 007, 002 and 077: {new with/without keyring entry, new_with_key right/wrong key, new_unencrypted} x {missing, empty, plain, encrypted with key A, keyring-managed}: an encrypted database never opens without its key or through the unencrypted constructor, the right key reopens it with the same data, a plain database is refused by the encrypting constructors, a keyring key is created once and reused, the existing-file branch of new() never generates a key nor takes over an empty file it did not create, library-created files/directories are owner-only; non-trivial = scan performed in a run with a rollback; distinct = delivery signature / matrix outcome vector",
        variants: vec![
            Variant { name: "world-scan", profile: wp, runs_quick: 60, runs_thorough: 3000, oracle: mk_world, guarded: false, configure_gen: Some(big_msgs), post: None, custom: None },
            Variant { name: "matrix", profile: Profile::default(), runs_quick: 2, runs_thorough: 4, oracle: mk_nop, guarded: false, configure_gen: None, post: None, custom: Some(run_matrix) },
        ],
        assumptions: vec!["mock keyring store (keyring_core::mock) instead of the OS keyring", "concurrent first opens of one path are part of C19", "scans happen between API calls (statement-boundary scans inside transactions are covered by the hot-journal images of C12 only for recoverability, not for content)"],
        real: super::REAL.to_vec(),
        stubs: vec!["OS keyring (keyring_core mock store)", "relay/app layer", "wall clock", "entropy"],
    }
}
