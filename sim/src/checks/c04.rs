//! C04 — stored messages are bound to their authenticated sender and to their own content.

use std::collections::{BTreeMap, BTreeSet};

use crate::driver::*;
use crate::genr::*;
use crate::run::Oracle;
use crate::world::*;

#[derive(Default)]
pub struct C04 {
    guarded: bool,
    seen: BTreeMap<(usize, String, String), (String, u16, u64, String, String, String)>,
    collision_delivered: bool,
}

impl Oracle for C04 {
    fn after_step(&mut self, w: &mut World, rec: &StepRecord) {
        let node = rec.step.node;
        if node >= w.views.len() {
            return;
        }
        // which wrapper was created by whom (the MLS layer authenticates exactly that member)
        let mut viols: Vec<(&str, String, Option<String>)> = vec![];
        if let Op::Deliver { ev } = &rec.step.op {
            if let Some(pe) = w.ev(*ev) {
                if pe.desc.starts_with("forged_rumor mode1") || pe.desc.starts_with("forged_rumor mode2") {
                    // collision attempt handed to a client that holds the victim message
                    let claimed = pe.desc.split("claimed_id=").nth(1).and_then(|x| x.split(' ').next()).unwrap_or("");
                    if w.prev_view.groups.values().any(|g| g.messages.iter().any(|m| m.id == claimed)) {
                        self.collision_delivered = true;
                        w.probe("id_collision_attempt_on_client_holding_the_victim_message");
                    }
                }
            }
        }
        for (gk, gv) in &w.views[node].groups {
            for m in &gv.messages {
                // the MLS layer authenticates whoever encrypted the ciphertext: for a re-wrapped
                // ciphertext that is the original author, not the member that built the new wrapper
                let creator = w.events.iter().find(|e| e.event.id.to_hex() == m.wrapper).map(|e| {
                    e.desc.split("original_creator=n").nth(1).and_then(|x| x.split(' ').next()).and_then(|x| x.parse::<usize>().ok()).unwrap_or(e.creator)
                });
                if let Some(c) = creator {
                    let want = w.nodes[c].pubkey().to_hex();
                    if m.pubkey != want {
                        viols.push(("attributed-to-wrong-author", format!("n{node}: message {} (wrapper {}) was encrypted by n{c} but is attributed to {}", &m.id[..8], &m.wrapper[..8], &m.pubkey[..8]), None));
                    }
                }
                if !m.id_ok || !m.event_consistent {
                    let known = if self.guarded { None } else { None };
                    viols.push(("id-is-not-the-hash-of-the-stored-content", format!("n{node}: stored message {} (wrapper {}): id_ok={} event_consistent={}", &m.id[..8], &m.wrapper[..8], m.id_ok, m.event_consistent), known));
                }
                let key = (node, gk.clone(), m.id.clone());
                let cur = (m.pubkey.clone(), m.kind, m.created_at, m.content.clone(), m.tags.clone(), m.wrapper.clone());
                match self.seen.get(&key) {
                    None => {
                        self.seen.insert(key, cur);
                    }
                    Some(old) => {
                        if *old != cur {
                            // KF-C04-1: only the wrapper id changed, and the client rolled back since
                            // the message was first stored (the rollback restores the MLS secret
                            // tree, so the same ciphertext decrypts once more)
                            let only_wrapper = old.0 == cur.0 && old.1 == cur.1 && old.2 == cur.2 && old.3 == cur.3 && old.4 == cur.4;
                            let rolled = w.history.iter().any(|r| r.step.node == node && r.rollback);
                            // (was KF-C04-1; repaired upstream: a stored valid copy is kept as it is)
                            let _ = (only_wrapper, rolled);
                            let kf: Option<String> = None;
                            viols.push(("stored-message-replaced", format!("n{node}: message {} was ({}, {:?}, wrapper {}) and is now ({}, {:?}, wrapper {}) after {}", &m.id[..8], &old.0[..8], old.3.chars().take(40).collect::<String>(), &old.5[..8], &cur.0[..8], cur.3.chars().take(40).collect::<String>(), &cur.5[..8], rec.outcome.chars().take(60).collect::<String>()), kf));
                            self.seen.insert((node, gk.clone(), m.id.clone()), cur);
                        }
                    }
                }
            }
        }
        let mut seen = BTreeSet::new();
        for (clause, detail, known) in viols {
            if seen.insert(clause) {
                w.violations.push(Violation { property: "C04".into(), clause: clause.into(), step: Some(rec.step.id), node: Some(node), detail, known });
            }
        }
    }
    fn nontrivial(&self, _w: &World) -> bool {
        self.collision_delivered
    }
}

fn mk(cfg: &RunCfg) -> Box<dyn Oracle> {
    Box::new(C04 { guarded: cfg.guards.contains("guarded"), ..Default::default() })
}

fn conf(g: &mut Gen) {
    super::byz::install(g);
    g.cfg.weights.msg += 4;
    // churn: forgers get removed, the people they impersonated join (and may inherit the leaf)
    g.cfg.weights.remove += 3;
    g.cfg.weights.invite += 3;
}

pub fn spec() -> CheckSpec {
    let mut guards = BTreeSet::new();
    for g in ["h_rumor", "h_rewrap"] {
        guards.insert(g.to_string());
    }
    let base = Profile { msg_heavy: true, second_group: true, guards, hostile: 4, ..Default::default() };
    CheckSpec {
        id: "C04",
        level: "exploration",
        rule: "worlds with a Byzantine member (real MDK + openmls used directly) that, interleaved with honest traffic, encrypts rumors with a foreign pubkey, with a pre-set id equal to an existing message of another member / of its own / a wrong hash, with arbitrary kind, tags and created_at, and re-wraps captured MLS ciphertexts in fresh wrappers (new key, new timestamp, other group's h tag); after every delivery on every client: each stored message's pubkey equals the member that encrypted its wrapper, its id is the NIP-01 hash of the stored fields, and no stored message changed author/content/wrapper; non-trivial = a colliding-id rumor handed to a client that holds the victim message; distinct = delivery signature",
        variants: vec![
            Variant { name: "mem", profile: Profile { backend: BackendMix::Memory, ..base.clone() }, runs_quick: 300, runs_thorough: 15000, oracle: mk, guarded: false, configure_gen: Some(conf), post: None, custom: None },
            Variant { name: "mixed", profile: Profile { backend: BackendMix::Mixed, ..base.clone() }, runs_quick: 100, runs_thorough: 5000, oracle: mk, guarded: false, configure_gen: Some(conf), post: None, custom: None },
        ],
        assumptions: vec!["the Byzantine node is an authenticated member (or ex-member) holding the group's secrets; outsiders cannot pass the outer layer"],
        real: super::REAL.to_vec(),
        stubs: super::STUBS.to_vec(),
    }
}
