//! C18 — message listing is one total order; pages and last-message pointer agree.

use std::collections::BTreeSet;

use mdk_core::prelude::*;
use mdk_storage_traits::groups::{MessageSortOrder, Pagination, MAX_MESSAGE_LIMIT};

use crate::driver::*;
use crate::genr::*;
use crate::node::MsgView;
use crate::run::Oracle;
use crate::with_mdk;
use crate::world::*;

#[derive(Default)]
pub struct C18 {
    guarded: bool,
    ties: bool,
    invalidated_last: bool,
}

fn model_sort(msgs: &[MsgView], processed_first: bool) -> Vec<String> {
    let mut v: Vec<&MsgView> = msgs.iter().collect();
    if processed_first {
        v.sort_by(|a, b| b.processed_at.cmp(&a.processed_at).then(b.created_at.cmp(&a.created_at)).then(b.id.cmp(&a.id)));
    } else {
        v.sort_by(|a, b| b.created_at.cmp(&a.created_at).then(b.processed_at.cmp(&a.processed_at)).then(b.id.cmp(&a.id)));
    }
    v.into_iter().map(|m| m.id.clone()).collect()
}

fn list<S: MdkStorageProvider>(mdk: &MDK<S>, gid: &GroupId, limit: Option<usize>, offset: Option<usize>, sort: MessageSortOrder) -> Result<Vec<String>, String> {
    mdk.get_messages(gid, Some(Pagination::with_sort_order(limit, offset, sort))).map(|v| v.into_iter().map(|m| m.id.to_hex()).collect()).map_err(|e| e.to_string())
}

impl Oracle for C18 {
    fn after_step(&mut self, w: &mut World, rec: &StepRecord) {
        let node = rec.step.node;
        if node >= w.nodes.len() || w.nodes[node].mdk.is_none() {
            return;
        }
        let mut viols: Vec<(&str, String, Option<String>)> = vec![];
        for g in 0..w.groups.len() {
            let Some(gv) = w.gview(node, g) else { continue };
            if gv.messages.is_empty() {
                continue;
            }
            // ties present?
            let mut keys = BTreeSet::new();
            for m in &gv.messages {
                if !keys.insert((m.created_at, m.processed_at)) {
                    self.ties = true;
                }
            }
            let want = model_sort(&gv.messages, false);
            if gv.order != want {
                viols.push(("default-order-differs-from-documented-order", format!("g{g} n{node}: got {:?} want {:?}", short_ids(&gv.order), short_ids(&want)), None));
            }
            // last-message pointer
            if let Some(r) = &gv.record {
                let first_valid = want.iter().filter_map(|id| gv.messages.iter().find(|m| m.id == *id)).find(|m| m.state != "epoch_invalidated");
                let want_ptr = first_valid.map(|m| (m.id.clone(), m.created_at, m.processed_at));
                let got_ptr = r.last_message_id.clone().map(|id| (id, r.last_message_at.unwrap_or(0), r.last_message_processed_at.unwrap_or(0)));
                if want_ptr != got_ptr {
                    let pointed_invalid = got_ptr.as_ref().and_then(|p| gv.messages.iter().find(|m| m.id == p.0)).map(|m| m.state == "epoch_invalidated").unwrap_or(false);
                    if pointed_invalid {
                        self.invalidated_last = true;
                    }
                    let known = if self.guarded { None } else { known_pointer(w, rec, node, g) };
                    viols.push((
                        "last-message-pointer",
                        format!(
                            "g{g} n{node} after #{} ({}): pointer {:?} but the first non-invalidated message of the default order is {:?}{}",
                            rec.step.id,
                            rec.outcome.chars().take(50).collect::<String>(),
                            got_ptr.as_ref().map(|p| (&p.0[..8], p.1, p.2)),
                            want_ptr.as_ref().map(|p| (&p.0[..8], p.1, p.2)),
                            if pointed_invalid { " (pointer designates an invalidated message)" } else { "" }
                        ),
                        known,
                    ));
                }
            }
            // pagination: every few steps (cost)
            if rec.step.id % 3 == 0 || rec.rollback {
                let Some(gid) = w.gid(g) else { continue };
                for (sort, pf) in [(MessageSortOrder::CreatedAtFirst, false), (MessageSortOrder::ProcessedAtFirst, true)] {
                    let full = with_mdk!(w.nodes[node].mdk(), m => list(m, &gid, Some(MAX_MESSAGE_LIMIT), None, sort));
                    let again = with_mdk!(w.nodes[node].mdk(), m => list(m, &gid, Some(MAX_MESSAGE_LIMIT), None, sort));
                    let Ok(full) = full else {
                        viols.push(("listing-failed", format!("g{g} n{node}: {:?}", full), None));
                        continue;
                    };
                    if Ok(&full) != again.as_ref() {
                        viols.push(("listing-not-repeatable", format!("g{g} n{node}"), None));
                    }
                    let want = model_sort(&gv.messages, pf);
                    if full != want {
                        viols.push(("order-differs-from-documented-order", format!("g{g} n{node} sort {:?}: got {:?} want {:?}", sort, short_ids(&full), short_ids(&want)), None));
                    }
                    for page in [1usize, 2, 3, 7] {
                        let mut cat = vec![];
                        let mut off = 0;
                        loop {
                            let p = with_mdk!(w.nodes[node].mdk(), m => list(m, &gid, Some(page), Some(off), sort)).unwrap_or_default();
                            if p.is_empty() {
                                break;
                            }
                            off += p.len();
                            cat.extend(p);
                            if off > full.len() + 5 {
                                break;
                            }
                        }
                        if cat != full {
                            viols.push(("pages-do-not-partition", format!("g{g} n{node} page size {page}: {:?} vs {:?}", short_ids(&cat), short_ids(&full)), None));
                        }
                    }
                    for bad in [0usize, MAX_MESSAGE_LIMIT + 1] {
                        if with_mdk!(w.nodes[node].mdk(), m => list(m, &gid, Some(bad), None, sort)).is_ok() {
                            viols.push(("out-of-range-limit-accepted", format!("limit {bad}"), None));
                        }
                    }
                    let beyond = with_mdk!(w.nodes[node].mdk(), m => list(m, &gid, Some(5), Some(full.len() + 3), sort)).unwrap_or_default();
                    if !beyond.is_empty() {
                        viols.push(("offset-beyond-end-returns-rows", format!("g{g} n{node}"), None));
                    }
                }
            }
        }
        let mut seen = BTreeSet::new();
        for (clause, detail, known) in viols {
            if seen.insert(clause) {
                w.violations.push(Violation { property: "C18".into(), clause: clause.into(), step: Some(rec.step.id), node: Some(node), detail, known });
            }
        }
    }

    fn nontrivial(&self, w: &World) -> bool {
        self.ties && w.probes.get("rollback").copied().unwrap_or(0) > 0
    }
}

fn short_ids(v: &[String]) -> Vec<String> {
    v.iter().map(|s| s[..6.min(s.len())].to_string()).collect()
}

pub fn known_pointer(_w: &World, _rec: &StepRecord, _node: usize, _g: usize) -> Option<String> {
    None
}

fn mk(cfg: &RunCfg) -> Box<dyn Oracle> {
    Box::new(C18 { guarded: cfg.guards.contains("guarded"), ..Default::default() })
}

/// now and then an author sends one of its earlier messages once more (same rumor, new wrapper)
fn resend_hook(gn: &mut Gen, w: &mut World) -> Option<Step> {
    let own: Vec<(usize, EvRef)> = w.ledger.iter().filter(|l| w.is_active_member(l.author, l.g) && !w.has_pending_commit(l.author, l.g)).map(|l| (l.author, l.origin)).collect();
    let (node, msg) = *gn.rng().pick(&own)?;
    Some(gn.mk(w, node, 0, Op::ResendMsg { msg }))
}

fn msg_ties(g: &mut Gen) {
    g.hostile_hook = Some(resend_hook);
    g.cfg.weights.hostile = g.cfg.weights.hostile.max(2);
    g.cfg.weights.msg += 6;
    g.cfg.weights.dup += 1;
    // removals and re-invitations: a client that still holds messages of the group is invited again
    g.cfg.weights.remove += 2;
    g.cfg.weights.invite += 3;
}

pub fn spec() -> CheckSpec {
    let base = Profile { msg_heavy: true, max_nodes: 4, ..Default::default() };
    CheckSpec {
        id: "C18",
        level: "exploration",
        rule: "message-heavy world runs in which the simulated clock mostly does not advance (ties on processed_at) and rumor created_at comes from a 4-value pool (ties on created_at), own and others' messages, late and re-delivered ones, invalidation by rollback; after every step: get_messages (default order) equals the documented total order, the group's last-message pointer designates the first non-invalidated message of that order; every third step and after every rollback, for both sort modes: listing is repeatable, equals the model sort, pages of size 1/2/3/7 concatenate to the full list, limit 0 and MAX+1 are refused, an offset beyond the end is empty; storage-level ordering/pagination with both backends against the model is part of C10's three-way runs; non-trivial = ties on both keys and a rollback; distinct = delivery signature",
        variants: vec![
            Variant { name: "mem", profile: Profile { backend: BackendMix::Memory, ..base.clone() }, runs_quick: 250, runs_thorough: 12000, oracle: mk, guarded: false, configure_gen: Some(msg_ties), post: None, custom: None },
            Variant { name: "sqlite", profile: Profile { backend: BackendMix::Sqlite, ..base.clone() }, runs_quick: 80, runs_thorough: 4000, oracle: mk, guarded: false, configure_gen: Some(msg_ties), post: None, custom: None },
        ],
        assumptions: vec!["honest members", "'not invalidated' = state other than epoch_invalidated"],
        real: super::REAL.to_vec(),
        stubs: super::STUBS.to_vec(),
    }
}
