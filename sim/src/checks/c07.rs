//! C07 — re-delivering an already handled event changes nothing.

use std::collections::BTreeSet;

use crate::driver::*;
use crate::genr::*;
use crate::node::{GroupView, NodeView};
use crate::run::Oracle;
use crate::world::*;

#[derive(Default)]
pub struct C07 {
    pub guarded: bool,
    separated: bool,
}

/// the part of a client's state a re-delivery must not change
pub fn restricted(v: &NodeView) -> serde_json::Value {
    let groups: Vec<serde_json::Value> = v.groups.values().map(restricted_group).collect();
    serde_json::json!(groups)
}

pub fn restricted_group(g: &GroupView) -> serde_json::Value {
    let m = g.mls.as_ref();
    serde_json::json!({
        "gid": g.gid,
        "epoch": m.map(|m| m.epoch),
        "authenticator": m.map(|m| m.authenticator.clone()),
        "members": m.map(|m| m.members.clone()),
        "ext": m.map(|m| (m.ext_nostr_group_id.clone(), m.ext_name.clone(), m.ext_description.clone(), m.ext_admins.clone(), m.ext_relays.clone(), m.ext_image_hash.clone(), m.ext_image_key.clone(), m.ext_image_nonce.clone())),
        "pending_proposals": m.map(|m| m.pending_proposals.clone()),
        "pending_commit": m.map(|m| m.pending_commit),
        "record_epoch": g.record.as_ref().map(|r| (r.epoch, r.state.clone(), r.name.clone(), r.nostr_group_id.clone())),
        "messages": g.messages.iter().map(|x| (x.id.clone(), x.pubkey.clone(), x.content.clone(), x.state.clone(), x.kind, x.created_at, x.tags.clone())).collect::<Vec<_>>(),
        "processed_at": g.messages.iter().map(|x| (x.id.clone(), x.processed_at)).collect::<Vec<_>>(),
    })
}

impl Oracle for C07 {
    fn after_step(&mut self, w: &mut World, rec: &StepRecord) {
        let node = rec.step.node;
        let Op::Deliver { ev } = &rec.step.op else { return };
        if rec.class == "skipped" || !w.prev_effective.contains(ev) {
            return;
        }
        w.probe("redelivery_of_effective_event");
        // separation: an epoch change / rollback / restart since the first delivery
        if let Some((first_step, _)) = w.delivered[node].get(ev) {
            let sep = w.history.iter().any(|r| {
                r.step.node == node && r.step.id > *first_step && r.step.id < rec.step.id && (r.rollback || matches!(r.step.op, Op::Restart) || r.pre_state != r.post_state)
            });
            if sep {
                self.separated = true;
                w.probe("redelivery_after_epoch_change_rollback_or_restart");
            }
        }
        let before = restricted(&w.prev_view);
        let after = restricted(&w.views[node]);
        if before != after {
            let kind = w.ev(*ev).map(|p| format!("{:?} {} by n{}", p.kind, p.desc, p.creator)).unwrap_or_default();
            // which part changed
            let mut what = vec![];
            for (k, gv) in &w.views[node].groups {
                if let Some(pg) = w.prev_view.groups.get(k) {
                    let (a, b) = (restricted_group(pg), restricted_group(gv));
                    for key in ["epoch", "authenticator", "members", "ext", "pending_proposals", "pending_commit", "record_epoch", "messages", "processed_at"] {
                        if a[key] != b[key] {
                            what.push(format!("{key}: {} -> {}", a[key], b[key]));
                        }
                    }
                }
            }
            let known = if self.guarded { None } else { known_trigger(w, rec) };
            let detail = format!("re-delivery of {kind} ({:?}) to n{node} answered {} changed: {}", ev, rec.outcome, what.join("; ").chars().take(600).collect::<String>());
            w.violations.push(Violation { property: "C07".into(), clause: "redelivery-changed-state".into(), step: Some(rec.step.id), node: Some(node), detail, known });
        }
    }

    fn nontrivial(&self, _w: &World) -> bool {
        self.separated
    }
}

pub fn known_trigger(w: &World, rec: &StepRecord) -> Option<String> {
    // KF-C07-1 (same root cause as KF-C01-6 / KF-C06-1): since this commit was first handled, the
    // client rolled back for a "better" candidate that it then refused; the rollback is not
    // undone, the client sits at the fork point again (its own superseded pending commit restored
    // by the snapshot) and a sibling commit it had already handled applies when offered again
    let node = rec.step.node;
    let Op::Deliver { ev } = &rec.step.op else { return None };
    let pe = w.ev(*ev)?;
    if pe.kind != EvKind::Commit {
        return None;
    }
    let first = w.delivered[node].get(ev).map(|d| d.0)?;
    let mut seen_first = false;
    for r in &w.history {
        if r.step.node != node {
            continue;
        }
        if r.step.id == first {
            seen_first = true;
            continue;
        }
        if r.step.id == rec.step.id && matches!(&r.step.op, Op::Deliver { ev: e2 } if e2 == ev) && seen_first && std::ptr::eq(r, w.history.last().unwrap()) {
            break;
        }
        if seen_first && r.rollback && is_refusal(&r.class) && matches!(&r.step.op, Op::Deliver { ev: e2 } if w.ev(*e2).map(|p| p.g == pe.g).unwrap_or(false)) {
            // the client stands in the commit's parent state again
            if rec.pre_state.get(&pe.g).map(|s| s.1 == pe.parent_state).unwrap_or(false) {
                return Some("KF-C07-1".into());
            }
        }
    }
    None
}

fn mk(cfg: &RunCfg) -> Box<dyn Oracle> {
    Box::new(C07 { guarded: cfg.guards.contains("guarded"), ..Default::default() })
}

fn heavy_dup(g: &mut Gen) {
    g.cfg.weights.dup = g.cfg.weights.dup.max(4) + 3;
}

pub fn spec() -> CheckSpec {
    let mut guards = BTreeSet::new();
    for g in ["guarded", "no_immediate_merge", "no_rotation", "no_leave", "no_remove", "no_publish_failure", "no_reinvite"] {
        guards.insert(g.to_string());
    }
    let base = Profile { msg_heavy: true, ..Default::default() };
    CheckSpec {
        id: "C07",
        level: "exploration",
        rule: "C01/C02 worlds with heavy duplication: every event that already took effect at a client (stored message, applied or superseded commit, queued proposal, own echo) is handed over again 1..n times at arbitrary later points (later epochs, after rollback, after eviction, after restart, in the quiescence passes); the restricted fingerprint (epoch, authenticator, members, group data, pending proposals/commit, messages incl. state) must not change; non-trivial = a re-delivery separated from the first delivery by an epoch change, rollback or restart; distinct = delivery signature",
        variants: vec![
            Variant { name: "mem", profile: Profile { backend: BackendMix::Memory, ..base.clone() }, runs_quick: 300, runs_thorough: 15000, oracle: mk, guarded: false, configure_gen: Some(heavy_dup), post: None, custom: None },
            Variant { name: "mixed-restart", profile: Profile { backend: BackendMix::Mixed, allow_restart: true, ..base.clone() }, runs_quick: 100, runs_thorough: 5000, oracle: mk, guarded: false, configure_gen: Some(heavy_dup), post: None, custom: None },
            Variant { name: "mem-guarded", profile: Profile { backend: BackendMix::Memory, guards: guards.clone(), allow_immediate: false, ..base.clone() }, runs_quick: 300, runs_thorough: 15000, oracle: mk, guarded: true, configure_gen: Some(heavy_dup), post: None, custom: None },
        ],
        assumptions: vec!["honest members only", "dedup-record internals (processed_messages rows) are not part of the compared state"],
        real: super::REAL.to_vec(),
        stubs: super::STUBS.to_vec(),
    }
}
