//! C19 — storage backends are safe to share between threads.
//!
//! Real caller threads on ONE MdkSqliteStorage instance, parked and released one at a time by a
//! seeded scheduler at every synchronisation point the `verif-hooks` lock shim and tick hook
//! expose (every acquisition attempt of the connection lock and of the key-generation lock,
//! every connection use, every step inside the explicit transactions, every constructor phase)
//! and at every operation boundary. Which thread runs next is always the scheduler's decision,
//! so one seed is one exactly repeatable interleaving. The recorded invoke/return history is
//! checked for linearizability against the sequential storage-contract model (Wing-Gong search).

use std::collections::{BTreeMap, BTreeSet};
use std::sync::{Arc, Condvar, Mutex};

use mdk_sqlite_storage::MdkSqliteStorage;
use serde_json::Value;

use crate::checks::c10::{empty_output, mk_nop, short};
use crate::driver::*;
use crate::genr::*;
use crate::rng::Rng;
use crate::run::{fresh_dir, RunOutput};
use crate::seam;
use crate::store::*;
use crate::world::*;

struct St {
    parked: Vec<bool>,
    done: Vec<bool>,
    grant: Option<usize>,
    seq: u64,
    trace: Vec<u8>,
    switches_inside_op: u64,
    in_op: Vec<bool>,
    /// set once the step budget is exhausted: every thread unwinds at its next scheduling point
    abort: bool,
}

/// panic payload that ends a thread stuck in a lock acquisition after a no-progress verdict
struct SchedAbort;

struct Sched {
    m: Mutex<St>,
    cv: Condvar,
}

impl Sched {
    fn new(n: usize) -> Arc<Self> {
        Arc::new(Sched { m: Mutex::new(St { parked: vec![false; n], done: vec![false; n], grant: None, seq: 0, trace: vec![], switches_inside_op: 0, in_op: vec![false; n], abort: false }), cv: Condvar::new() })
    }
    /// park until the scheduler picks this thread
    fn yield_point(&self, tid: usize) {
        let mut s = self.m.lock().unwrap();
        s.parked[tid] = true;
        self.cv.notify_all();
        while s.grant != Some(tid) {
            s = self.cv.wait(s).unwrap();
        }
        s.grant = None;
        s.parked[tid] = false;
        self.cv.notify_all();
        if s.abort {
            drop(s);
            std::panic::panic_any(SchedAbort);
        }
    }
    fn stamp(&self) -> u64 {
        let mut s = self.m.lock().unwrap();
        s.seq += 1;
        s.seq
    }
    fn finish(&self, tid: usize) {
        let mut s = self.m.lock().unwrap();
        s.done[tid] = true;
        s.parked[tid] = false;
        self.cv.notify_all();
    }
    /// scheduler loop; returns false when the step budget is exhausted (no progress)
    fn drive(&self, rng: &mut Rng, budget: u64) -> bool {
        let mut steps = 0u64;
        let mut last: Option<usize> = None;
        loop {
            let mut s = self.m.lock().unwrap();
            // wait until every live thread is parked
            loop {
                let all = (0..s.parked.len()).all(|i| s.done[i] || s.parked[i]);
                if all && s.grant.is_none() {
                    break;
                }
                s = self.cv.wait(s).unwrap();
            }
            let live: Vec<usize> = (0..s.parked.len()).filter(|i| !s.done[*i]).collect();
            if live.is_empty() {
                return true;
            }
            steps += 1;
            if steps > budget {
                // release everybody so the threads can end
                return false;
            }
            let pick = live[rng.below(live.len() as u64) as usize];
            if let Some(l) = last {
                if l != pick && s.in_op[l] && !s.done[l] {
                    s.switches_inside_op += 1;
                }
            }
            last = Some(pick);
            s.trace.push(pick as u8);
            s.grant = Some(pick);
            self.cv.notify_all();
        }
    }
}

#[derive(Clone, Debug)]
struct HEvent {
    tid: usize,
    op: StOp,
    invoke: u64,
    ret: u64,
    result: String,
}

/// Wing-Gong: is there a sequential order of the operations, consistent with real time, in which
/// the model returns exactly the recorded results?
fn linearizable(initial: &Model, hist: &[HEvent], now: u64) -> bool {
    fn rec(model: &Model, remaining: &mut Vec<HEvent>, now: u64, budget: &mut u64) -> bool {
        if remaining.is_empty() {
            return true;
        }
        if *budget == 0 {
            return true; // search budget exhausted: do not raise an alarm
        }
        *budget -= 1;
        // candidates: operations that no other remaining operation returned before they were invoked
        let min_ret = remaining.iter().map(|e| e.ret).min().unwrap();
        for i in 0..remaining.len() {
            if remaining[i].invoke > min_ret {
                continue;
            }
            let e = remaining[i].clone();
            let mut m2 = model.clone();
            let expect = m2.apply(&e.op, now);
            let ok = match expect {
                Some(v) => v.to_string() == e.result,
                None => true,
            };
            if ok {
                remaining.remove(i);
                if rec(&m2, remaining, now, budget) {
                    remaining.insert(i, e);
                    return true;
                }
                remaining.insert(i, e);
            }
        }
        false
    }
    let mut rem = hist.to_vec();
    let mut budget = 2_000_000u64;
    rec(initial, &mut rem, now, &mut budget)
}

fn gen_thread_ops(r: &mut Rng, n: usize, tid: usize, counter: &mut u8) -> Vec<StOp> {
    let mut v = vec![];
    for _ in 0..n {
        // groups 0 and 1 exist from the start, group 2 only once some thread saves it
        let g = [0u8, 0, 1, 1, 2][r.below(5) as usize];
        *counter = counter.wrapping_add(1);
        let val = *counter;
        let op = match r.below(27) {
            19 => StOp::SaveWelcome { id: r.below(2) as u8, g, nostr: g, state: val % 4, wrapper: val % 4 },
            20 => StOp::PendingWelcomes { limit: None, offset: None },
            21 => StOp::MlsWrite { g: g % 2, kind: val % 4, val },
            22 => StOp::MlsQueueProposal { g: g % 2, r: val % 3, val },
            23 => StOp::MlsAppendLeaf { g: g % 2, val },
            24 => StOp::InvalidateMessages { g, epoch: val % 3 },
            25 => StOp::Messages { g, limit: Some(2), offset: Some(1), sort: Some(true) },
            26 => StOp::LastMessage { g, processed_first: val % 2 == 0 },
            // two not-yet-existing groups (2 and 3) race for one new routing id (5): exactly one
            // of them may win it, in every interleaving
            16 | 17 => StOp::SaveGroup { g: 2 + r.below(2) as u8, nostr: 5, name: val % 4, epoch: val % 5, state: 0, admins: 1 + (val % 7), last: None, su: 0 },
            18 => StOp::FindByNostr { n: [0u8, 2, 5][r.below(3) as usize] },
            14 => StOp::ListSnapshots { g },
            15 => StOp::FindMessage { g, id: r.below(3) as u8 },
            0 | 1 => StOp::SaveGroup { g, nostr: g, name: val % 4, epoch: val % 5, state: 0, admins: 1 + (val % 7), last: None, su: 0 },
            2 | 3 => StOp::ReplaceRelays { g, mask: 1 + (val % 15) },
            4 => StOp::Relays { g },
            5 => StOp::SaveSecret { g, epoch: r.below(2) as u8, val },
            6 => StOp::GetSecret { g, epoch: r.below(2) as u8 },
            7 => StOp::SaveMessage { g, id: r.below(3) as u8, ca: val % 5, pa: val % 5, state: 1, epoch: Some(val % 3), content: val % 6, wrapper: val % 8, tag: 0 },
            8 => StOp::Messages { g, limit: Some(5), offset: None, sort: None },
            9 => StOp::FindGroup { g },
            // snapshots only of groups that exist throughout (a snapshot of a missing group is
            // outside the contract, see C10)
            10 => StOp::Snapshot { g: g % 2, name: r.below(2) as u8 },
            11 => StOp::Rollback { g: g % 2, name: r.below(2) as u8 },
            12 => StOp::SaveProcessed { w: r.below(3) as u8, msg: None, pa: 0, epoch: Some(val % 3), g: Some(g), state: val % 6 },
            _ => StOp::FindProcessed { w: r.below(3) as u8 },
        };
        v.push(op);
    }
    let _ = tid;
    v
}

pub fn run(cfg: &RunCfg, replay: Option<&[Step]>) -> RunOutput {
    let dir = fresh_dir();
    let storage = Arc::new(MdkSqliteStorage::new_unencrypted(dir.join("shared.sqlite")).expect("open"));
    fn install(f: Box<dyn FnMut()>) {
        let mut f = f;
        mdk_sqlite_storage::verif::set_thread_hook(Some(Box::new(move |_p| f())));
    }
    fn remove() {
        mdk_sqlite_storage::verif::set_thread_hook(None);
    }
    let out = run_generic(cfg, replay, storage, install, remove);
    let _ = std::fs::remove_dir_all(&dir);
    out
}

/// the same harness on the memory backend, compiled through the shadow manifest whose
/// `parking_lot` is the scheduling shim
pub fn run_memory(cfg: &RunCfg, replay: Option<&[Step]>) -> RunOutput {
    let storage = Arc::new(mdk_memory_storage_shimmed::MdkMemoryStorage::default());
    fn install(f: Box<dyn FnMut()>) {
        parking_lot_shim::set_thread_hook(Some(f));
    }
    fn remove() {
        parking_lot_shim::set_thread_hook(None);
    }
    run_generic(cfg, replay, storage, install, remove)
}

fn run_generic<S: mdk_storage_traits::MdkStorageProvider + Send + Sync + 'static>(cfg: &RunCfg, _replay: Option<&[Step]>, storage: Arc<S>, install: fn(Box<dyn FnMut()>), remove: fn()) -> RunOutput {
    let mut out = empty_output(cfg);
    let mut r = Rng::new(cfg.seed).fork(1919);
    let n_threads = [2usize, 2, 3, 3, 4, 6, 8, 12, 16][r.below(9) as usize];
    let total_ops = if n_threads > 8 { 16usize } else { 12 };
    let per = (total_ops / n_threads).max(1);
    // initial state: both groups exist
    let mut model = Model::default();
    let now = T0;
    seam::set_time(now);
    for g in 0..2u8 {
        let op = StOp::SaveGroup { g, nostr: g, name: 0, epoch: 0, state: 0, admins: 1, last: None, su: 0 };
        let _ = apply(&*storage, &op, now);
        let _ = model.apply(&op, now);
    }
    let mut counter = 0u8;
    let mut plans: Vec<Vec<StOp>> = (0..n_threads).map(|t| gen_thread_ops(&mut r, per, t, &mut counter)).collect();
    // motifs (half of the runs): a sequential prelude, then two racing calls at the head of two
    // threads' plans. A: a rollback onto a routing id the group has left races another group
    // taking that id (exactly one of the two may succeed). B: re-taking a snapshot races the
    // rollback to the snapshot of that name.
    let motif = r.below(4);
    let g0 = |nostr: u8, name: u8| StOp::SaveGroup { g: 0, nostr, name, epoch: 1, state: 0, admins: 1, last: None, su: 0 };
    let prelude: Vec<StOp> = match motif {
        2 => vec![StOp::Snapshot { g: 0, name: 0 }, g0(4, 1)],
        3 => vec![StOp::Snapshot { g: 0, name: 0 }, g0(0, 2)],
        _ => vec![],
    };
    for op in &prelude {
        let _ = apply(&*storage, op, now);
        let _ = model.apply(op, now);
    }
    match motif {
        2 => {
            plans[0].insert(0, StOp::Rollback { g: 0, name: 0 });
            plans[1].insert(0, StOp::SaveGroup { g: 2, nostr: 0, name: 3, epoch: 0, state: 0, admins: 1, last: None, su: 0 });
        }
        3 => {
            plans[0].insert(0, StOp::Snapshot { g: 0, name: 0 });
            plans[1].insert(0, StOp::Rollback { g: 0, name: 0 });
        }
        _ => {}
    }
    let sched = Sched::new(n_threads);
    let history: Arc<Mutex<Vec<HEvent>>> = Arc::new(Mutex::new(vec![]));
    let panics: Arc<Mutex<Vec<String>>> = Arc::new(Mutex::new(vec![]));
    let mut handles = vec![];
    for (tid, plan) in plans.iter().cloned().enumerate() {
        let (sched, storage, history, panics) = (sched.clone(), storage.clone(), history.clone(), panics.clone());
        handles.push(std::thread::spawn(move || {
            seam::set_time(now);
            simhook::install(0xC19 + tid as u64);
            let s2 = sched.clone();
            install(Box::new(move || {
                s2.yield_point(tid);
            }));
            for op in plan {
                sched.yield_point(tid);
                let invoke = sched.stamp();
                sched.m.lock().unwrap().in_op[tid] = true;
                let res = std::panic::catch_unwind(std::panic::AssertUnwindSafe(|| apply(&*storage, &op, now)));
                sched.m.lock().unwrap().in_op[tid] = false;
                let ret = sched.stamp();
                match res {
                    Ok(v) => history.lock().unwrap().push(HEvent { tid, op, invoke, ret, result: v.to_string() }),
                    Err(p) => {
                        if p.downcast_ref::<SchedAbort>().is_none() {
                            panics.lock().unwrap().push(format!("thread {tid} {op:?}: {}", seam::panic_msg(&p)));
                        }
                        break;
                    }
                }
            }
            remove();
            sched.finish(tid);
        }));
    }
    let progressed = sched.drive(&mut r, 20_000);
    if !progressed {
        // no thread can finish (deadlock / livelock): make every thread unwind at its next
        // scheduling point, granting them in turn until all are done
        sched.m.lock().unwrap().abort = true;
        for _ in 0..200_000 {
            let mut s = sched.m.lock().unwrap();
            let live: Vec<usize> = (0..s.parked.len()).filter(|i| !s.done[*i]).collect();
            if live.is_empty() {
                break;
            }
            if s.grant.is_none() {
                if let Some(t) = live.iter().find(|t| s.parked[**t]) {
                    s.grant = Some(*t);
                    sched.cv.notify_all();
                }
            }
            drop(s);
            std::thread::yield_now();
        }
    }
    for h in handles {
        let _ = h.join();
    }
    // observation phase: one thread reads everything back, consuming every snapshot on the way
    // (what a snapshot holds shows only when it is rolled back to); these calls are part of the
    // history, so the sequential order must explain them as well
    if progressed {
        let mut obs: Vec<StOp> = vec![];
        for g in 0..4u8 {
            obs.push(StOp::FindGroup { g });
            obs.push(StOp::Relays { g });
        }
        for n in [0u8, 1, 2, 4, 5] {
            obs.push(StOp::FindByNostr { n });
        }
        for g in 0..2u8 {
            obs.push(StOp::ListSnapshots { g });
            for name in 0..2u8 {
                obs.push(StOp::Rollback { g, name });
                obs.push(StOp::FindGroup { g });
                obs.push(StOp::Relays { g });
                obs.push(StOp::GetSecret { g, epoch: 0 });
                obs.push(StOp::GetSecret { g, epoch: 1 });
            }
        }
        for op in obs {
            let invoke = sched.stamp();
            let res = std::panic::catch_unwind(std::panic::AssertUnwindSafe(|| apply(&*storage, &op, now)));
            let ret = sched.stamp();
            match res {
                Ok(v) => history.lock().unwrap().push(HEvent { tid: n_threads, op, invoke, ret, result: v.to_string() }),
                Err(p) => panics.lock().unwrap().push(format!("observer {op:?}: {}", seam::panic_msg(&p))),
            }
        }
    }
    let hist = history.lock().unwrap().clone();
    let (trace, switches) = {
        let s = sched.m.lock().unwrap();
        (s.trace.clone(), s.switches_inside_op)
    };
    let mut ordered = hist.clone();
    ordered.sort_by_key(|e| e.invoke);
    for e in &ordered {
        out.log.push(format!("t{} [{}..{}] {:?} -> {}", e.tid, e.invoke, e.ret, e.op, short(&serde_json::from_str::<Value>(&e.result).unwrap_or(Value::Null))));
    }
    out.log.push(format!("schedule {:?}", trace));
    for p in panics.lock().unwrap().iter() {
        out.violations.push(Violation { property: "C19".into(), clause: "panic".into(), step: None, node: None, detail: p.clone(), known: None });
    }
    if !progressed {
        out.violations.push(Violation { property: "C19".into(), clause: "no-progress".into(), step: None, node: None, detail: format!("{} threads did not finish {} operations within 20000 scheduling steps", n_threads, total_ops), known: None });
    } else if !linearizable(&model, &hist, now) {
        out.violations.push(Violation { property: "C19".into(), clause: "not-linearizable".into(), step: None, node: None, detail: format!("no sequential order of the {} recorded operations ({} threads) explains the results: {}", hist.len(), n_threads, ordered.iter().map(|e| format!("t{}[{}..{}]{:?}={}", e.tid, e.invoke, e.ret, e.op, e.result.chars().take(80).collect::<String>())).collect::<Vec<_>>().join(" | ").chars().take(1500).collect::<String>()), known: None });
    }
    // final state equals the model after SOME linearisation is implied by the above; also make
    // sure the store is still usable
    if apply(&*storage, &StOp::AllGroups, now) == "err" {
        out.violations.push(Violation { property: "C19".into(), clause: "store-unusable-afterwards".into(), step: None, node: None, detail: "all_groups fails after the concurrent phase".into(), known: None });
    }
    out.n_steps = hist.len();
    out.signature = crate::node::h8(format!("{:?}", trace).as_bytes());
    out.nontrivial = switches > 0;
    *out.probes.entry("context_switches_inside_an_operation".into()).or_insert(0) += switches;
    *out.probes.entry("scheduling_steps".into()).or_insert(0) += trace.len() as u64;
    *out.probes.entry(format!("threads_{n_threads}")).or_insert(0) += 1;
    if motif >= 2 {
        *out.probes.entry(format!("motif_{}", if motif == 2 { "rollback_vs_id_taken" } else { "retake_vs_rollback" })).or_insert(0) += 1;
    }
    drop(storage);
    let _: (BTreeMap<u8, u8>, BTreeSet<u8>) = Default::default();
    out
}

/// First-open race: several threads call MdkSqliteStorage::new on one fresh path with one keyring
/// entry; the scheduler interleaves them at every constructor phase and key-generation lock attempt.
pub fn run_open_race(cfg: &RunCfg, _replay: Option<&[Step]>) -> RunOutput {
    let mut out = empty_output(cfg);
    let mut r = Rng::new(cfg.seed).fork(1920);
    let n_threads = 2 + r.below(5) as usize;
    let dir = fresh_dir();
    // mode A: every thread opens the same fresh path; mode B: each thread its own fresh path,
    // all sharing one keyring entry (the key must be generated once and reused by all)
    let multi_path = r.chance(1, 2);
    let path = dir.join("sub").join("race.sqlite");
    static STORE_ONCE: std::sync::Once = std::sync::Once::new();
    STORE_ONCE.call_once(|| {
        if let Ok(s) = keyring_core::mock::Store::new() {
            keyring_core::set_default_store(s);
        }
    });
    let svc = format!("race-{}", cfg.seed);
    if let Ok(e) = keyring_core::Entry::new(&svc, "k") {
        let _ = e.delete_credential();
    }
    let sched = Sched::new(n_threads);
    let results: Arc<Mutex<Vec<(usize, Result<bool, String>)>>> = Arc::new(Mutex::new(vec![]));
    let mut handles = vec![];
    for tid in 0..n_threads {
        let my_path = if multi_path { dir.join(format!("sub{tid}")).join("race.sqlite") } else { path.clone() };
        let (sched, results, path, svc) = (sched.clone(), results.clone(), my_path, svc.clone());
        handles.push(std::thread::spawn(move || {
            seam::set_time(T0);
            simhook::install(0xAB00 + tid as u64);
            let s2 = sched.clone();
            // not a scheduling point: the commits inside the migration runner. A thread parked there
            // holds SQLite's write lock, and the other openers would sit out SQLite's busy timeout
            // in real time and fail with 'database is locked' - a stall longer than the timeout,
            // which is not the subject here (see DESIGN, limits)
            mdk_sqlite_storage::verif::set_thread_hook(Some(Box::new(move |p| {
                if !matches!(p, mdk_sqlite_storage::verif::Point::Open(l) if l.starts_with("migrate:")) {
                    s2.yield_point(tid)
                }
            })));
            sched.yield_point(tid);
            let res = std::panic::catch_unwind(std::panic::AssertUnwindSafe(|| MdkSqliteStorage::new(&path, &svc, "k")));
            let r = match res {
                Ok(Ok(st)) => {
                    // every successful opener can write and read
                    let ok = apply(&st, &StOp::SaveGroup { g: tid as u8 % 4, nostr: tid as u8 % 4, name: 1, epoch: 1, state: 0, admins: 1, last: None, su: 0 }, T0) != "err";
                    Ok(ok)
                }
                Ok(Err(e)) => Err(e.to_string().chars().take(200).collect()),
                Err(p) => Err(format!("PANIC {}", seam::panic_msg(&p))),
            };
            mdk_sqlite_storage::verif::set_thread_hook(None);
            results.lock().unwrap().push((tid, r));
            sched.finish(tid);
        }));
    }
    let progressed = sched.drive(&mut r, 50_000);
    if !progressed {
        for _ in 0..200_000 {
            let mut s = sched.m.lock().unwrap();
            if (0..s.parked.len()).all(|i| s.done[i]) {
                break;
            }
            if s.grant.is_none() {
                if let Some(t) = (0..s.parked.len()).find(|t| !s.done[*t] && s.parked[*t]) {
                    s.grant = Some(t);
                    sched.cv.notify_all();
                }
            }
            drop(s);
            std::thread::yield_now();
        }
    }
    for h in handles {
        let _ = h.join();
    }
    let res = results.lock().unwrap().clone();
    let trace = sched.m.lock().unwrap().trace.clone();
    for (t, r) in &res {
        out.log.push(format!("opener {t}: {}", match r { Ok(b) => format!("opened usable={b}"), Err(e) => format!("refused: {e}") }));
    }
    out.log.push(format!("schedule {:?}", trace));
    let opened = res.iter().filter(|(_, r)| matches!(r, Ok(true))).count();
    for (t, r) in &res {
        if let Err(e) = r {
            if e.starts_with("PANIC") {
                out.violations.push(Violation { property: "C19".into(), clause: "panic".into(), step: None, node: None, detail: format!("opener {t}: {e}"), known: None });
            } else {
                // in every sequential order of these calls each of them succeeds: the first
                // creates file and key, the others find both
                *out.probes.entry("opener_refused".into()).or_insert(0) += 1;
                let known = if !multi_path && e.contains("without encryption") { Some("KF-C19-1".to_string()) } else { None };
                out.violations.push(Violation { property: "C19".into(), clause: "concurrent-first-open-refused".into(), step: None, node: None, detail: format!("opener {t} of {n_threads} ({}) was refused: {e}", if multi_path { "own path, shared keyring entry" } else { "same path" }), known });
            }
        }
        if let Ok(false) = r {
            out.violations.push(Violation { property: "C19".into(), clause: "opener-cannot-use-database".into(), step: None, node: None, detail: format!("opener {t} opened the database but cannot write"), known: None });
        }
    }
    if !progressed {
        out.violations.push(Violation { property: "C19".into(), clause: "no-progress".into(), step: None, node: None, detail: "first-open race did not finish".into(), known: None });
    }
    if multi_path {
        // every database that was opened successfully must open again with the stored key
        for (t, r) in &res {
            if matches!(r, Ok(true)) {
                let p = dir.join(format!("sub{t}")).join("race.sqlite");
                if let Err(e) = MdkSqliteStorage::new(&p, &svc, "k") {
                    out.violations.push(Violation { property: "C19".into(), clause: "stored-key-does-not-open-database".into(), step: None, node: None, detail: format!("database of opener {t} (own path, shared keyring entry) does not reopen: {}", e.to_string().chars().take(120).collect::<String>()), known: None });
                    break;
                }
            }
        }
    }
    // afterwards: the key in the keyring opens the database and shows every successful opener's data
    let after = if multi_path { Err(mdk_sqlite_storage::error::Error::Database("n/a".into())) } else { MdkSqliteStorage::new(&path, &svc, "k") };
    match after {
        Ok(st) => {
            let groups = apply(&st, &StOp::AllGroups, T0);
            let n = groups["ok"].as_array().map(|a| a.len()).unwrap_or(0);
            let distinct: BTreeSet<u8> = res.iter().filter(|(_, r)| matches!(r, Ok(true))).map(|(t, _)| *t as u8 % 4).collect();
            if n != distinct.len() {
                out.violations.push(Violation { property: "C19".into(), clause: "openers-used-different-keys-or-lost-data".into(), step: None, node: None, detail: format!("{opened} openers succeeded, {} distinct groups written, {n} readable with the stored key", distinct.len()), known: None });
            }
        }
        Err(e) => {
            if opened > 0 && !multi_path {
                out.violations.push(Violation { property: "C19".into(), clause: "stored-key-does-not-open-database".into(), step: None, node: None, detail: e.to_string(), known: None });
            }
        }
    }
    out.n_steps = n_threads;
    out.signature = crate::node::h8(format!("{:?}", trace).as_bytes());
    out.nontrivial = trace.windows(2).any(|w| w[0] != w[1]);
    *out.probes.entry("open_race_scheduling_steps".into()).or_insert(0) += trace.len() as u64;
    let _ = std::fs::remove_dir_all(&dir);
    out
}

pub fn spec() -> CheckSpec {
    CheckSpec {
        id: "C19",
        level: "exploration",
        rule: "(1) 2-8 real caller threads issue 12 storage operations (save_group, replace/list relays, exporter secrets, save/list messages, processed records, snapshot create / rollback) on ONE MdkSqliteStorage - and, in a second variant, on ONE MdkMemoryStorage - over a 2-group key pool with unique values; a seeded scheduler decides at every lock-acquisition attempt, connection use, transaction step and operation boundary which thread proceeds; the invoke/return history stamped with the scheduler's global sequence numbers must be linearizable against the sequential storage-contract model (Wing-Gong search), nothing may panic, and all threads must finish within 20000 scheduling steps; (2) 2-6 threads race MdkSqliteStorage::new on one fresh path with one (mock) keyring entry, scheduled at every constructor phase and key-generation-lock attempt: every successful opener can write, and afterwards the stored key opens the database and shows every opener's data; non-trivial = a context switch inside an operation / between openers; distinct = schedule (sequence of thread choices)",
        variants: vec![
            Variant { name: "sqlite-linearizability", profile: Profile::default(), runs_quick: 400, runs_thorough: 40000, oracle: mk_nop, guarded: false, configure_gen: None, post: None, custom: Some(run) },
            Variant { name: "memory-linearizability", profile: Profile::default(), runs_quick: 400, runs_thorough: 40000, oracle: mk_nop, guarded: false, configure_gen: None, post: None, custom: Some(run_memory) },
            Variant { name: "sqlite-first-open-race", profile: Profile::default(), runs_quick: 150, runs_thorough: 10000, oracle: mk_nop, guarded: false, configure_gen: None, post: None, custom: Some(run_open_race) },
        ],
        assumptions: vec!["real OS threads, parked and released one at a time at the intercepted synchronisation points: the choice of who runs is the scheduler's, never the OS's", "the memory backend is compiled unchanged through a shadow manifest whose `parking_lot` is a shim (vendor/parking-lot-shim) that turns every RwLock acquisition attempt into a scheduling point", "search budget of the linearizability checker: 2e6 nodes (exhausted => no alarm)"],
        real: vec!["mdk-memory-storage (source unchanged, parking_lot replaced by the shim through a shadow manifest)", "mdk-sqlite-storage incl. keyring get-or-create and O_EXCL pre-creation", "bundled SQLite", "std::sync::Mutex behind the verif-hooks lock shim"],
        stubs: vec!["thread scheduling (seeded scheduler over parked real threads)", "OS keyring (keyring_core mock store)", "sequential storage-contract model (oracle)"],
    }
}
