//! C09 — rollback restores exactly one group's state and destroys nothing else.
//! (a) storage level: operation sequences incl. OpenMLS StorageProvider writes, with a full dump
//!     of the observable store at every snapshot / rollback / release / list / prune;
//! (b) MDK level: frame check around every rollback that happens in world runs.

use std::collections::{BTreeMap, BTreeSet};

use mdk_storage_traits::MdkStorageProvider;
use serde_json::Value;

use crate::checks::c10::{empty_output, from_steps, mk_nop, short};
use crate::driver::*;
use crate::genr::*;
use crate::hostile::HostileOp;
use crate::node::BackendKind;
use crate::rng::Rng;
use crate::run::{fresh_dir, Oracle, RunOutput};
use crate::seam;
use crate::store::*;
use crate::world::*;

fn diff_keys(a: &BTreeMap<String, Value>, b: &BTreeMap<String, Value>, skip: &dyn Fn(&str) -> bool) -> Vec<String> {
    let mut out = vec![];
    for (k, v) in a {
        if skip(k) {
            continue;
        }
        if b.get(k) != Some(v) {
            out.push(format!("{k}: {} -> {}", short(v), b.get(k).map(short).unwrap_or_default()));
        }
    }
    out
}

fn index_inconsistencies(d: &BTreeMap<String, Value>) -> Vec<String> {
    let mut out = vec![];
    for n in 0..N_NOSTR as u8 {
        let want_hex = hex::encode(nostr_id(n));
        let mut owners = vec![];
        for g in 0..N_GROUPS as u8 {
            if let Some(v) = d.get(&format!("scoped/{g}/group")) {
                let rec = &v["ok"];
                if !rec.is_null() {
                    let id: Vec<u8> = rec["nostr_group_id"].as_array().map(|a| a.iter().map(|x| x.as_u64().unwrap_or(0) as u8).collect()).unwrap_or_default();
                    if hex::encode(&id) == want_hex {
                        owners.push((g, rec.clone()));
                    }
                }
            }
        }
        let idx = d.get(&format!("index/nostr/{n}")).map(|v| v["ok"].clone()).unwrap_or(Value::Null);
        match owners.len() {
            0 => {
                if !idx.is_null() {
                    out.push(format!("lookup of Nostr id {n} returns a group but no group record carries it: {}", short(&idx)));
                }
            }
            1 => {
                if idx != owners[0].1 {
                    out.push(format!("lookup of Nostr id {n} returns {} but the record of group {} is {}", short(&idx), owners[0].0, short(&owners[0].1)));
                }
            }
            _ => {}
        }
    }
    out
}

fn run_on<S: MdkStorageProvider>(out: &mut RunOutput, ops: &[(u32, StOp)], s: &dyn Fn() -> S, reopen: Option<&dyn Fn()>) {
    let _ = (s, reopen);
    let _ = ops;
    let _ = out;
}

pub fn run(cfg: &RunCfg, replay: Option<&[Step]>) -> RunOutput {
    let mut out = empty_output(cfg);
    let mut r = Rng::new(cfg.seed).fork(78);
    let ops: Vec<(u32, StOp)> = match replay {
        Some(s) => from_steps(s),
        None => gen_ops(&mut r, cfg.steps, true, true).into_iter().enumerate().map(|(i, o)| (i as u32 + 1, o)).collect(),
    };
    out.steps = ops.iter().map(|(i, o)| Step { id: *i, node: 0, dt: 0, op: Op::Hostile(HostileOp::Store(o.clone())) }).collect();
    let sqlite = cfg.nodes.first().map(|n| n.backend.is_sqlite()).unwrap_or(false);
    let dir = fresh_dir();
    if sqlite {
        let mut h = SqlHolder::new(dir.clone());
        exec(&mut out, &ops, &mut Backend::Sql(&mut h));
    } else {
        let m = new_memory();
        exec(&mut out, &ops, &mut Backend::Mem(&m));
    }
    let _ = std::fs::remove_dir_all(&dir);
    let _ = run_on::<mdk_memory_storage::MdkMemoryStorage>;
    out
}

enum Backend<'a> {
    Mem(&'a mdk_memory_storage::MdkMemoryStorage),
    Sql(&'a mut SqlHolder),
}

impl Backend<'_> {
    fn apply(&self, op: &StOp, now: u64) -> Value {
        match self {
            Backend::Mem(m) => apply(*m, op, now),
            Backend::Sql(h) => apply(h.s(), op, now),
        }
    }
    fn dump(&self, now: u64) -> BTreeMap<String, Value> {
        match self {
            Backend::Mem(m) => full_dump(*m, now),
            Backend::Sql(h) => full_dump(h.s(), now),
        }
    }
}

fn exec(out: &mut RunOutput, ops: &[(u32, StOp)], b: &mut Backend) {
    let mut model = Model::default();
    let mut now = T0;
    let mut snapdump: BTreeMap<(u8, u8), BTreeMap<String, Value>> = BTreeMap::new();
    let mut sig = vec![];
    let mut nontrivial = false;
    for (i, op) in ops {
        seam::set_time(now);
        match op {
            StOp::Tick { dt } => {
                now += *dt as u64;
                out.sim_time += *dt as u64;
                continue;
            }
            StOp::Reopen => {
                if let Backend::Sql(h) = b {
                    let before = h.s();
                    let d0 = full_dump(before, now);
                    h.reopen();
                    let d1 = full_dump(h.s(), now);
                    *out.faults.entry("reopen".into()).or_insert(0) += 1;
                    let d = diff_keys(&d0, &d1, &|_| false);
                    if !d.is_empty() {
                        out.violations.push(Violation { property: "C09".into(), clause: "reopen-changed-store".into(), step: Some(*i), node: None, detail: d.join("; "), known: None });
                        break;
                    }
                }
                continue;
            }
            StOp::Snapshot { g, .. } if !model.groups.contains_key(g) => {
                out.log.push(format!("#{i} {op:?} -> skipped (group does not exist)"));
                continue;
            }
            _ => {}
        }
        let snapshot_op = matches!(op, StOp::Snapshot { .. } | StOp::Rollback { .. } | StOp::Release { .. } | StOp::ListSnapshots { .. } | StOp::Prune { .. });
        let before = if snapshot_op { Some(b.dump(now)) } else { None };
        let res = b.apply(op, now);
        let _ = model.apply(op, now);
        out.log.push(format!("#{i} {op:?} -> {}", short(&res)));
        sig.push(format!("{:?}", std::mem::discriminant(op)));
        let okay = res != "err";
        let mut problems: Vec<(&str, String)> = vec![];
        if let Some(before) = before {
            let after = b.dump(now);
            match op {
                StOp::Snapshot { g, name } if okay => {
                    let d = diff_keys(&before, &after, &|k| k.ends_with("/snapshots"));
                    if !d.is_empty() {
                        problems.push(("snapshot-changed-live-state", d.join("; ")));
                    }
                    let pref = format!("scoped/{g}/");
                    snapdump.insert((*g, *name), after.iter().filter(|(k, _)| k.starts_with(&pref)).map(|(k, v)| (k.clone(), v.clone())).collect());
                }
                StOp::Rollback { g, name } => {
                    if okay {
                        let pref = format!("scoped/{g}/");
                        match snapdump.remove(&(*g, *name)) {
                            Some(want) => {
                                let got: BTreeMap<String, Value> = after.iter().filter(|(k, _)| k.starts_with(&pref)).map(|(k, v)| (k.clone(), v.clone())).collect();
                                let d = diff_keys(&want, &got, &|_| false);
                                if !d.is_empty() {
                                    problems.push(("rollback-did-not-restore", d.join("; ")));
                                }
                            }
                            None => problems.push(("rollback-of-unknown-snapshot-succeeded", format!("{op:?}"))),
                        }
                        // frame: nothing else changed
                        let snapkey = format!("rest/{g}/snapshots");
                        let d = diff_keys(&before, &after, &|k| k.starts_with(&pref) || k.starts_with("index/") || k == snapkey);
                        if !d.is_empty() {
                            problems.push(("rollback-changed-something-else", d.join("; ")));
                        }
                        // the consumed snapshot is gone, the others stay
                        let names = |d: &BTreeMap<String, Value>| -> BTreeSet<String> { d.get(&snapkey).and_then(|v| v["ok"].as_array().cloned()).unwrap_or_default().iter().filter_map(|x| x[0].as_str().map(|s| s.to_string())).collect() };
                        let mut want = names(&before);
                        want.remove(&format!("snap{name}"));
                        if names(&after) != want {
                            problems.push(("rollback-snapshot-list", format!("snapshots before {:?}, after {:?}", names(&before), names(&after))));
                        }
                        let has_msgs = before.iter().any(|(k, v)| k.starts_with(&format!("rest/{g}/message/")) && !v["ok"].is_null());
                        let others = model.groups.len() > 1;
                        if has_msgs && others && !names(&after).is_empty() {
                            nontrivial = true;
                        }
                    } else {
                        let d = diff_keys(&before, &after, &|_| false);
                        if !d.is_empty() {
                            problems.push(("failed-rollback-changed-store", d.join("; ")));
                        }
                    }
                }
                StOp::Release { g, name } => {
                    snapdump.remove(&(*g, *name));
                    let d = diff_keys(&before, &after, &|k| k.ends_with("/snapshots"));
                    if !d.is_empty() {
                        problems.push(("release-changed-live-state", d.join("; ")));
                    }
                }
                StOp::Prune { .. } => {
                    let d = diff_keys(&before, &after, &|k| k.ends_with("/snapshots"));
                    if !d.is_empty() {
                        problems.push(("prune-changed-live-state", d.join("; ")));
                    }
                    // forget dumps of pruned snapshots
                    snapdump.retain(|k, _| model.snapshots.contains_key(k));
                }
                _ => {
                    let d = diff_keys(&before, &after, &|_| false);
                    if !d.is_empty() {
                        problems.push(("list-changed-store", d.join("; ")));
                    }
                }
            }
            for inc in index_inconsistencies(&after) {
                problems.push(("nostr-index-inconsistent", inc));
            }
        }
        if let Some((clause, detail)) = problems.into_iter().next() {
            out.violations.push(Violation { property: "C09".into(), clause: clause.into(), step: Some(*i), node: None, detail: format!("op #{i} {op:?}: {}", detail.chars().take(900).collect::<String>()), known: None });
            break;
        }
    }
    out.n_steps = ops.len();
    out.signature = crate::node::h8(sig.join(",").as_bytes());
    out.nontrivial = nontrivial;
}

// ---- (b) MDK level -----------------------------------------------------------------------------

#[derive(Default)]
pub struct C09World {
    guarded: bool,
    saw: bool,
}

impl Oracle for C09World {
    fn after_step(&mut self, w: &mut World, rec: &StepRecord) {
        if !rec.rollback {
            return;
        }
        let node = rec.step.node;
        let Op::Deliver { ev } = &rec.step.op else { return };
        let Some(pe) = w.ev(*ev).cloned() else { return };
        let gk = w.gid_hex(pe.g);
        let mut problems = vec![];
        // other groups identical
        for (k, before) in &w.prev_view.groups {
            if *k == gk {
                continue;
            }
            if w.views[node].groups.get(k) != Some(before) {
                problems.push(("rollback-changed-another-group", format!("n{node}: group {} changed while g{} rolled back", &k[..8], pe.g)));
            }
        }
        // this group's messages: none destroyed, only state flips to invalidated
        if let (Some(b), Some(a)) = (w.prev_view.groups.get(&gk), w.views[node].groups.get(&gk)) {
            if b.messages.len() > 0 {
                self.saw = true;
            }
            for m in &b.messages {
                match a.messages.iter().find(|x| x.id == m.id) {
                    None => problems.push(("rollback-destroyed-message", format!("n{node} ({:?}): message {} stored before the rollback is gone", w.nodes[node].cfg.backend, &m.id[..8]))),
                    Some(x) => {
                        let mut y = x.clone();
                        y.state = m.state.clone();
                        if y != *m && !(x.state == "epoch_invalidated") {
                            problems.push(("rollback-altered-message", format!("n{node}: message {} changed", &m.id[..8])));
                        }
                    }
                }
            }
        }
        if w.prev_view.pending_welcomes != w.views[node].pending_welcomes {
            problems.push(("rollback-changed-welcomes", format!("n{node}")));
        }
        for (clause, detail) in problems {
            let _ = self.guarded;
            w.violations.push(Violation { property: "C09".into(), clause: clause.into(), step: Some(rec.step.id), node: Some(node), detail, known: None });
        }
    }
    fn wants_quiescence(&self) -> bool {
        true
    }
    fn nontrivial(&self, _w: &World) -> bool {
        self.saw
    }
}

fn mk_world(cfg: &RunCfg) -> Box<dyn Oracle> {
    Box::new(C09World { guarded: cfg.guards.contains("guarded"), ..Default::default() })
}

pub fn spec() -> CheckSpec {
    let p = Profile { steps_lo: 30, steps_hi: 70, ..Default::default() };
    let wp = Profile { msg_heavy: true, second_group: true, ..Default::default() };
    CheckSpec {
        id: "C09",
        level: "exploration",
        rule: "(a) seeded storage-operation sequences over 4 groups (every trait write, OpenMLS StorageProvider group-scoped and global writes with harness blobs) interleaved with snapshot create / rollback / release / list / prune in any order and nesting, same name re-taken, unknown names, reopen on SQLite; a full dump of every read method over the whole key pool is taken around each such operation: after a rollback the snapshot-covered state of that group equals the dump taken at snapshot time, the snapshot is gone, everything else equals the dump taken just before; (b) frame check around every rollback in message-heavy world runs with two groups; non-trivial = rollback on a group that holds messages, with sibling snapshots and a second group present; distinct = operation-kind sequence / delivery signature",
        variants: vec![
            Variant { name: "store-mem", profile: Profile { backend: BackendMix::Memory, ..p.clone() }, runs_quick: 1200, runs_thorough: 80000, oracle: mk_nop, guarded: false, configure_gen: None, post: None, custom: Some(run) },
            Variant { name: "store-sqlite", profile: Profile { backend: BackendMix::Sqlite, ..p.clone() }, runs_quick: 600, runs_thorough: 40000, oracle: mk_nop, guarded: false, configure_gen: None, post: None, custom: Some(run) },
            Variant { name: "world-mixed", profile: Profile { backend: BackendMix::Mixed, ..wp.clone() }, runs_quick: 200, runs_thorough: 10000, oracle: mk_world, guarded: false, configure_gen: None, post: None, custom: None },
        ],
        assumptions: vec!["snapshot of a group that does not exist is outside the contract; a rollback onto a Nostr id that another group has taken since must be refused and change nothing", "index lookups (by Nostr id) are checked for consistency with the records, not for frame equality"],
        real: vec!["mdk-memory-storage", "mdk-sqlite-storage (bundled SQLite on tmpfs)", "mdk-storage-traits", "mdk-core (variant world-mixed)"],
        stubs: vec!["OpenMLS entity types in the storage-level runs are harness blobs implementing the storage marker traits", "wall clock", "relay/app layer in world runs"],
    }
}

#[allow(dead_code)]
fn _k(_: BackendKind) {}
