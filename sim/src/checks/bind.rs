//! C06, binding layer: the foreign-language bindings (`mdk-uniffi`) driven with hostile strings.
//!
//! Three binding instances (file-backed, unencrypted SQLite on tmpfs) play an ordinary session
//! through the exported functions only; interleaved with it every exported function is called
//! with arguments drawn from the values the session produced (group ids, public keys, event and
//! rumor JSON, welcome records), damaged variants of them (truncated at character boundaries,
//! multi-byte insertions, single JSON leaves replaced by values of another type, keys removed,
//! values of another kind in the slot) and a pool of hostile strings.
//!
//! Oracle: no call panics (every exported function). For `process_message` / `process_welcome`
//! (the property's no-effect clause is about message and welcome processing): `InvalidInput`
//! leaves the whole database (every table, read through a second connection) exactly as it was,
//! any other error leaves what the bindings expose (groups, members, relays, messages, pending
//! welcomes) as it was. Failure atomicity of the local operations (create_group, update_group_data,
//! merge_pending_commit, ...) is not part of the property and is only logged.

use std::collections::BTreeMap;
use std::panic::{catch_unwind, AssertUnwindSafe};
use std::path::{Path, PathBuf};

use mdk_uniffi as ffi;
use nostr::{EventBuilder, JsonUtil, Keys, Kind, Tag};
use serde::{Deserialize, Serialize};
use serde_json::{json, Value};

use crate::checks::c10::empty_output;
use crate::driver::*;
use crate::genr::*;
use crate::hostile::{HostileOp, HOSTILE_STRINGS};
use crate::rng::Rng;
use crate::run::{fresh_dir, RunOutput};
use crate::seam;
use crate::world::*;

#[derive(Debug, Clone, PartialEq, Eq, Serialize, Deserialize)]
pub struct BindCall {
    /// exported function
    pub f: String,
    /// JSON array of the arguments
    pub args: String,
}

const N_INST: usize = 3;

#[derive(Clone, Copy, PartialEq, Eq, Debug, PartialOrd, Ord)]
enum K {
    Gid,
    Pk,
    EventJson,
    KpJson,
    RumorJson,
    WelcomeJson,
    WelcomeRec,
    EventId,
    Relay,
    Text,
    Sort,
    Mime,
    HexBytes,
}

#[derive(Default)]
struct Corpus {
    by_kind: BTreeMap<K, Vec<String>>,
}

impl Corpus {
    fn add(&mut self, k: K, s: String) {
        let v = self.by_kind.entry(k).or_default();
        if !v.contains(&s) && v.len() < 64 {
            v.push(s);
        }
    }
    fn pick(&self, k: K, r: &mut Rng) -> Option<String> {
        self.by_kind.get(&k).and_then(|v| r.pick(v).cloned())
    }
    fn any(&self, r: &mut Rng) -> Option<String> {
        let ks: Vec<&K> = self.by_kind.keys().collect();
        let k = **r.pick(&ks)?;
        self.pick(k, r)
    }
}

fn hostile_string(r: &mut Rng) -> String {
    if r.chance(1, 14) {
        return "A".repeat(1 + r.below(100_000) as usize);
    }
    if r.chance(1, 10) {
        let n = 1 + r.below(40) as usize;
        return String::from_utf8_lossy(&r.bytes(n)).to_string();
    }
    HOSTILE_STRINGS[r.below(HOSTILE_STRINGS.len() as u64) as usize].to_string()
}

fn hostile_json_value(r: &mut Rng) -> Value {
    match r.below(10) {
        0 => Value::Null,
        1 => json!(-1),
        2 => json!(18446744073709551615u64),
        3 => json!(1.5e300),
        4 => json!([]),
        5 => json!({}),
        6 => json!([[[[[[[[[[]]]]]]]]]]),
        7 => json!(true),
        _ => Value::String(hostile_string(r)),
    }
}

fn leaf_paths(v: &Value, cur: Vec<String>, out: &mut Vec<Vec<String>>) {
    match v {
        Value::Object(m) => {
            out.push(cur.clone());
            for (k, x) in m {
                let mut c = cur.clone();
                c.push(k.clone());
                leaf_paths(x, c, out);
            }
        }
        Value::Array(a) => {
            out.push(cur.clone());
            for (i, x) in a.iter().enumerate() {
                let mut c = cur.clone();
                c.push(i.to_string());
                leaf_paths(x, c, out);
            }
        }
        _ => out.push(cur),
    }
}

fn at_path<'a>(v: &'a mut Value, path: &[String]) -> Option<&'a mut Value> {
    let mut cur = v;
    for p in path {
        cur = match cur {
            Value::Object(m) => m.get_mut(p)?,
            Value::Array(a) => a.get_mut(p.parse::<usize>().ok()?)?,
            _ => return None,
        };
    }
    Some(cur)
}

/// Damage one valid string.
fn damage(s: &str, r: &mut Rng) -> String {
    // structured damage for JSON
    if (s.starts_with('{') || s.starts_with('[')) && r.chance(3, 4) {
        if let Ok(mut v) = serde_json::from_str::<Value>(s) {
            let mut paths = vec![];
            leaf_paths(&v, vec![], &mut paths);
            paths.retain(|p| !p.is_empty());
            if let Some(p) = r.pick(&paths).cloned() {
                match r.below(4) {
                    0 => {
                        // remove the key / element
                        let (last, parent) = p.split_last().unwrap();
                        if let Some(pv) = at_path(&mut v, parent) {
                            match pv {
                                Value::Object(m) => {
                                    m.remove(last);
                                }
                                Value::Array(a) => {
                                    if let Ok(i) = last.parse::<usize>() {
                                        if i < a.len() {
                                            a.remove(i);
                                        }
                                    }
                                }
                                _ => {}
                            }
                        }
                    }
                    1 => {
                        // damage the string at the leaf
                        if let Some(x) = at_path(&mut v, &p) {
                            if let Value::String(t) = x {
                                *t = damage_plain(t, r);
                            } else {
                                *x = hostile_json_value(r);
                            }
                        }
                    }
                    _ => {
                        if let Some(x) = at_path(&mut v, &p) {
                            *x = hostile_json_value(r);
                        }
                    }
                }
                return v.to_string();
            }
        }
    }
    damage_plain(s, r)
}

fn damage_plain(s: &str, r: &mut Rng) -> String {
    let idx: Vec<usize> = s.char_indices().map(|(i, _)| i).chain(std::iter::once(s.len())).collect();
    let at = idx[r.below(idx.len() as u64) as usize];
    match r.below(8) {
        0 => s[..at].to_string(),
        1 => format!("{}{}{}", &s[..at], ["\u{e9}", "\u{20ac}", "\u{1f600}", "\u{0}", " ", "\n", "\"", "\\"][r.below(8) as usize], &s[at..]),
        2 => s.to_uppercase(),
        3 => format!("{s}{s}"),
        4 => format!("0x{s}"),
        5 => {
            // one character replaced
            let mut cs: Vec<char> = s.chars().collect();
            if !cs.is_empty() {
                let i = r.below(cs.len() as u64) as usize;
                cs[i] = ['g', 'z', '0', 'f', '\u{e9}', '-', '}', '"'][r.below(8) as usize];
            }
            cs.into_iter().collect()
        }
        6 => s[at..].to_string(),
        _ => format!("{s}00"),
    }
}

struct Arg {
    v: Value,
    honest: bool,
}

/// One argument of kind `k`: mostly a valid value, sometimes damaged / foreign / hostile.
fn draw(k: K, c: &Corpus, r: &mut Rng, hostile_rate: u64) -> Arg {
    let valid = match k {
        K::Sort => Some(["created_at_first", "processed_at_first"][r.below(2) as usize].to_string()),
        K::Mime => Some(["image/png", "image/jpeg", "image/webp", "image/gif"][r.below(4) as usize].to_string()),
        K::Text => Some(format!("text-{}", r.below(1000))),
        K::Relay => Some(["wss://relay.sim.example", "wss://r2.sim.example", "ws://localhost:7777"][r.below(3) as usize].to_string()),
        K::HexBytes => {
            let n = [0usize, 12, 31, 32, 33][r.below(5) as usize];
            Some(hex::encode(r.bytes(n)))
        }
        _ => c.pick(k, r),
    };
    let roll = r.below(100);
    if roll >= hostile_rate {
        if let Some(v) = valid {
            return Arg { v: Value::String(v), honest: true };
        }
    }
    let v = match r.below(4) {
        0 | 1 => match &valid {
            Some(v) => damage(v, r),
            None => hostile_string(r),
        },
        2 => c.any(r).unwrap_or_else(|| hostile_string(r)),
        _ => hostile_string(r),
    };
    Arg { v: Value::String(v), honest: false }
}

fn s(v: &Value, i: usize) -> String {
    v.get(i).and_then(|x| x.as_str()).unwrap_or("").to_string()
}
fn opt_s(v: &Value, i: usize) -> Option<String> {
    v.get(i).and_then(|x| x.as_str()).map(|x| x.to_string())
}
fn opt_u32(v: &Value, i: usize) -> Option<u32> {
    v.get(i).and_then(|x| x.as_u64()).map(|x| x as u32)
}
fn list(v: &Value, i: usize) -> Vec<String> {
    v.get(i).and_then(|x| x.as_array()).map(|a| a.iter().map(|y| y.as_str().unwrap_or("").to_string()).collect()).unwrap_or_default()
}
fn bytes(v: &Value, i: usize) -> Vec<u8> {
    hex::decode(s(v, i)).unwrap_or_else(|_| s(v, i).into_bytes())
}

fn welcome_rec(v: &Value) -> ffi::Welcome {
    let g = |k: &str| v.get(k).and_then(|x| x.as_str()).unwrap_or("").to_string();
    let gb = |k: &str| v.get(k).and_then(|x| x.as_str()).and_then(|x| hex::decode(x).ok());
    let gl = |k: &str| v.get(k).and_then(|x| x.as_array()).map(|a| a.iter().map(|y| y.as_str().unwrap_or("").to_string()).collect()).unwrap_or_default();
    ffi::Welcome {
        id: g("id"),
        event_json: g("event_json"),
        mls_group_id: g("mls_group_id"),
        nostr_group_id: g("nostr_group_id"),
        group_name: g("group_name"),
        group_description: g("group_description"),
        group_image_hash: gb("group_image_hash"),
        group_image_key: gb("group_image_key"),
        group_image_nonce: gb("group_image_nonce"),
        group_admin_pubkeys: gl("group_admin_pubkeys"),
        group_relays: gl("group_relays"),
        welcomer: g("welcomer"),
        member_count: v.get("member_count").and_then(|x| x.as_u64()).unwrap_or(0) as u32,
        state: g("state"),
        wrapper_event_id: g("wrapper_event_id"),
    }
}

fn welcome_to_json(w: &ffi::Welcome) -> Value {
    json!({
        "id": w.id, "event_json": w.event_json, "mls_group_id": w.mls_group_id, "nostr_group_id": w.nostr_group_id,
        "group_name": w.group_name, "group_description": w.group_description,
        "group_image_hash": w.group_image_hash.as_ref().map(hex::encode), "group_image_key": w.group_image_key.as_ref().map(hex::encode),
        "group_image_nonce": w.group_image_nonce.as_ref().map(hex::encode),
        "group_admin_pubkeys": w.group_admin_pubkeys, "group_relays": w.group_relays, "welcomer": w.welcomer,
        "member_count": w.member_count, "state": w.state, "wrapper_event_id": w.wrapper_event_id,
    })
}

/// the serde form `accept_welcome_json` expects (storage-traits Welcome)
fn welcome_serde_json(w: &ffi::Welcome) -> Option<String> {
    use mdk_storage_traits::welcomes::types as wt;
    use std::str::FromStr;
    let ev: nostr::UnsignedEvent = serde_json::from_str(&w.event_json).ok()?;
    let mut nid = [0u8; 32];
    hex::decode_to_slice(&w.nostr_group_id, &mut nid).ok()?;
    let rec = wt::Welcome {
        id: nostr::EventId::from_hex(&w.id).ok()?,
        event: ev,
        mls_group_id: mdk_storage_traits::GroupId::from_slice(&hex::decode(&w.mls_group_id).ok()?),
        nostr_group_id: nid,
        group_name: w.group_name.clone(),
        group_description: w.group_description.clone(),
        group_image_hash: None,
        group_image_key: None,
        group_image_nonce: None,
        group_admin_pubkeys: w.group_admin_pubkeys.iter().filter_map(|p| nostr::PublicKey::from_hex(p).ok()).collect(),
        group_relays: w.group_relays.iter().filter_map(|p| nostr::RelayUrl::parse(p).ok()).collect(),
        welcomer: nostr::PublicKey::from_hex(&w.welcomer).ok()?,
        member_count: w.member_count,
        state: wt::WelcomeState::from_str(&w.state).ok()?,
        wrapper_event_id: nostr::EventId::from_hex(&w.wrapper_event_id).ok()?,
    };
    serde_json::to_string(&rec).ok()
}

enum Res {
    Ok(String),
    Invalid(String),
    Err(String),
}

struct Inst {
    mdk: ffi::Mdk,
    keys: Keys,
    path: PathBuf,
}

fn err_of<T>(r: Result<T, ffi::MdkUniffiError>, okf: impl FnOnce(T) -> String) -> Res {
    match r {
        Ok(v) => Res::Ok(okf(v)),
        Err(ffi::MdkUniffiError::InvalidInput(e)) => Res::Invalid(e),
        Err(e) => Res::Err(e.to_string()),
    }
}

/// Execute one exported function; values a host application would keep are added to the corpus.
fn call(inst: &Inst, c: &mut Corpus, bc: &BindCall, step_id: u32) -> Res {
    let a: Value = serde_json::from_str(&bc.args).unwrap_or(Value::Null);
    let m = &inst.mdk;
    let upd = |c: &mut Corpus, u: ffi::UpdateGroupResult| -> String {
        c.add(K::EventJson, u.evolution_event_json.clone());
        if let Ok(e) = nostr::Event::from_json(&u.evolution_event_json) {
            c.add(K::EventId, e.id.to_hex());
        }
        for w in u.welcome_rumors_json.clone().unwrap_or_default() {
            c.add(K::RumorJson, w);
        }
        c.add(K::Gid, u.mls_group_id.clone());
        format!("update {} welcomes", u.welcome_rumors_json.map(|w| w.len()).unwrap_or(0))
    };
    match bc.f.as_str() {
        "kp" => {
            let r = m.create_key_package_for_event(s(&a, 0), list(&a, 1));
            match r {
                Ok(k) => {
                    let tags: Vec<Tag> = k.tags.iter().filter_map(|t| Tag::parse(t.clone()).ok()).collect();
                    match EventBuilder::new(Kind::MlsKeyPackage, k.key_package).tags(tags).sign_with_keys(&inst.keys) {
                        Ok(ev) => {
                            c.add(K::KpJson, ev.as_json());
                            c.add(K::EventId, ev.id.to_hex());
                            Res::Ok("key package".into())
                        }
                        Err(e) => Res::Err(e.to_string()),
                    }
                }
                Err(ffi::MdkUniffiError::InvalidInput(e)) => Res::Invalid(e),
                Err(e) => Res::Err(e.to_string()),
            }
        }
        "kp_opt" => err_of(m.create_key_package_for_event_with_options(s(&a, 0), list(&a, 1), a.get(2).and_then(|x| x.as_bool()).unwrap_or(false)), |_| "key package".into()),
        "parse_kp" => err_of(m.parse_key_package(s(&a, 0)), |_| "parsed".into()),
        "groups" => err_of(m.get_groups(), |g| format!("{} groups", g.len())),
        "get_group" => err_of(m.get_group(s(&a, 0)), |g| format!("{}", g.is_some())),
        "needing_su" => err_of(m.groups_needing_self_update(a.get(0).and_then(|x| x.as_u64()).unwrap_or(0)), |g| format!("{}", g.len())),
        "members" => err_of(m.get_members(s(&a, 0)), |g| format!("{} members", g.len())),
        "relays" => err_of(m.get_relays(s(&a, 0)), |g| format!("{} relays", g.len())),
        "messages" => err_of(m.get_messages(s(&a, 0), opt_u32(&a, 1), opt_u32(&a, 2), opt_s(&a, 3)), |g| format!("{} messages", g.len())),
        "message" => err_of(m.get_message(s(&a, 0), s(&a, 1)), |g| format!("{}", g.is_some())),
        "last" => err_of(m.get_last_message(s(&a, 0), s(&a, 1)), |g| format!("{}", g.is_some())),
        "pending_welcomes" => err_of(m.get_pending_welcomes(opt_u32(&a, 0), opt_u32(&a, 1)), |g| format!("{}", g.len())),
        "get_welcome" => err_of(m.get_welcome(s(&a, 0)), |g| format!("{}", g.is_some())),
        "process_welcome" => {
            let r = m.process_welcome(s(&a, 0), s(&a, 1));
            match r {
                Ok(w) => {
                    c.add(K::WelcomeRec, welcome_to_json(&w).to_string());
                    if let Some(j) = welcome_serde_json(&w) {
                        c.add(K::WelcomeJson, j);
                    }
                    c.add(K::Gid, w.mls_group_id.clone());
                    c.add(K::EventId, w.id.clone());
                    Res::Ok(format!("welcome {}", w.state))
                }
                Err(ffi::MdkUniffiError::InvalidInput(e)) => Res::Invalid(e),
                Err(e) => Res::Err(e.to_string()),
            }
        }
        "accept_json" => err_of(m.accept_welcome_json(s(&a, 0)), |_| "accepted".into()),
        "decline_json" => err_of(m.decline_welcome_json(s(&a, 0)), |_| "declined".into()),
        "accept_rec" => err_of(m.accept_welcome(welcome_rec(&serde_json::from_str(&s(&a, 0)).unwrap_or(Value::Null))), |_| "accepted".into()),
        "decline_rec" => err_of(m.decline_welcome(welcome_rec(&serde_json::from_str(&s(&a, 0)).unwrap_or(Value::Null))), |_| "declined".into()),
        "create_group" => {
            let r = m.create_group(s(&a, 0), list(&a, 1), s(&a, 2), s(&a, 3), list(&a, 4), list(&a, 5));
            match r {
                Ok(g) => {
                    c.add(K::Gid, g.group.mls_group_id.clone());
                    for w in &g.welcome_rumors_json {
                        c.add(K::RumorJson, w.clone());
                    }
                    Res::Ok(format!("group created, {} welcomes", g.welcome_rumors_json.len()))
                }
                Err(ffi::MdkUniffiError::InvalidInput(e)) => Res::Invalid(e),
                Err(e) => Res::Err(e.to_string()),
            }
        }
        "add" => match m.add_members(s(&a, 0), list(&a, 1)) {
            Ok(u) => Res::Ok(upd(c, u)),
            Err(ffi::MdkUniffiError::InvalidInput(e)) => Res::Invalid(e),
            Err(e) => Res::Err(e.to_string()),
        },
        "remove" => match m.remove_members(s(&a, 0), list(&a, 1)) {
            Ok(u) => Res::Ok(upd(c, u)),
            Err(ffi::MdkUniffiError::InvalidInput(e)) => Res::Invalid(e),
            Err(e) => Res::Err(e.to_string()),
        },
        "merge" => err_of(m.merge_pending_commit(s(&a, 0)), |_| "merged".into()),
        "clear" => err_of(m.clear_pending_commit(s(&a, 0)), |_| "cleared".into()),
        "sync" => err_of(m.sync_group_metadata_from_mls(s(&a, 0)), |_| "synced".into()),
        "create_message" => {
            let tags: Option<Vec<Vec<String>>> = a.get(4).and_then(|x| x.as_array()).map(|ts| ts.iter().map(|t| t.as_array().map(|q| q.iter().map(|z| z.as_str().unwrap_or("").to_string()).collect()).unwrap_or_default()).collect());
            match m.create_message(s(&a, 0), s(&a, 1), s(&a, 2), a.get(3).and_then(|x| x.as_u64()).unwrap_or(9) as u16, tags) {
                Ok(j) => {
                    c.add(K::EventJson, j.clone());
                    if let Ok(e) = nostr::Event::from_json(&j) {
                        c.add(K::EventId, e.id.to_hex());
                    }
                    Res::Ok("message created".into())
                }
                Err(ffi::MdkUniffiError::InvalidInput(e)) => Res::Invalid(e),
                Err(e) => Res::Err(e.to_string()),
            }
        }
        "self_update" => match m.self_update(s(&a, 0)) {
            Ok(u) => Res::Ok(upd(c, u)),
            Err(ffi::MdkUniffiError::InvalidInput(e)) => Res::Invalid(e),
            Err(e) => Res::Err(e.to_string()),
        },
        "leave" => match m.leave_group(s(&a, 0)) {
            Ok(u) => Res::Ok(upd(c, u)),
            Err(ffi::MdkUniffiError::InvalidInput(e)) => Res::Invalid(e),
            Err(e) => Res::Err(e.to_string()),
        },
        "update_data" => {
            let o = a.get(1).cloned().unwrap_or(Value::Null);
            let ob = |k: &str| -> Option<Option<Vec<u8>>> { o.get(k).map(|x| x.as_str().map(|h| hex::decode(h).unwrap_or_else(|_| h.as_bytes().to_vec()))) };
            let u = ffi::GroupDataUpdate {
                name: o.get("name").and_then(|x| x.as_str()).map(|x| x.to_string()),
                description: o.get("description").and_then(|x| x.as_str()).map(|x| x.to_string()),
                image_hash: ob("image_hash"),
                image_key: ob("image_key"),
                image_nonce: ob("image_nonce"),
                relays: o.get("relays").and_then(|x| x.as_array()).map(|v| v.iter().map(|y| y.as_str().unwrap_or("").to_string()).collect()),
                admins: o.get("admins").and_then(|x| x.as_array()).map(|v| v.iter().map(|y| y.as_str().unwrap_or("").to_string()).collect()),
            };
            match m.update_group_data(s(&a, 0), u) {
                Ok(u) => Res::Ok(upd(c, u)),
                Err(ffi::MdkUniffiError::InvalidInput(e)) => Res::Invalid(e),
                Err(e) => Res::Err(e.to_string()),
            }
        }
        "process_message" => match m.process_message(s(&a, 0)) {
            Ok(r) => Res::Ok(match r {
                ffi::ProcessMessageResult::ApplicationMessage { .. } => "app".into(),
                ffi::ProcessMessageResult::Proposal { result } => upd(c, result),
                ffi::ProcessMessageResult::PendingProposal { .. } => "pending proposal".into(),
                ffi::ProcessMessageResult::ExternalJoinProposal { .. } => "external join".into(),
                ffi::ProcessMessageResult::Commit { .. } => "commit".into(),
                ffi::ProcessMessageResult::Unprocessable { .. } => "unprocessable".into(),
                ffi::ProcessMessageResult::IgnoredProposal { .. } => "ignored proposal".into(),
                ffi::ProcessMessageResult::PreviouslyFailed => "previously failed".into(),
            }),
            Err(ffi::MdkUniffiError::InvalidInput(e)) => Res::Invalid(e),
            Err(e) => Res::Err(e.to_string()),
        },
        "prep_image" => err_of(ffi::prepare_group_image_for_upload(bytes(&a, 0), s(&a, 1)), |u| format!("{} bytes", u.encrypted_size)),
        "decrypt_image" => err_of(ffi::decrypt_group_image(bytes(&a, 0), a.get(1).and_then(|x| x.as_str()).map(|h| hex::decode(h).unwrap_or_else(|_| h.as_bytes().to_vec())), bytes(&a, 2), bytes(&a, 3)), |u| format!("{} bytes", u.len())),
        "derive_upload" => err_of(ffi::derive_upload_keypair(bytes(&a, 0), a.get(1).and_then(|x| x.as_u64()).unwrap_or(0) as u16), |_| "derived".into()),
        _ => {
            let _ = step_id;
            Res::Ok("unknown function".into())
        }
    }
}

/// what the bindings expose of an instance
fn exposed(inst: &Inst) -> String {
    let mut out = String::new();
    let mut groups = inst.mdk.get_groups().unwrap_or_default();
    groups.sort_by(|a, b| a.mls_group_id.cmp(&b.mls_group_id));
    for g in groups {
        out.push_str(&format!(
            "G {} {} {} {} {:?} {:?} {:?} {:?} {:?} {:?} {:?} {} {} {}\n",
            g.mls_group_id, g.nostr_group_id, g.name, g.description, g.image_hash, g.image_key, g.image_nonce, g.admin_pubkeys, g.last_message_id, g.last_message_at, g.last_message_processed_at, g.epoch, g.state, g.self_update_state
        ));
        out.push_str(&format!(" members {:?}\n relays {:?}\n", inst.mdk.get_members(g.mls_group_id.clone()).ok(), inst.mdk.get_relays(g.mls_group_id.clone()).ok()));
        for m in inst.mdk.get_messages(g.mls_group_id.clone(), None, None, None).unwrap_or_default() {
            out.push_str(&format!(" M {} {} {} {} {} {} {}\n", m.id, m.event_id, m.sender_pubkey, m.created_at, m.kind, m.state, m.event_json));
        }
    }
    for w in inst.mdk.get_pending_welcomes(None, None).unwrap_or_default() {
        out.push_str(&format!("W {} {} {} {}\n", w.id, w.mls_group_id, w.state, w.wrapper_event_id));
    }
    out
}

/// every table of the database, read through a second connection
fn dump_db(path: &Path) -> String {
    let Ok(conn) = rusqlite::Connection::open_with_flags(path, rusqlite::OpenFlags::SQLITE_OPEN_READ_ONLY) else { return "cannot open".into() };
    let mut out = String::new();
    let tables: Vec<String> = conn
        .prepare("SELECT name FROM sqlite_master WHERE type='table' ORDER BY name")
        .and_then(|mut st| st.query_map([], |r| r.get::<_, String>(0)).map(|it| it.flatten().collect()))
        .unwrap_or_default();
    for t in tables {
        out.push_str(&format!("== {t}\n"));
        if let Ok(mut st) = conn.prepare(&format!("SELECT * FROM \"{t}\"")) {
            let n = st.column_count();
            let mut rows: Vec<String> = vec![];
            if let Ok(mut q) = st.query([]) {
                while let Ok(Some(row)) = q.next() {
                    let mut line = String::new();
                    for i in 0..n {
                        let v: rusqlite::types::Value = row.get(i).unwrap_or(rusqlite::types::Value::Null);
                        line.push_str(&match v {
                            rusqlite::types::Value::Null => "null".to_string(),
                            rusqlite::types::Value::Integer(i) => i.to_string(),
                            rusqlite::types::Value::Real(f) => f.to_string(),
                            rusqlite::types::Value::Text(t) => t,
                            rusqlite::types::Value::Blob(b) => hex::encode(b),
                        });
                        line.push('|');
                    }
                    rows.push(line);
                }
            }
            rows.sort();
            for r in rows {
                out.push_str(&r);
                out.push('\n');
            }
        }
    }
    out
}

const FUNCS: &[(&str, &[K], u64)] = &[
    ("kp", &[K::Pk], 2),
    ("parse_kp", &[K::KpJson], 4),
    ("get_group", &[K::Gid], 2),
    ("members", &[K::Gid], 2),
    ("relays", &[K::Gid], 2),
    ("messages", &[K::Gid], 3),
    ("message", &[K::Gid, K::EventId], 2),
    ("last", &[K::Gid, K::Sort], 2),
    ("pending_welcomes", &[], 1),
    ("get_welcome", &[K::EventId], 2),
    ("process_welcome", &[K::EventId, K::RumorJson], 6),
    ("accept_json", &[K::WelcomeJson], 4),
    ("decline_json", &[K::WelcomeJson], 1),
    ("accept_rec", &[K::WelcomeRec], 4),
    ("decline_rec", &[K::WelcomeRec], 1),
    ("create_group", &[K::Pk, K::KpJson, K::Text, K::Text, K::Relay, K::Pk], 2),
    ("add", &[K::Gid, K::KpJson], 3),
    ("remove", &[K::Gid, K::Pk], 2),
    ("merge", &[K::Gid], 5),
    ("clear", &[K::Gid], 1),
    ("sync", &[K::Gid], 1),
    ("create_message", &[K::Gid, K::Pk, K::Text], 6),
    ("self_update", &[K::Gid], 2),
    ("leave", &[K::Gid], 1),
    ("update_data", &[K::Gid], 3),
    ("process_message", &[K::EventJson], 10),
    ("prep_image", &[K::HexBytes, K::Mime], 1),
    ("decrypt_image", &[K::HexBytes, K::HexBytes, K::HexBytes, K::HexBytes], 1),
    ("derive_upload", &[K::HexBytes], 1),
    ("needing_su", &[], 1),
    ("groups", &[], 1),
];

/// Build the argument array of one call; returns (args, all arguments honest).
fn gen_call(f: &str, kinds: &[K], inst: usize, pks: &[String], c: &Corpus, r: &mut Rng, hostile_rate: u64) -> (Value, bool) {
    let honest = std::cell::Cell::new(true);
    let one = |k: K, r: &mut Rng| -> Value {
        let a = draw(k, c, r, hostile_rate);
        honest.set(honest.get() && a.honest);
        a.v
    };
    let own_pk = |r: &mut Rng| -> Value {
        if r.below(100) < 85 {
            Value::String(pks[inst].clone())
        } else {
            honest.set(false);
            Value::String(pks[r.below(pks.len() as u64) as usize].clone())
        }
    };
    let args = match f {
        "kp" => {
            let p = own_pk(r);
            let rel = one(K::Relay, r);
            json!([p, [rel]])
        }
        "messages" => {
            let g = one(K::Gid, r);
            let lim = if r.chance(1, 2) { Value::Null } else { Value::from([0u32, 1, 5, 1000, 1001, u32::MAX][r.below(6) as usize]) };
            let off = if r.chance(1, 2) { Value::Null } else { Value::from([0u32, 1, 7, u32::MAX][r.below(4) as usize]) };
            let so = if r.chance(1, 2) { Value::Null } else { one(K::Sort, r) };
            json!([g, lim, off, so])
        }
        "pending_welcomes" => {
            let lim = if r.chance(1, 2) { Value::Null } else { Value::from([0u32, 1, 5, 1000, 1001, u32::MAX][r.below(6) as usize]) };
            let off = if r.chance(1, 2) { Value::Null } else { Value::from([0u32, 1, 7, u32::MAX][r.below(4) as usize]) };
            json!([lim, off])
        }
        "create_group" => {
            let p = own_pk(r);
            let n = r.below(3) as usize;
            let kps: Vec<Value> = (0..n).map(|_| one(K::KpJson, r)).collect();
            let admins: Vec<Value> = if r.chance(3, 4) { vec![p.clone()] } else { vec![p.clone(), one(K::Pk, r)] };
            json!([p, kps, one(K::Text, r), one(K::Text, r), [one(K::Relay, r)], admins])
        }
        "add" => json!([one(K::Gid, r), [one(K::KpJson, r)]]),
        "remove" => json!([one(K::Gid, r), [one(K::Pk, r)]]),
        "create_message" => {
            let p = own_pk(r);
            let tags = if r.chance(2, 3) {
                Value::Null
            } else if r.chance(1, 2) {
                json!([["t", "x"], ["e", hex::encode([7u8; 32])]])
            } else {
                honest.set(false);
                json!([[hostile_string(r), hostile_string(r)], []])
            };
            {
                let kind = [9u64, 1, 7, 445, 65535][r.below(5) as usize];
                json!([one(K::Gid, r), p, one(K::Text, r), kind, tags])
            }
        }
        "update_data" => {
            let mut o = serde_json::Map::new();
            if r.chance(1, 2) {
                o.insert("name".into(), one(K::Text, r));
            }
            if r.chance(1, 3) {
                o.insert("description".into(), one(K::Text, r));
            }
            if r.chance(1, 4) {
                o.insert("relays".into(), json!([one(K::Relay, r)]));
            }
            if r.chance(1, 4) {
                o.insert("admins".into(), json!([pks[inst], one(K::Pk, r)]));
            }
            if r.chance(1, 4) {
                o.insert("image_hash".into(), if r.chance(1, 3) { Value::Null } else { one(K::HexBytes, r) });
                o.insert("image_key".into(), if r.chance(1, 3) { Value::Null } else { one(K::HexBytes, r) });
                o.insert("image_nonce".into(), if r.chance(1, 3) { Value::Null } else { one(K::HexBytes, r) });
            }
            json!([one(K::Gid, r), Value::Object(o)])
        }
        "decrypt_image" => json!([one(K::HexBytes, r), if r.chance(1, 2) { Value::Null } else { one(K::HexBytes, r) }, one(K::HexBytes, r), one(K::HexBytes, r)]),
        "derive_upload" => {
            let v = [0u64, 1, 2, 3, 65535][r.below(5) as usize];
            json!([one(K::HexBytes, r), v])
        }
        "needing_su" => {
            let v = [0u64, 1, 86400, u64::MAX][r.below(4) as usize];
            json!([v])
        }
        _ => Value::Array(kinds.iter().map(|k| one(*k, r)).collect()),
    };
    (args, honest.get())
}

pub fn run(cfg: &RunCfg, replay: Option<&[Step]>) -> RunOutput {
    let mut out = empty_output(cfg);
    let mut r = Rng::new(cfg.seed).fork(0xB1D);
    let dir = fresh_dir();
    let now = T0;
    seam::set_time(now);
    seam::reseed(cfg.seed, 0, 0);
    let mut insts: Vec<Inst> = vec![];
    for i in 0..N_INST {
        let path = dir.join(format!("bind{i}.sqlite"));
        let keys = Keys::generate();
        match ffi::new_mdk_unencrypted(path.to_string_lossy().to_string(), None) {
            Ok(mdk) => insts.push(Inst { mdk, keys, path }),
            Err(e) => {
                out.harness_error = Some(format!("cannot open binding instance: {e}"));
                return out;
            }
        }
    }
    let pks: Vec<String> = insts.iter().map(|i| i.keys.public_key().to_hex()).collect();
    let mut corpus = Corpus::default();
    for p in &pks {
        corpus.add(K::Pk, p.clone());
    }
    // ordinary session first (scripted, honest), then the seeded mix
    let mut script: Vec<(usize, &str)> = vec![(0, "kp"), (2, "kp"), (1, "create_group"), (0, "process_welcome"), (0, "accept_rec"), (1, "merge"), (1, "create_message"), (0, "process_message"), (0, "create_message"), (1, "process_message")];
    script.reverse();
    let hostile_rate = [10u64, 25, 40, 60][r.below(4) as usize];
    let n_steps = match replay {
        Some(s) => s.len(),
        None => 10 + cfg.steps.min(80),
    };
    let mut panicked = false;
    let (mut refused_invalid, mut refused_other, mut honest_ok, mut hostile_calls) = (0u64, 0u64, 0u64, 0u64);
    let mut sig = vec![];
    for i in 0..n_steps {
        let step = match replay {
            Some(s) => s[i].clone(),
            None => {
                let (inst, f, kinds, hr): (usize, &str, &[K], u64) = match script.pop() {
                    Some((inst, f)) => {
                        let k = FUNCS.iter().find(|x| x.0 == f).map(|x| x.1).unwrap_or(&[]);
                        (inst, f, k, 0)
                    }
                    None => {
                        let w: Vec<u64> = FUNCS.iter().map(|x| x.2).collect();
                        let fi = r.weighted(&w).unwrap_or(0);
                        (r.below(N_INST as u64) as usize, FUNCS[fi].0, FUNCS[fi].1, hostile_rate)
                    }
                };
                let (args, _) = gen_call(f, kinds, inst, &pks, &corpus, &mut r, hr);
                Step { id: i as u32 + 1, node: inst, dt: 0, op: Op::Hostile(HostileOp::Bind(BindCall { f: f.to_string(), args: args.to_string() })) }
            }
        };
        out.steps.push(step.clone());
        let Op::Hostile(HostileOp::Bind(bc)) = &step.op else { continue };
        let inst = step.node.min(N_INST - 1);
        let honest = !bc.args.chars().any(|c| !c.is_ascii()) && bc.args.len() < 20_000;
        if !honest {
            hostile_calls += 1;
            *out.faults.entry("hostile:binding_argument".into()).or_insert(0) += 1;
        }
        seam::set_time(now + i as u64);
        seam::reseed(cfg.seed, step.id as u64, inst as u64);
        let before_exposed = exposed(&insts[inst]);
        let before_db = dump_db(&insts[inst].path);
        let res = catch_unwind(AssertUnwindSafe(|| call(&insts[inst], &mut corpus, bc, step.id)));
        let short_args: String = bc.args.chars().take(140).collect();
        match res {
            Err(p) => {
                out.violations.push(Violation { property: "C06".into(), clause: "panic".into(), step: Some(step.id), node: Some(inst), detail: format!("binding {}({}) panicked: {}", bc.f, short_args, seam::panic_msg(&p)), known: None });
                out.log.push(format!("#{} i{inst} {}({short_args}) -> PANIC", step.id, bc.f));
                panicked = true;
            }
            Ok(Res::Ok(t)) => {
                honest_ok += 1;
                sig.push(format!("{}:{}", bc.f, t));
                out.log.push(format!("#{} i{inst} {}({short_args}) -> ok {t}", step.id, bc.f));
            }
            Ok(Res::Invalid(e)) => {
                refused_invalid += 1;
                sig.push(format!("{}:invalid", bc.f));
                out.log.push(format!("#{} i{inst} {}({short_args}) -> InvalidInput {}", step.id, bc.f, e.chars().take(100).collect::<String>()));
                // the property's no-effect clause is about message and welcome processing
                if bc.f == "process_message" || bc.f == "process_welcome" {
                    let after_db = dump_db(&insts[inst].path);
                    if after_db != before_db {
                        let d = first_diff(&before_db, &after_db);
                        out.violations.push(Violation { property: "C06".into(), clause: "refused-event-had-an-effect".into(), step: Some(step.id), node: Some(inst), detail: format!("binding {}({short_args}) answered InvalidInput but the database changed: {d}", bc.f), known: None });
                    }
                }
            }
            Ok(Res::Err(e)) => {
                refused_other += 1;
                sig.push(format!("{}:err", bc.f));
                out.log.push(format!("#{} i{inst} {}({short_args}) -> Err {}", step.id, bc.f, e.chars().take(100).collect::<String>()));
                if bc.f == "process_message" || bc.f == "process_welcome" {
                    let after = exposed(&insts[inst]);
                    if after != before_exposed {
                        let d = first_diff(&before_exposed, &after);
                        // KF-C06-1: the client rolled back for a better candidate and then refused it
                        let epochs = |t: &str| -> Vec<(String, u64)> {
                            t.lines().filter(|l| l.starts_with("G ")).map(|l| {
                                let f: Vec<&str> = l.split(' ').collect();
                                (f.get(1).unwrap_or(&"").to_string(), f.iter().rev().nth(2).and_then(|x| x.parse().ok()).unwrap_or(0))
                            }).collect()
                        };
                        let (eb, ea) = (epochs(&before_exposed), epochs(&after));
                        let rolled_back = eb.iter().any(|(g, e)| ea.iter().any(|(g2, e2)| g == g2 && e2 < e));
                        out.violations.push(Violation { property: "C06".into(), clause: "refused-event-had-an-effect".into(), step: Some(step.id), node: Some(inst), detail: format!("binding {}({short_args}) answered Err({}) but what the bindings expose changed: {d}", bc.f, e.chars().take(80).collect::<String>()), known: if rolled_back { Some("KF-C06-1".into()) } else { None } });
                    }
                }
            }
        }
        if panicked {
            break;
        }
    }
    if std::env::var_os("MDK_SIM_CAPTURE").is_some() {
        for l in &out.log {
            eprintln!("{}", l.chars().take(300).collect::<String>());
        }
    }
    out.n_steps = out.steps.len();
    out.sim_time = n_steps as u64;
    out.signature = crate::node::h8(sig.join(",").as_bytes());
    out.nontrivial = refused_invalid > 0 && refused_other > 0 && honest_ok >= 8;
    *out.probes.entry("binding_calls_refused_invalid_input".into()).or_insert(0) += refused_invalid;
    *out.probes.entry("binding_calls_refused_deeper".into()).or_insert(0) += refused_other;
    *out.probes.entry("binding_calls_ok".into()).or_insert(0) += honest_ok;
    *out.probes.entry("binding_calls_with_hostile_bytes".into()).or_insert(0) += hostile_calls;
    for t in &sig {
        out.transitions.push(t.clone());
    }
    drop(insts);
    let _ = std::fs::remove_dir_all(&dir);
    out
}

fn first_diff(a: &str, b: &str) -> String {
    let (la, lb): (Vec<&str>, Vec<&str>) = (a.lines().collect(), b.lines().collect());
    for i in 0..la.len().max(lb.len()) {
        let (x, y) = (la.get(i).copied().unwrap_or("<none>"), lb.get(i).copied().unwrap_or("<none>"));
        if x != y {
            return format!("line {i}: {} -> {}", x.chars().take(160).collect::<String>(), y.chars().take(160).collect::<String>());
        }
    }
    "no line differs".into()
}
