//! C11 — restarting on persistent storage is invisible: the run with restarts versus the same
//! seed without them (exact, thanks to per-step reseeding).

use std::collections::{BTreeMap, BTreeSet};

use crate::driver::*;
use crate::genr::*;
use crate::run::{Oracle, RunOutput};
use crate::world::*;

#[derive(Default)]
pub struct C11 {
    nontrivial: bool,
    restarted: BTreeSet<usize>,
}

impl Oracle for C11 {
    fn after_step(&mut self, w: &mut World, rec: &StepRecord) {
        let n = rec.step.node;
        if matches!(rec.step.op, Op::Restart) && rec.class == "ok" {
            self.restarted.insert(n);
            // what was pending across the restart
            for g in 0..w.groups.len() {
                if w.has_pending_commit(n, g) {
                    w.probe("restart_with_pending_commit");
                }
                if w.gview(n, g).and_then(|v| v.mls.as_ref()).map(|m| !m.pending_proposals.is_empty()).unwrap_or(false) {
                    w.probe("restart_with_pending_proposals");
                }
                if w.gview(n, g).map(|v| !v.snapshots.is_empty()).unwrap_or(false) {
                    w.probe("restart_with_snapshots_present");
                }
                if w.gview(n, g).and_then(|v| v.record.as_ref()).map(|r| r.state == "pending").unwrap_or(false) {
                    w.probe("restart_between_welcome_and_accept");
                }
            }
        } else if self.restarted.contains(&n) {
            if rec.rollback {
                self.nontrivial = true;
                w.probe("rollback_after_restart");
            }
            if matches!(rec.step.op, Op::MergePending { .. }) && rec.class == "ok" {
                self.nontrivial = true;
            }
            if let Op::Deliver { ev } = &rec.step.op {
                // a competing commit handed over after a restart while the node is past its epoch
                if let Some(pe) = w.ev(*ev) {
                    if pe.kind == EvKind::Commit && rec.pre_state.get(&pe.g).map(|s| s.0 > pe.epoch).unwrap_or(false) && pe.creator != n {
                        self.nontrivial = true;
                        w.probe("late_competing_commit_after_restart");
                    }
                }
            }
        }
    }
    fn nontrivial(&self, _w: &World) -> bool {
        self.nontrivial
    }
}

fn mk(_cfg: &RunCfg) -> Box<dyn Oracle> {
    Box::new(C11::default())
}

fn lines_by_id(log: &[String]) -> BTreeMap<u32, String> {
    let mut m = BTreeMap::new();
    for l in log {
        if let Some(rest) = l.strip_prefix('#') {
            if let Some(id) = rest.split(' ').next().and_then(|x| x.parse::<u32>().ok()) {
                m.insert(id, l.clone());
            }
        }
    }
    m
}

pub fn post(v: &Variant, out: &RunOutput) -> (Vec<Violation>, Vec<(String, u64)>) {
    let mut probes = vec![];
    let restarts: Vec<&Step> = out.steps.iter().filter(|s| matches!(s.op, Op::Restart)).collect();
    if restarts.is_empty() {
        return (vec![], probes);
    }
    // the twin keeps every step id and clock advance: restarts become no-ops
    let twin_steps: Vec<Step> = out
        .steps
        .iter()
        .map(|s| if matches!(s.op, Op::Restart) { Step { op: Op::Nop, ..s.clone() } } else { s.clone() })
        .collect();
    let mut v2 = v.clone();
    v2.post = None;
    let twin = match exec_primary(&v2, out.cfg.clone(), Some(twin_steps)) {
        Ok(t) => t,
        Err(e) => {
            return (vec![Violation { property: "C11".into(), clause: "harness".into(), step: None, node: None, detail: format!("twin run failed: {e}"), known: None }], probes);
        }
    };
    probes.push(("twin_runs".to_string(), 1));
    let a = lines_by_id(&out.log);
    let b = lines_by_id(&twin.log);
    let restart_ids: BTreeSet<u32> = restarts.iter().map(|s| s.id).collect();
    let mut viols = vec![];
    let ids: BTreeSet<u32> = a.keys().chain(b.keys()).copied().filter(|i| !restart_ids.contains(i)).collect();
    for id in ids {
        let (la, lb) = (a.get(&id), b.get(&id));
        if la != lb {
            let node: Option<usize> = la.or(lb).and_then(|l| l.split(" n").nth(1)).and_then(|x| x.split(' ').next()).and_then(|x| x.parse().ok());
            let restarted_before = node.map(|n| restarts.iter().any(|s| s.node == n && s.id < id)).unwrap_or(false);
            let a_txt = la.cloned().unwrap_or_else(|| "<step absent>".into());
            let b_txt = lb.cloned().unwrap_or_else(|| "<step absent>".into());
            // KF-C11-1: without the restart the node rolls back for a better competing commit,
            // with it the hydrated snapshot carries no timestamp and the commit is refused
            let known = if restarted_before && b_txt.contains("[rollback") && !a_txt.contains("[rollback") {
                Some("KF-C11-1".to_string())
            } else {
                None
            };
            viols.push(Violation {
                property: "C11".into(),
                clause: "restart-visible".into(),
                step: Some(id),
                node,
                detail: format!("first difference at step #{id}: with restarts: {} || without: {}", a_txt.chars().take(260).collect::<String>(), b_txt.chars().take(260).collect::<String>()),
                known,
            });
            break;
        }
    }
    (viols, probes)
}

fn more_restarts(g: &mut Gen) {
    g.cfg.weights.restart = g.cfg.weights.restart.max(1) + 2;
}

pub fn spec() -> CheckSpec {
    let mut guards = BTreeSet::new();
    for g in ["guarded", "single_committer", "no_publish_failure"] {
        guards.insert(g.to_string());
    }
    // every step on a fresh thread: the twin differs in earlier steps (see seam::step_isolated)
    let mut iso = BTreeSet::new();
    iso.insert("isolate_steps".to_string());
    guards.insert("isolate_steps".to_string());
    let base = Profile { backend: BackendMix::Sqlite, allow_restart: true, msg_heavy: true, steps_lo: 25, steps_hi: 60, guards: iso, ..Default::default() };
    CheckSpec {
        id: "C11",
        level: "exploration",
        rule: "C01/C02 worlds on SQLite/SQLCipher nodes with clean restarts (drop MDK + storage, reopen the file) at seeded positions between API calls, biased by weight; each run is executed twice from the same seed, with and without the restart steps, and every later API result and per-step fingerprint must be identical (per-step reseeding makes ids, keys and timestamps equal, and every step runs on a fresh thread so that hash-map iteration orders are a function of the step, not of the steps before it); non-trivial = a restart followed by a rollback, a late competing commit or the merge of a commit created before the restart; distinct = delivery signature",
        variants: vec![
            Variant { name: "sqlite", profile: Profile { ..base.clone() }, runs_quick: 150, runs_thorough: 8000, oracle: mk, guarded: false, configure_gen: Some(more_restarts), post: Some(post), custom: None },
            Variant { name: "sqlcipher", profile: Profile { backend: BackendMix::SqliteCipher, ..base.clone() }, runs_quick: 60, runs_thorough: 3000, oracle: mk, guarded: false, configure_gen: Some(more_restarts), post: Some(post), custom: None },
            Variant { name: "sqlite-single-committer-guarded", profile: Profile { allow_fork: false, guards: guards.clone(), ..base.clone() }, runs_quick: 100, runs_thorough: 5000, oracle: mk, guarded: true, configure_gen: Some(more_restarts), post: Some(post), custom: None },
        ],
        assumptions: vec!["clean shutdown (crashes are C12)", "same constructor, key, config and callback on reopen"],
        real: super::REAL.to_vec(),
        stubs: super::STUBS.to_vec(),
    }
}
