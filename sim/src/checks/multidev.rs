//! C03, users with several devices: one Nostr identity, several clients (each its own storage and
//! its own leaf). An admin adds and removes USERS; every device keeps being handed every event.
//!
//! Ground truth is kept per user: the admin is the only committer, so epoch numbers name one
//! state each, and `members_at[epoch]` is the set of users after the admin's operations so far.
//! Oracle after every call: a device obtains (is returned, or stores) a message only if its user
//! was a member in the epoch the message was sent in; after the admin removed a user its own MLS
//! roster no longer lists that identity; a device that processed its user's removal holds the
//! group as inactive and cannot send.

use std::collections::{BTreeMap, BTreeSet};

use mdk_core::prelude::*;
use nostr::{Event, EventBuilder, EventId, Keys, Kind, Tag, TagKind, UnsignedEvent};
use serde::{Deserialize, Serialize};

use crate::checks::c10::empty_output;
use crate::genr::*;
use crate::hostile::HostileOp;
use crate::node::{BackendKind, Node, NodeCfg};
use crate::rng::Rng;
use crate::run::{fresh_dir, RunOutput};
use crate::seam;
use crate::with_mdk;
use crate::world::*;

#[derive(Debug, Clone, PartialEq, Eq, Serialize, Deserialize)]
pub enum MdOp {
    /// the admin device adds every device of user `u` (fresh key packages)
    AddUser { u: u8 },
    /// the admin device removes user `u` (by identity)
    RemoveUser { u: u8 },
    /// two users removed by one commit
    RemoveUsers { u: u8, v: u8 },
    /// device `d` sends a message
    Send { d: u8 },
    /// device `d` is handed its next `n` events
    Deliver { d: u8, n: u8 },
    /// time passes
    Tick { dt: u8 },
}

struct Dev {
    node: Node,
    user: usize,
    cursor: usize,
    holds: bool,
}

struct Ev {
    event: Event,
    app: Option<(u64, usize, String)>, // (sending epoch, sending user, canary)
}

pub fn run(cfg: &RunCfg, replay: Option<&[Step]>) -> RunOutput {
    let mut out = empty_output(cfg);
    let mut r = Rng::new(cfg.seed).fork(0x3D);
    let dir = fresh_dir();
    let mut now = T0;
    seam::set_time(now);
    seam::reseed(cfg.seed, 0, 0);
    // users and devices
    let n_users = 3 + r.below(3) as usize;
    let mut user_keys: Vec<Keys> = vec![];
    let mut devs: Vec<Dev> = vec![];
    let mut devices_of: Vec<Vec<usize>> = vec![];
    for u in 0..n_users {
        let keys = Keys::generate();
        let n_dev = if u == 0 { 1 } else { 1 + r.below(3) as usize };
        let mut mine = vec![];
        for _ in 0..n_dev {
            let idx = devs.len();
            let backend = if r.chance(1, 4) { BackendKind::Sqlite } else { BackendKind::Memory };
            let nc = NodeCfg { backend, ..Default::default() };
            match Node::new(idx, nc, &dir) {
                Ok(mut node) => {
                    node.keys = keys.clone();
                    mine.push(idx);
                    devs.push(Dev { node, user: u, cursor: 0, holds: false });
                }
                Err(e) => {
                    out.harness_error = Some(format!("device: {e}"));
                    return out;
                }
            }
        }
        user_keys.push(keys);
        devices_of.push(mine);
    }
    // group: admin = user 0 device 0, first members: users 1 and 2 with all their devices
    let admin = 0usize;
    let mut events: Vec<Ev> = vec![];
    let mut members: BTreeSet<usize> = BTreeSet::new();
    members.insert(0);
    let mut members_at: BTreeMap<u64, BTreeSet<usize>> = BTreeMap::new();
    let mut viol = |out: &mut RunOutput, clause: &str, step: u32, d: usize, detail: String| {
        out.violations.push(Violation { property: "C03".into(), clause: clause.into(), step: Some(step), node: Some(d), detail, known: None });
    };
    let mut kps: Vec<Event> = vec![];
    for u in [1usize, 2] {
        for d in &devices_of[u] {
            seam::reseed(cfg.seed, 1, *d as u64);
            if let Ok(e) = devs[*d].node.publish_key_package() {
                kps.push(e);
            }
        }
    }
    seam::reseed(cfg.seed, 2, 0);
    let admin_pk = user_keys[0].public_key();
    let gcfg = NostrGroupConfigData::new("group-name-md".into(), "group-description-md".into(), None, None, None, vec![crate::node::relay()], vec![admin_pk]);
    let created = with_mdk!(devs[admin].node.mdk(), m => m.create_group(&admin_pk, kps, gcfg));
    let gid = match created {
        Ok(g) => {
            members.insert(1);
            members.insert(2);
            let gid = g.group.mls_group_id.clone();
            hand_welcomes(cfg, &mut devs, &devices_of, &[1, 2], g.welcome_rumors, 3, events.len());
            gid
        }
        Err(e) => {
            out.harness_error = Some(format!("create_group: {e}"));
            return out;
        }
    };
    devs[admin].holds = true;
    let epoch_of = |devs: &Vec<Dev>, d: usize| -> Option<u64> { with_mdk!(devs[d].node.mdk(), m => m.get_group(&gid).ok().flatten().map(|g| g.epoch)) };
    members_at.insert(epoch_of(&devs, admin).unwrap_or(0), members.clone());

    let n_steps = match replay {
        Some(s) => s.len(),
        None => 12 + cfg.steps.min(40),
    };
    let mut sig = vec![];
    let (mut removed_then_fed, mut multi_leaf_removed) = (false, false);
    for i in 0..n_steps {
        let step = match replay {
            Some(s) => s[i].clone(),
            None => {
                let op = match r.below(12) {
                    0 => MdOp::AddUser { u: 1 + r.below(n_users as u64 - 1) as u8 },
                    1 | 2 => MdOp::RemoveUser { u: 1 + r.below(n_users as u64 - 1) as u8 },
                    3 => MdOp::RemoveUsers { u: 1 + r.below(n_users as u64 - 1) as u8, v: 1 + r.below(n_users as u64 - 1) as u8 },
                    4 | 5 | 6 => MdOp::Send { d: r.below(devs.len() as u64) as u8 },
                    11 => MdOp::Tick { dt: 1 + r.below(3) as u8 },
                    _ => MdOp::Deliver { d: r.below(devs.len() as u64) as u8, n: 1 + r.below(6) as u8 },
                };
                Step { id: 10 + i as u32, node: 0, dt: 0, op: Op::Hostile(HostileOp::Multi(op)) }
            }
        };
        out.steps.push(step.clone());
        let Op::Hostile(HostileOp::Multi(op)) = &step.op else { continue };
        seam::set_time(now);
        match op {
            MdOp::Tick { dt } => {
                now += *dt as u64;
                out.sim_time += *dt as u64;
            }
            MdOp::AddUser { u } => {
                let u = *u as usize % n_users;
                if u == 0 || members.contains(&u) {
                    continue;
                }
                let mut kps = vec![];
                for d in devices_of[u].clone() {
                    seam::reseed(cfg.seed, step.id as u64, 100 + d as u64);
                    if let Ok(e) = devs[d].node.publish_key_package() {
                        kps.push(e);
                    }
                }
                seam::reseed(cfg.seed, step.id as u64, 0);
                let res = with_mdk!(devs[admin].node.mdk(), m => m.add_members(&gid, &kps).and_then(|u| m.merge_pending_commit(&gid).map(|_| u)));
                match res {
                    Ok(upd) => {
                        members.insert(u);
                        events.push(Ev { event: upd.evolution_event, app: None });
                        devs[admin].cursor = devs[admin].cursor.max(events.len());
                        if let Some(e) = epoch_of(&devs, admin) {
                            members_at.insert(e, members.clone());
                        }
                        hand_welcomes(cfg, &mut devs, &devices_of, &[u], upd.welcome_rumors.unwrap_or_default(), step.id, events.len());
                        sig.push(format!("add{u}"));
                        out.log.push(format!("#{} admin adds user {u} ({} devices)", step.id, devices_of[u].len()));
                    }
                    Err(e) => out.log.push(format!("#{} admin adds user {u}: Err({e})", step.id)),
                }
            }
            MdOp::RemoveUser { .. } | MdOp::RemoveUsers { .. } => {
                let mut who: Vec<usize> = match op {
                    MdOp::RemoveUser { u } => vec![*u as usize % n_users],
                    MdOp::RemoveUsers { u, v } => vec![*u as usize % n_users, *v as usize % n_users],
                    _ => vec![],
                };
                who.sort();
                who.dedup();
                who.retain(|u| *u != 0 && members.contains(u));
                if who.is_empty() {
                    continue;
                }
                let pks: Vec<nostr::PublicKey> = who.iter().map(|u| user_keys[*u].public_key()).collect();
                seam::reseed(cfg.seed, step.id as u64, 0);
                let res = with_mdk!(devs[admin].node.mdk(), m => m.remove_members(&gid, &pks).and_then(|u| m.merge_pending_commit(&gid).map(|_| u)));
                match res {
                    Ok(upd) => {
                        for u in &who {
                            members.remove(u);
                            if devices_of[*u].len() > 1 {
                                multi_leaf_removed = true;
                                *out.probes.entry("user_with_several_leaves_removed".into()).or_insert(0) += 1;
                            }
                        }
                        events.push(Ev { event: upd.evolution_event, app: None });
                        devs[admin].cursor = devs[admin].cursor.max(events.len());
                        if let Some(e) = epoch_of(&devs, admin) {
                            members_at.insert(e, members.clone());
                        }
                        // the admin's own roster no longer lists the removed identities
                        let roster = with_mdk!(devs[admin].node.mdk(), m => m.get_members(&gid)).unwrap_or_default();
                        for (u, pk) in who.iter().zip(pks.iter()) {
                            if roster.contains(pk) {
                                viol(&mut out, "removed-user-still-in-the-roster", step.id, admin, format!("after remove_members + merge the admin's roster still lists user {u}"));
                            }
                        }
                        sig.push(format!("rm{who:?}"));
                        out.log.push(format!("#{} admin removes users {who:?}", step.id));
                    }
                    Err(e) => out.log.push(format!("#{} admin removes users {who:?}: Err({e})", step.id)),
                }
            }
            MdOp::Send { d } => {
                let d = *d as usize % devs.len();
                if !devs[d].holds {
                    continue;
                }
                let user = devs[d].user;
                let rec = with_mdk!(devs[d].node.mdk(), m => m.get_group(&gid).ok().flatten());
                let Some(rec) = rec else { continue };
                let canary = format!("MDCANARY-{}-{}", cfg.seed % 100_000, step.id);
                seam::reseed(cfg.seed, step.id as u64, d as u64);
                let rumor = EventBuilder::new(Kind::Custom(9), format!("msg {canary}")).tags(vec![Tag::custom(TagKind::Custom("t".into()), ["md"])]).custom_created_at(nostr::Timestamp::from(now)).build(user_keys[user].public_key());
                let res = with_mdk!(devs[d].node.mdk(), m => m.create_message(&gid, rumor));
                let inactive = rec.state == mdk_storage_traits::groups::types::GroupState::Inactive;
                match res {
                    Ok(ev) => {
                        if inactive {
                            viol(&mut out, "evicted-client-can-send", step.id, d, format!("device {d} of user {user}: create_message succeeded on an inactive group"));
                        }
                        events.push(Ev { event: ev, app: Some((rec.epoch, user, canary)) });
                        sig.push(format!("send{d}"));
                        out.log.push(format!("#{} device {d} (user {user}) sends at epoch {}", step.id, rec.epoch));
                    }
                    Err(e) => out.log.push(format!("#{} device {d} (user {user}) send: Err({e})", step.id)),
                }
            }
            MdOp::Deliver { d, n } => {
                let d = *d as usize % devs.len();
                if !devs[d].holds || d == admin && devs[d].cursor >= events.len() {
                    continue;
                }
                let user = devs[d].user;
                for _ in 0..*n {
                    let c = devs[d].cursor;
                    if c >= events.len() {
                        break;
                    }
                    devs[d].cursor += 1;
                    seam::reseed(cfg.seed, step.id as u64, 1000 + c as u64);
                    let res = with_mdk!(devs[d].node.mdk(), m => m.process_message(&events[c].event));
                    let txt = match &res {
                        Ok(MessageProcessingResult::ApplicationMessage(m)) => format!("App({})", m.content.chars().take(40).collect::<String>()),
                        Ok(MessageProcessingResult::Commit { .. }) => "Commit".into(),
                        Ok(MessageProcessingResult::Unprocessable { .. }) => "Unprocessable".into(),
                        Ok(_) => "other".into(),
                        Err(e) => format!("Err({})", e.to_string().chars().take(60).collect::<String>()),
                    };
                    out.log.push(format!("#{} device {d} (user {user}) <- event {c}: {txt}", step.id));
                    if let Some((ep, sender, canary)) = &events[c].app {
                        let allowed = members_at.get(ep).map(|s| s.contains(&user)).unwrap_or(true);
                        if !allowed {
                            removed_then_fed = true;
                            *out.probes.entry("message_fed_to_device_of_non_member_user".into()).or_insert(0) += 1;
                        }
                        if let Ok(MessageProcessingResult::ApplicationMessage(_)) = &res {
                            if !allowed {
                                viol(&mut out, "plaintext-returned-to-non-member-of-epoch", step.id, d, format!("device {d} of user {user} obtained {canary} (sent by user {sender} in epoch {ep}, members {:?})", members_at.get(ep)));
                            }
                        }
                    }
                }
                sig.push(format!("dl{d}"));
            }
        }
        // stored plaintext: every device, every message
        for (d, dev) in devs.iter().enumerate() {
            if !dev.holds {
                continue;
            }
            let msgs = with_mdk!(dev.node.mdk(), m => m.get_messages(&gid, None)).unwrap_or_default();
            for m in msgs {
                if let Some(ev) = events.iter().find(|e| e.app.as_ref().map(|a| m.content.contains(&a.2)).unwrap_or(false)) {
                    let (ep, _, canary) = ev.app.as_ref().unwrap();
                    if members_at.get(ep).map(|s| !s.contains(&dev.user)).unwrap_or(false) {
                        viol(&mut out, "plaintext-stored-by-non-member-of-epoch", step.id, d, format!("device {d} of user {} stores {canary} sent in epoch {ep}", dev.user));
                    }
                }
            }
        }
        if !out.violations.is_empty() {
            break;
        }
    }
    if std::env::var_os("MDK_SIM_CAPTURE").is_some() {
        for l in &out.log {
            eprintln!("{l}");
        }
    }
    out.n_steps = out.steps.len();
    out.signature = crate::node::h8(sig.join(",").as_bytes());
    out.transitions = sig;
    out.nontrivial = removed_then_fed && multi_leaf_removed;
    // keep one violation per clause
    let mut seen = BTreeSet::new();
    out.violations.retain(|v| seen.insert(v.clause.clone()));
    drop(devs);
    let _ = std::fs::remove_dir_all(&dir);
    out
}

/// Every device of the invited users tries every invitation: exactly the one made for its key
/// package opens; it is accepted at once.
fn hand_welcomes(cfg: &RunCfg, devs: &mut [Dev], devices_of: &[Vec<usize>], users: &[usize], rumors: Vec<UnsignedEvent>, step: u32, cursor: usize) {
    for u in users {
        for d in &devices_of[*u] {
            for (i, rumor) in rumors.iter().enumerate() {
                seam::reseed(cfg.seed, step as u64, 5000 + (*d as u64) * 100 + i as u64);
                let wid = EventId::from_slice(&sha2_32(format!("mdw:{}:{}:{}:{}", cfg.seed, step, d, i).as_bytes())).unwrap();
                let w = with_mdk!(devs[*d].node.mdk(), m => m.process_welcome(&wid, rumor));
                if let Ok(w) = w {
                    let _ = with_mdk!(devs[*d].node.mdk(), m => m.accept_welcome(&w));
                    devs[*d].holds = true;
                    devs[*d].cursor = cursor;
                    break;
                }
            }
        }
    }
}
