//! C14 — logs and errors never carry group identifiers or secrets.

use std::collections::{BTreeMap, BTreeSet};

use base64::Engine;
use mdk_storage_traits::groups::GroupStorage;
use openmls_traits::OpenMlsProvider;

use crate::driver::*;
use crate::genr::*;
use crate::run::Oracle;
use crate::with_mdk;
use crate::world::*;

#[derive(Default)]
pub struct C14 {
    /// needle -> what it is
    needles: BTreeMap<String, String>,
    known_values: BTreeSet<Vec<u8>>,
    error_path: bool,
    records: u64,
    /// variant `crash`: one process death inside a commit-applying call, then the run goes on
    crash: bool,
    armed: bool,
    crashed: bool,
}

impl C14 {
    fn add(&mut self, what: &str, bytes: &[u8]) {
        if bytes.len() < 12 || !self.known_values.insert(bytes.to_vec()) {
            return;
        }
        let p = &bytes[..8];
        let hexl = hex::encode(p);
        self.needles.insert(hexl.to_uppercase(), format!("{what} (upper-case hex prefix)"));
        self.needles.insert(hexl, format!("{what} (hex prefix)"));
        self.needles.insert(p.iter().map(|b| b.to_string()).collect::<Vec<_>>().join(", "), format!("{what} (byte list)"));
        self.needles.insert(p.iter().map(|b| b.to_string()).collect::<Vec<_>>().join(","), format!("{what} (byte list, no spaces)"));
        self.needles.insert(base64::engine::general_purpose::STANDARD.encode(&bytes[..9]), format!("{what} (base64 prefix)"));
    }

    fn scan(&self, text: &str) -> Option<(String, String)> {
        for (n, what) in &self.needles {
            if text.contains(n.as_str()) {
                return Some((what.clone(), n.clone()));
            }
        }
        None
    }
}

impl Oracle for C14 {
    fn after_step(&mut self, w: &mut World, rec: &StepRecord) {
        let node = rec.step.node;
        if node >= w.nodes.len() {
            return;
        }
        if self.crash && !self.armed && !w.groups.is_empty() {
            self.armed = true;
            w.arm_crash_op = Some((vec!["merge", "deliver"], 10 + (w.seed >> 7) % 34));
        }
        if rec.crashed_at.is_some() {
            self.crashed = true;
            w.probe("death_inside_a_call_then_logs_scanned");
        }
        if self.crashed {
            // what state a death inside a call leaves behind is C12's subject (KF-C12-1); this
            // check looks at what the library prints while it lives with that state
            w.violations.retain(|v| v.property == "C14");
        }
        // collect the sensitive values the simulator has seen so far
        let sens: Vec<String> = w.sensitive.iter().cloned().collect();
        for s in sens {
            if let Ok(b) = hex::decode(&s) {
                let what = if b.len() == 16 { "MLS group id" } else { "Nostr group id / image key" };
                self.add(what, &b);
            }
        }
        if w.nodes[node].mdk.is_some() {
            for g in 0..w.groups.len() {
                let Some(gid) = w.gid(g) else { continue };
                let top = w.node_state(node, g).map(|s| s.0).unwrap_or(0);
                for e in 0..=top {
                    let sec = with_mdk!(w.nodes[node].mdk(), m => m.provider.storage().get_group_exporter_secret(&gid, e).ok().flatten().map(|s| s.secret.as_ref().to_vec()));
                    if let Some(s) = sec {
                        self.add("exporter secret", &s);
                    }
                }
                if let Some(gv) = w.gview(node, g) {
                    if let Some(m) = &gv.mls {
                        for (what, v) in [("Nostr group id", Some(m.ext_nostr_group_id.clone())), ("image key", m.ext_image_key.clone()), ("image upload seed", m.ext_image_upload_key.clone()), ("image nonce", m.ext_image_nonce.clone())] {
                            if let Some(h) = v {
                                if let Ok(b) = hex::decode(&h) {
                                    self.add(what, &b);
                                }
                            }
                        }
                    }
                }
            }
            if w.nodes[node].cfg.backend == crate::node::BackendKind::SqliteCipher {
                let k = w.nodes[node].db_key;
                self.add("database key", &k);
            }
        }
        if is_refusal(&rec.class) || rec.rollback {
            self.error_path = true;
        }
        // rollback notifications handed to the application
        let infos = w.nodes[node].rollbacks.infos.lock().unwrap().clone();
        let mut texts: Vec<(String, String)> = vec![];
        if rec.rollback {
            if let Some(i) = infos.last() {
                texts.push(("Debug of RollbackInfo".into(), format!("{i:?}")));
            }
        }
        for l in &rec.logs {
            texts.push(("log record".into(), l.clone()));
        }
        self.records += rec.logs.len() as u64;
        if !rec.debug_out.is_empty() {
            texts.push(("Debug/Display of the value returned by process_message".into(), rec.debug_out.clone()));
        }
        if rec.class == "err" {
            texts.push(("Display of a returned error".into(), rec.outcome.clone()));
        }
        let mut seen = BTreeSet::new();
        for (kind, t) in texts {
            if let Some((what, needle)) = self.scan(&t) {
                let clause = if kind.starts_with("log") { "sensitive-value-in-log" } else { "sensitive-value-in-returned-value" };
                if seen.insert((clause, what.clone())) {
                    w.violations.push(Violation {
                        property: "C14".into(),
                        clause: clause.into(),
                        step: Some(rec.step.id),
                        node: Some(node),
                        detail: format!("{kind} contains {what} [{needle}]: {}", t.chars().take(300).collect::<String>()),
                        known: None,
                    });
                }
            }
        }
    }

    fn at_end(&mut self, w: &mut World, _cfg: &RunCfg, _gn: &Gen, _q: bool, _p: usize) {
        if self.records > 0 {
            *w.probes.entry("log_records_scanned".into()).or_insert(0) += self.records;
        }
        *w.probes.entry("sensitive_needles".into()).or_insert(0) += self.needles.len() as u64;
        // configuration / secret holder types print a redaction
        let cfgd = format!("{:?}", mdk_core::MdkConfig::default());
        let enc = format!("{:?}", mdk_sqlite_storage::EncryptionConfig::new([0xAB; 32]));
        let sec = format!("{:?}", mdk_storage_traits::Secret::new([0xCD; 32]));
        for (name, t, bad) in [("EncryptionConfig", enc, "171, 171"), ("EncryptionConfig", cfgd, "ABABAB"), ("Secret", sec, "205, 205")] {
            if t.contains(bad) || t.to_lowercase().contains("abababab") || t.to_lowercase().contains("cdcdcdcd") {
                w.violations.push(Violation { property: "C14".into(), clause: "secret-holder-debug-not-redacted".into(), step: None, node: None, detail: format!("Debug of {name}: {t}"), known: None });
            }
        }
    }

    fn nontrivial(&self, _w: &World) -> bool {
        self.error_path && self.records > 0 && (!self.crash || self.crashed)
    }
}

fn mk(_cfg: &RunCfg) -> Box<dyn Oracle> {
    Box::new(C14::default())
}

fn mk_crash(_cfg: &RunCfg) -> Box<dyn Oracle> {
    Box::new(C14 { crash: true, ..Default::default() })
}

fn conf(g: &mut Gen) {
    super::byz::install(g);
    g.oversize_data = true;
}

pub fn spec() -> CheckSpec {
    let mut guards = BTreeSet::new();
    for g in ["capture_logs", "h_garbage", "h_outer", "h_commit", "h_proposal", "h_welcome", "h_rumor", "h_rewrap", "h_keypackage"] {
        guards.insert(g.to_string());
    }
    let base = Profile { guards, hostile: 4, second_group: true, allow_restart: true, ..Default::default() };
    CheckSpec {
        id: "C14",
        level: "exploration",
        rule: "history monitor over the mixed worlds of C01-C07/C16 (forks, rollbacks, restarts, id rotations, image-key updates, hostile and malformed events and invitations): a TRACE-level tracing subscriber for all targets captures every record emitted on the run's thread, plus Display and Debug of every returned error, Debug of every MessageProcessingResult and of every RollbackInfo handed to the callback; none may contain any sensitive value the simulator has seen (every MLS group id, Nostr group id incl. rotated ones, exporter secret of every epoch on every client, image key / nonce / upload seed, SQLCipher key) as lower/upper-case hex, Rust byte list with or without spaces, or base64, matched on an 8-byte prefix; Debug of MdkConfig / EncryptionConfig / Secret is checked for redaction; event ids and public keys are not sensitive; non-trivial = an error or rollback path was logged; distinct = delivery signature",
        variants: vec![
            Variant { name: "mem", profile: Profile { backend: BackendMix::Memory, ..base.clone() }, runs_quick: 250, runs_thorough: 12000, oracle: mk, guarded: false, configure_gen: Some(conf), post: None, custom: None },
            Variant { name: "mixed", profile: Profile { backend: BackendMix::Mixed, ..base.clone() }, runs_quick: 120, runs_thorough: 6000, oracle: mk, guarded: false, configure_gen: Some(conf), post: None, custom: None },
            Variant { name: "crash", profile: Profile { backend: BackendMix::Sqlite, ..base.clone() }, runs_quick: 120, runs_thorough: 6000, oracle: mk_crash, guarded: false, configure_gen: Some(conf), post: None, custom: None },
        ],
        assumptions: vec!["openmls logs through the `log` crate, which is not bridged to tracing here: only records of the mdk crates (and anything else using tracing) are captured", "a sensitive value is recognised by an 8-byte prefix in the stated encodings"],
        real: super::REAL.to_vec(),
        stubs: super::STUBS.to_vec(),
    }
}
