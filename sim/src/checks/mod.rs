pub mod c01;
pub mod c02;
pub mod byz;
pub mod bind;
pub mod multidev;
pub mod c03;
pub mod c04;
pub mod c05;
pub mod c06;
pub mod c07;
pub mod c08;
pub mod c09;
pub mod c10;
pub mod c11;
pub mod c12;
pub mod c13;
pub mod c14;
pub mod c16;
pub mod c17;
pub mod c18;
pub mod c19;
pub mod c20;

use crate::driver::CheckSpec;

pub const REAL: &[&str] = &[
    "mdk-core (all of it)", "mdk-storage-traits", "mdk-memory-storage", "mdk-sqlite-storage (bundled SQLite/SQLCipher on tmpfs)",
    "openmls + RustCrypto", "nostr (NIP-44, Schnorr, event ids)", "rusqlite", "refinery migrations",
];
pub const STUBS: &[&str] = &[
    "relay network and application layer (simulator)", "wall clock (interposed clock_gettime)",
    "entropy (vendored getrandom + simhook PRNG)", "process death / restart (drop + reopen, file image at tick)",
];

pub fn spec(id: &str) -> Option<CheckSpec> {
    match id {
        "C01" => Some(c01::spec()),
        "C02" => Some(c02::spec()),
        "C03" => Some(c03::spec()),
        "C04" => Some(c04::spec()),
        "C05" => Some(c05::spec()),
        "C06" => Some(c06::spec()),
        "C07" => Some(c07::spec()),
        "C08" => Some(c08::spec()),
        "C09" => Some(c09::spec()),
        "C10" => Some(c10::spec()),
        "C11" => Some(c11::spec()),
        "C12" => Some(c12::spec()),
        "C13" => Some(c13::spec()),
        "C14" => Some(c14::spec()),
        "C16" => Some(c16::spec()),
        "C17" => Some(c17::spec()),
        "C18" => Some(c18::spec()),
        "C19" => Some(c19::spec()),
        "C20" => Some(c20::spec()),
        _ => None,
    }
}
