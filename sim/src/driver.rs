//! Generic check driver: seeded search over many simulated runs on all cores, known-finding
//! attribution, minimisation, replay files, evidence, exit codes.

use std::collections::{BTreeMap, BTreeSet};
use std::path::{Path, PathBuf};
use std::sync::atomic::{AtomicUsize, Ordering};
use std::sync::{Arc, Mutex};
use std::time::Instant;

use serde::{Deserialize, Serialize};
use serde_json::json;

use crate::genr::*;
use crate::run::*;
use crate::seam;
use crate::world::*;

pub type OracleFactory = fn(&RunCfg) -> Box<dyn Oracle>;

#[derive(Clone)]
pub struct Variant {
    pub name: &'static str,
    pub profile: Profile,
    pub runs_quick: usize,
    pub runs_thorough: usize,
    pub oracle: OracleFactory,
    /// in a guarded variant no known-finding trigger can occur: every violation is new
    pub guarded: bool,
    pub configure_gen: Option<fn(&mut Gen)>,
    /// differential / secondary executions derived from the primary run (restart vs none, crash
    /// enumeration, backend twin); returns additional violations and probe counts
    pub post: Option<fn(&Variant, &RunOutput) -> (Vec<Violation>, Vec<(String, u64)>)>,
    /// runs that are not world simulations (storage-level operation sequences, constructor
    /// matrices): executed instead of `run_world`, same output shape, same replay/minimiser
    pub custom: Option<fn(&RunCfg, Option<&[Step]>) -> RunOutput>,
}

pub struct CheckSpec {
    pub id: &'static str,
    pub level: &'static str,
    pub rule: &'static str,
    pub variants: Vec<Variant>,
    pub assumptions: Vec<&'static str>,
    pub real: Vec<&'static str>,
    pub stubs: Vec<&'static str>,
}

#[derive(Debug, Clone, Serialize, Deserialize)]
pub struct KnownFinding {
    pub property: String,
    pub id: String,
    pub clause: String,
    pub trigger: String,
    pub description: String,
    #[serde(default)]
    pub status: String, // "open" | "fixed"
    #[serde(default)]
    pub commit: Option<String>,
    #[serde(default)]
    pub example_replay: Option<String>,
}

pub fn load_known(root: &Path) -> Vec<KnownFinding> {
    let p = root.join("known_findings.json");
    match std::fs::read_to_string(&p) {
        Ok(s) => serde_json::from_str(&s).unwrap_or_else(|e| {
            eprintln!("HARNESS ERROR: known_findings.json does not parse: {e}");
            std::process::exit(2);
        }),
        Err(_) => vec![],
    }
}

#[derive(Debug, Clone, Serialize, Deserialize)]
pub struct ReplayFile {
    pub check: String,
    pub variant: String,
    pub verif_seed: u64,
    pub run_seed: u64,
    pub cfg: RunCfg,
    pub steps: Vec<Step>,
    pub violation: serde_json::Value,
    pub minimised: bool,
    pub log: Vec<String>,
}

pub struct Args {
    pub tier: String,
    pub seed: u64,
    pub replay: Option<PathBuf>,
    pub runs_override: Option<usize>,
    pub workers: usize,
    pub root: PathBuf,
    pub dump_logs: Option<PathBuf>,
    pub only_variant: Option<String>,
}

pub const DEFAULT_SEED: u64 = 20_261_002;

pub fn check_hash(id: &str) -> u64 {
    let mut h: u64 = 0xcbf2_9ce4_8422_2325;
    for b in id.bytes() {
        h ^= b as u64;
        h = h.wrapping_mul(0x1000_0000_01b3);
    }
    h
}

pub fn exec_run(v: &Variant, cfg: RunCfg, replay: Option<Vec<Step>>) -> Result<RunOutput, String> {
    let mut out = exec_primary(v, cfg, replay)?;
    if let Some(post) = v.post {
        if out.harness_error.is_none() {
            let (viols, probes) = post(v, &out);
            out.violations.extend(viols);
            for (k, n) in probes {
                *out.probes.entry(k).or_insert(0) += n;
            }
        }
    }
    Ok(out)
}

pub fn exec_primary(v: &Variant, cfg: RunCfg, replay: Option<Vec<Step>>) -> Result<RunOutput, String> {
    let oracle = v.oracle;
    let conf = v.configure_gen;
    let seed = cfg.seed;
    let custom = v.custom;
    seam::run_isolated(seed, T0, move || {
        if let Some(c) = custom {
            return c(&cfg, replay.as_deref());
        }
        let mut o = oracle(&cfg);
        let cg: Option<Box<dyn Fn(&mut Gen)>> = conf.map(|f| Box::new(move |g: &mut Gen| f(g)) as Box<dyn Fn(&mut Gen)>);
        run_world(&cfg, replay.as_deref(), o.as_mut(), cg.as_deref())
    })
}

fn violation_key(v: &Violation) -> String {
    format!("{}|{}|{}", v.property, v.clause, v.known.clone().unwrap_or_default())
}

/// Delta-debugging style minimisation of the step list, keeping the same violated clause.
pub fn minimise(v: &Variant, cfg: &RunCfg, steps: &[Step], target: &Violation, budget: usize) -> (Vec<Step>, usize) {
    let mut cur: Vec<Step> = steps.iter().filter(|s| s.id < 1_000_000).cloned().collect();
    let mut tries = 0usize;
    let still_fails = |cand: &[Step], tries: &mut usize| -> bool {
        *tries += 1;
        match exec_run(v, cfg.clone(), Some(cand.to_vec())) {
            Ok(out) => out.violations.iter().any(|x| x.property == target.property && x.clause == target.clause && x.known == target.known && x.node == target.node),
            Err(_) => false,
        }
    };
    if budget == 0 {
        return (steps.to_vec(), 0);
    }
    let mut chunk = (cur.len() / 2).max(1);
    while chunk >= 1 && tries < budget {
        let mut i = 0;
        let mut progressed = false;
        while i < cur.len() && tries < budget {
            let end = (i + chunk).min(cur.len());
            // never drop the set-up (key packages + group creation) in bulk: keep ops that create groups
            let mut cand = cur.clone();
            cand.drain(i..end);
            if !cand.is_empty() && still_fails(&cand, &mut tries) {
                cur = cand;
                progressed = true;
            } else {
                i = end;
            }
        }
        if chunk == 1 && !progressed {
            break;
        }
        chunk = if progressed { chunk } else { chunk / 2 };
        if chunk == 0 {
            break;
        }
    }
    (cur, tries)
}

#[derive(Default)]
struct Agg {
    evaluations: usize,
    signatures: BTreeSet<String>,
    nontrivial_signatures: BTreeSet<String>,
    probes: BTreeMap<String, u64>,
    fault_runs: BTreeMap<String, u64>,
    fault_total: BTreeMap<String, u64>,
    transitions: BTreeSet<String>,
    sim_time: u64,
    steps: u64,
    samples: Vec<serde_json::Value>,
    per_variant: BTreeMap<String, (usize, usize)>,
    failures: Vec<(String, RunOutput)>,
    harness_errors: Vec<String>,
    not_quiesced: usize,
}

pub fn run_check(spec: &CheckSpec, args: &Args) -> i32 {
    let t0 = Instant::now();
    let known = load_known(&args.root);
    let open_known: BTreeMap<String, KnownFinding> = known
        .iter()
        .filter(|k| k.property == spec.id && k.status != "fixed")
        .map(|k| (k.id.clone(), k.clone()))
        .collect();

    if let Some(rp) = &args.replay {
        return replay_file(spec, rp, &open_known);
    }

    let thorough = args.tier == "thorough";
    let mut jobs: Vec<(usize, usize)> = vec![];
    for (vi, v) in spec.variants.iter().enumerate() {
        if let Some(o) = &args.only_variant {
            if v.name != o {
                continue;
            }
        }
        let n = args.runs_override.unwrap_or(if thorough { v.runs_thorough } else { v.runs_quick });
        for i in 0..n {
            jobs.push((vi, i));
        }
    }
    // interleave variants so that a wall-clock cap still samples all of them
    jobs.sort_by_key(|(vi, i)| (*i, *vi));
    let jobs = Arc::new(jobs);
    let next = Arc::new(AtomicUsize::new(0));
    let agg = Arc::new(Mutex::new(Agg::default()));
    let variants: Arc<Vec<Variant>> = Arc::new(spec.variants.clone());
    let id_hash = check_hash(spec.id);
    let verif_seed = args.seed;
    let mut handles = vec![];
    let dump = args.dump_logs.clone();
    for _ in 0..args.workers {
        let jobs = jobs.clone();
        let next = next.clone();
        let agg = agg.clone();
        let variants = variants.clone();
        let dump = dump.clone();
        handles.push(
            std::thread::Builder::new()
                .stack_size(16 << 20)
                .spawn(move || loop {
                    let j = next.fetch_add(1, Ordering::SeqCst);
                    if j >= jobs.len() {
                        break;
                    }
                    let (vi, i) = jobs[j];
                    let v = &variants[vi];
                    let run_seed = seam::mix3(verif_seed, id_hash ^ ((vi as u64) << 48), i as u64);
                    let cfg = draw_cfg(run_seed, &v.profile);
                    let res = exec_run(v, cfg, None);
                    let mut a = agg.lock().unwrap();
                    match res {
                        Ok(out) => {
                            if let Some(d) = &dump {
                                let _ = std::fs::create_dir_all(d);
                                let _ = std::fs::write(d.join(format!("{}-{}.log", v.name, run_seed)), out.log.join("\n"));
                            }
                            a.evaluations += 1;
                            let pv = a.per_variant.entry(v.name.to_string()).or_insert((0, 0));
                            pv.0 += 1;
                            if out.nontrivial {
                                pv.1 += 1;
                                a.nontrivial_signatures.insert(out.signature.clone());
                            }
                            a.signatures.insert(out.signature.clone());
                            for (k, n) in &out.probes {
                                *a.probes.entry(k.clone()).or_insert(0) += n;
                            }
                            for (k, n) in &out.faults {
                                if *n > 0 {
                                    *a.fault_runs.entry(k.clone()).or_insert(0) += 1;
                                    *a.fault_total.entry(k.clone()).or_insert(0) += n;
                                }
                            }
                            for t in &out.transitions {
                                a.transitions.insert(t.clone());
                            }
                            a.sim_time += out.sim_time;
                            a.steps += out.n_steps as u64;
                            if !out.quiesced {
                                a.not_quiesced += 1;
                            }
                            if let Some(e) = &out.harness_error {
                                a.harness_errors.push(format!("{} seed {}: {}", v.name, run_seed, e));
                            }
                            if a.samples.len() < 3 && out.nontrivial {
                                let tail: Vec<String> = out.log.iter().take(60).cloned().collect();
                                a.samples.push(json!({"variant": v.name, "run_seed": run_seed, "steps": out.n_steps, "signature": out.signature, "trace_head": tail}));
                            }
                            if !out.violations.is_empty() {
                                a.failures.push((v.name.to_string(), out));
                            }
                        }
                        Err(e) => a.harness_errors.push(format!("{} seed {}: run panicked outside the library: {}", v.name, run_seed, e)),
                    }
                })
                .unwrap(),
        );
    }
    for h in handles {
        let _ = h.join();
    }
    let mut a = std::mem::take(&mut *agg.lock().unwrap());
    let wall = t0.elapsed().as_secs_f64();

    // ---- triage of failures -------------------------------------------------------------
    let mut new_violations: Vec<(String, RunOutput, Violation)> = vec![];
    let mut known_seen: BTreeMap<String, (usize, String)> = BTreeMap::new();
    a.failures.sort_by_key(|(v, o)| (v.clone(), o.n_steps, o.cfg.seed));
    let mut seen_keys: BTreeSet<String> = BTreeSet::new();
    for (vname, out) in &a.failures {
        let variant = spec.variants.iter().find(|v| v.name == vname).unwrap();
        for viol in &out.violations {
            let attributed = match &viol.known {
                Some(k) if !variant.guarded && open_known.contains_key(k) => Some(k.clone()),
                _ => None,
            };
            match attributed {
                Some(k) => {
                    let e = known_seen.entry(k).or_insert((0, viol.detail.clone()));
                    e.0 += 1;
                }
                None => {
                    let key = format!("{}|{}", vname, violation_key(viol));
                    if seen_keys.insert(key) {
                        new_violations.push((vname.clone(), out.clone(), viol.clone()));
                    }
                }
            }
        }
    }

    // bucket statistics (all failing runs, before de-duplication)
    let mut buckets: BTreeMap<String, usize> = BTreeMap::new();
    for (vname, out) in &a.failures {
        let mut seen = BTreeSet::new();
        for v in &out.violations {
            let k = format!("{}|{}", vname, violation_key(v));
            if seen.insert(k.clone()) {
                *buckets.entry(k).or_insert(0) += 1;
            }
        }
    }
    for (k, n) in &buckets {
        eprintln!("bucket {k}: {n} run(s)");
    }
    let replay_dir = args.root.join("replays");
    let _ = std::fs::create_dir_all(&replay_dir);
    let mut violation_lines = vec![];
    // crash enumeration re-executes the history once per crash point: no step minimisation there
    let min_budget = if spec.id == "C12" { 0 } else if thorough { 400 } else { 150 };
    for (vname, out, viol) in new_violations.iter().take(8) {
        let variant = spec.variants.iter().find(|v| v.name == vname).unwrap();
        let (min_steps, tries) = minimise(variant, &out.cfg, &out.steps, viol, min_budget);
        let min_out = exec_run(variant, out.cfg.clone(), Some(min_steps.clone())).ok();
        let (steps, log, minimised, viol) = match &min_out {
            Some(m) if m.violations.iter().any(|x| x.clause == viol.clause && x.property == viol.property && x.node == viol.node && x.known == viol.known) => {
                let mv = m.violations.iter().find(|x| x.clause == viol.clause && x.property == viol.property && x.node == viol.node && x.known == viol.known).unwrap().clone();
                (min_steps, m.log.clone(), true, mv)
            }
            _ => (out.steps.clone(), out.log.clone(), false, viol.clone()),
        };
        let viol = &viol;
        let rf = ReplayFile {
            check: spec.id.to_string(),
            variant: vname.clone(),
            verif_seed,
            run_seed: out.cfg.seed,
            cfg: out.cfg.clone(),
            steps,
            violation: serde_json::to_value(viol).unwrap(),
            minimised,
            log,
        };
        let path = replay_dir.join(format!("{}-{}-{}.json", spec.id, viol.clause, out.cfg.seed));
        let _ = std::fs::write(&path, serde_json::to_string_pretty(&rf).unwrap());
        eprintln!(
            "violation {} clause={} variant={} run_seed={} steps {}→{} (minimiser tries {}): {}",
            viol.property,
            viol.clause,
            vname,
            out.cfg.seed,
            out.steps.len(),
            rf.steps.len(),
            tries,
            viol.detail
        );
        violation_lines.push(format!("VIOLATION property={} replay={}", spec.id, path.display()));
    }

    // ---- evidence -------------------------------------------------------------------------
    let stale: Vec<String> = open_known.keys().filter(|k| !known_seen.contains_key(*k)).cloned().collect();
    let runs_per_hour = if wall > 0.0 { (a.evaluations as f64 / wall * 3600.0) as u64 } else { 0 };
    let faults: BTreeMap<String, serde_json::Value> = a
        .fault_total
        .iter()
        .map(|(k, n)| (k.clone(), json!({"runs_fired_in": a.fault_runs.get(k).copied().unwrap_or(0), "total_fires": n})))
        .collect();
    if a.samples.is_empty() {
        a.samples.push(json!({"note": "no run met the non-triviality rule"}));
    }
    let evidence = json!({
        "property_id": spec.id,
        "tier": if thorough { "thorough" } else { "quick" },
        "seed": verif_seed,
        "level": spec.level,
        "coverage": {
            "evaluations": a.evaluations,
            "distinct_nontrivial": a.nontrivial_signatures.len(),
            "rule": spec.rule,
            "samples": a.samples,
            "distinct_delivery_signatures": a.signatures.len(),
            "per_variant_runs_nontrivial": a.per_variant,
            "simulated_steps": a.steps,
            "simulated_seconds_covered": a.sim_time,
            "runs_per_hour": runs_per_hour,
            "faults_injected": faults,
            "probes": a.probes,
            "transition_coverage": a.transitions.len(),
            "transition_tuples": a.transitions,
            "runs_not_quiesced": a.not_quiesced,
            "components_real": spec.real,
            "components_stub": spec.stubs,
            "known_findings_seen": known_seen.iter().map(|(k, (n, d))| json!({"id": k, "violations": n, "example": d})).collect::<Vec<_>>(),
            "known_findings_stale": stale,
            "workers": args.workers,
        },
        "assumptions": spec.assumptions,
        "wall_s": wall,
        "violations": new_violations.len(),
    });
    let ev_dir = args.root.join("evidence");
    let _ = std::fs::create_dir_all(&ev_dir);
    let _ = std::fs::write(ev_dir.join(format!("{}.json", spec.id)), serde_json::to_string_pretty(&evidence).unwrap());

    println!(
        "{} {}: {} runs, {} distinct signatures ({} non-trivial), {} steps, {:.1}s, {} new violation(s), {} known finding(s) re-confirmed",
        spec.id,
        args.tier,
        a.evaluations,
        a.signatures.len(),
        a.nontrivial_signatures.len(),
        a.steps,
        wall,
        new_violations.len(),
        known_seen.len()
    );
    for (k, (n, _)) in &known_seen {
        let kf = &open_known[k];
        println!("KNOWN-FINDING: property={} {} [{}] ({} occurrence(s) this run)", spec.id, kf.description, kf.id, n);
    }
    crate::run::cleanup_all();
    if !a.harness_errors.is_empty() {
        for e in a.harness_errors.iter().take(10) {
            eprintln!("HARNESS ERROR: {e}");
        }
        return 2;
    }
    if !violation_lines.is_empty() {
        for l in violation_lines {
            println!("{l}");
        }
        return 1;
    }
    0
}

fn replay_file(spec: &CheckSpec, path: &Path, open_known: &BTreeMap<String, KnownFinding>) -> i32 {
    let s = match std::fs::read_to_string(path) {
        Ok(s) => s,
        Err(e) => {
            eprintln!("HARNESS ERROR: cannot read replay file: {e}");
            return 2;
        }
    };
    let rf: ReplayFile = match serde_json::from_str(&s) {
        Ok(r) => r,
        Err(e) => {
            eprintln!("HARNESS ERROR: replay file does not parse: {e}");
            return 2;
        }
    };
    let Some(variant) = spec.variants.iter().find(|v| v.name == rf.variant) else {
        eprintln!("HARNESS ERROR: unknown variant {}", rf.variant);
        return 2;
    };
    match exec_run(variant, rf.cfg.clone(), Some(rf.steps.clone())) {
        Ok(out) => {
            for l in &out.log {
                println!("{l}");
            }
            let mut code = 0;
            for v in &out.violations {
                let known = matches!(&v.known, Some(k) if !variant.guarded && open_known.contains_key(k));
                println!(
                    "{} property={} clause={} step={:?} node={:?} {}",
                    if known { "known-finding" } else { "violation" },
                    v.property,
                    v.clause,
                    v.step,
                    v.node,
                    v.detail
                );
                if !known {
                    code = 1;
                }
            }
            if code == 1 {
                println!("VIOLATION property={} replay={}", spec.id, path.display());
            }
            crate::run::cleanup_all();
            code
        }
        Err(e) => {
            eprintln!("HARNESS ERROR: {e}");
            2
        }
    }
}
