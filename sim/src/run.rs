//! One simulated run: set-up, fault phase, quiescence, final oracles; generation or replay.

use std::collections::BTreeMap;
use std::path::PathBuf;
use std::sync::atomic::{AtomicU64, Ordering};

use serde::Serialize;

use crate::genr::*;
use crate::world::*;

pub trait Oracle {
    /// invariant oracles, after every executed step
    fn after_step(&mut self, _w: &mut World, _rec: &StepRecord) {}
    /// final oracles after quiescence
    fn at_end(&mut self, _w: &mut World, _cfg: &RunCfg, _gen: &Gen, _quiesced: bool, _passes: usize) {}
    /// property-specific non-triviality condition of this run
    fn nontrivial(&self, _w: &World) -> bool {
        true
    }
    /// whether the run needs the quiescence phase
    fn wants_quiescence(&self) -> bool {
        true
    }
}

#[derive(Debug, Clone, Serialize)]
pub struct RunOutput {
    pub cfg: RunCfg,
    pub steps: Vec<Step>,
    pub log: Vec<String>,
    pub violations: Vec<Violation>,
    pub probes: BTreeMap<String, u64>,
    pub faults: BTreeMap<String, u64>,
    pub signature: String,
    pub nontrivial: bool,
    pub sim_time: u64,
    pub n_steps: usize,
    pub passes: usize,
    pub quiesced: bool,
    pub transitions: Vec<String>,
    pub harness_error: Option<String>,
}

static DIR_COUNTER: AtomicU64 = AtomicU64::new(0);

pub fn scratch_base() -> PathBuf {
    let shm = PathBuf::from("/dev/shm");
    let root = if shm.is_dir() { shm } else { std::env::temp_dir() };
    root.join(format!("mdk-sim.{}", std::process::id()))
}

pub fn fresh_dir() -> PathBuf {
    let n = DIR_COUNTER.fetch_add(1, Ordering::SeqCst);
    let d = scratch_base().join(format!("r{n}"));
    let _ = std::fs::remove_dir_all(&d);
    std::fs::create_dir_all(&d).expect("create scratch dir");
    d
}

pub fn cleanup_all() {
    let _ = std::fs::remove_dir_all(scratch_base());
}

/// Delivery signature of a run: per node the sequence of (event logical id, duplicate?, epoch
/// relation, result class) plus fault positions, hashed.
pub fn signature(w: &World) -> (String, Vec<String>) {
    let mut per_node: BTreeMap<usize, Vec<String>> = BTreeMap::new();
    let mut transitions = std::collections::BTreeSet::new();
    let mut seen: Vec<std::collections::BTreeSet<EvRef>> = vec![Default::default(); w.nodes.len()];
    // logical ids: position of the creating step in the history (stable across seeds' random ids)
    let mut order: BTreeMap<EvRef, usize> = BTreeMap::new();
    for (i, e) in w.events.iter().enumerate() {
        order.insert(e.origin, i);
    }
    for rec in &w.history {
        let n = rec.step.node;
        let item = match &rec.step.op {
            Op::Deliver { ev } => {
                let dup = !seen[n].insert(*ev);
                let (rel, kind) = match w.ev(*ev) {
                    Some(pe) => {
                        let ne = rec.pre_state.get(&pe.g).map(|s| s.0);
                        let rel = match ne {
                            None => "nogroup",
                            Some(e) if e == pe.epoch => "same",
                            Some(e) if e > pe.epoch => "past",
                            Some(_) => "future",
                        };
                        let branch = match rec.pre_state.get(&pe.g) {
                            Some(s) if s.1 == pe.parent_state => "samestate",
                            Some(_) => "otherstate",
                            None => "-",
                        };
                        transitions.insert(format!(
                            "{:?}/{}/{}/{}/{}/{:?}/{}",
                            pe.kind,
                            rel,
                            branch,
                            if dup { "dup" } else { "first" },
                            if pe.creator == n { "own" } else { "other" },
                            w.nodes[n].cfg.backend,
                            rec.class
                        ));
                        (rel, format!("{:?}", pe.kind))
                    }
                    None => ("?", "?".into()),
                };
                format!("D{}{}{}{}:{}", order.get(ev).copied().unwrap_or(9999), if dup { "d" } else { "" }, rel, kind, rec.class)
            }
            Op::Restart => "R".to_string(),
            Op::MergePending { .. } => "M".to_string(),
            Op::ClearPending { .. } => "C".to_string(),
            Op::SendMsg { .. } => "s".to_string(),
            Op::Hostile(h) => format!("H{}:{}", crate::hostile::short(h), rec.class),
            op => format!("{}:{}", op_short(op), rec.class),
        };
        per_node.entry(n).or_default().push(item);
    }
    let s = serde_json::to_string(&per_node).unwrap_or_default();
    (crate::node::h8(s.as_bytes()), transitions.into_iter().collect())
}

pub fn op_short(op: &Op) -> &'static str {
    match op {
        Op::PublishKeyPackage => "kp",
        Op::CreateGroup { .. } => "create",
        Op::ProcessWelcome { .. } => "pw",
        Op::AcceptWelcome { .. } => "aw",
        Op::DeclineWelcome { .. } => "dw",
        Op::SendMsg { .. } => "msg",
        Op::AddMembers { .. } => "add",
        Op::RemoveMembers { .. } => "rm",
        Op::UpdateData { .. } => "upd",
        Op::SelfUpdate { .. } => "su",
        Op::Leave { .. } => "leave",
        Op::MergePending { .. } => "merge",
        Op::ClearPending { .. } => "clear",
        Op::Deliver { .. } => "deliver",
        Op::Restart => "restart",
        Op::MediaDownload { .. } => "media",
        Op::MediaEncrypt { .. } => "mediaenc",
        Op::RotateKeyPackages => "kprotate",
        Op::ResendMsg { .. } => "resend",
        Op::SetGroupImage { .. } => "setimage",
        Op::GroupImageDownload { .. } => "gimage",
        Op::Hostile(_) => "hostile",
        Op::Nop => "nop",
    }
}

/// Execute one run on the current thread (must be inside `seam::run_isolated`).
pub fn run_world(
    cfg: &RunCfg,
    replay: Option<&[Step]>,
    oracle: &mut dyn Oracle,
    configure_gen: Option<&dyn Fn(&mut Gen)>,
) -> RunOutput {
    let dir = fresh_dir();
    let cap = cfg.guards.contains("capture_logs") || std::env::var("MDK_SIM_CAPTURE").is_ok();
    let _log_guard = if cap { Some(crate::logcap::install()) } else { None };
    let mut w = World::new(cfg.seed, dir.clone());
    w.isolate_steps = cfg.guards.contains("isolate_steps");
    w.capture_logs = cap;
    let _ = crate::logcap::drain();
    let mut harness_error = None;
    for nc in &cfg.nodes {
        if let Err(e) = w.add_node(nc.clone()) {
            harness_error = Some(format!("add_node: {e}"));
        }
    }
    let mut gn = Gen::new(cfg.clone());
    if let Some(f) = configure_gen {
        f(&mut gn);
    }
    let mut steps: Vec<Step> = vec![];
    if harness_error.is_none() {
        match replay {
            None => {
                while let Some(s) = gn.next(&mut w) {
                    // scripted deliveries (queued ahead of time) obey the regime like replayed ones
                    if let Op::Deliver { ev } = &s.op {
                        let ok = match w.ev(*ev) {
                            Some(pe) => s.node < w.nodes.len() && gn.deliverable(&w, s.node, pe),
                            None => false,
                        };
                        if !ok {
                            continue;
                        }
                    }
                    let rec = w.exec(&s);
                    steps.push(s);
                    oracle.after_step(&mut w, &rec);
                }
            }
            Some(list) => {
                // withheld events: commits whose creating step is directly followed by a ClearPending
                for (i, s) in list.iter().enumerate() {
                    if let Some(nx) = list.get(i + 1) {
                        if matches!(nx.op, Op::ClearPending { .. }) && nx.node == s.node {
                            gn.withheld.insert(EvRef(s.id, 0));
                        }
                    }
                }
                for s in list {
                    if s.id >= 1_000_000 {
                        continue;
                    }
                    // a replayed (possibly minimised) list must stay inside the regime the
                    // generator guarantees: a delivery the regime forbids becomes a no-op
                    if let Op::Deliver { ev } = &s.op {
                        let ok = match w.ev(*ev) {
                            Some(pe) => s.node < w.nodes.len() && gn.deliverable(&w, s.node, pe),
                            None => false,
                        };
                        if !ok {
                            continue;
                        }
                    }
                    let rec = w.exec(s);
                    steps.push(s.clone());
                    oracle.after_step(&mut w, &rec);
                }
            }
        }
    }
    let (mut passes, mut quiesced) = (0, true);
    if harness_error.is_none() && oracle.wants_quiescence() {
        let withheld = gn.withheld.clone();
        let (p, q) = quiesce(&mut w, cfg, &withheld, |w, rec| oracle.after_step(w, rec));
        passes = p;
        quiesced = q;
    }
    if harness_error.is_none() {
        oracle.at_end(&mut w, cfg, &gn, quiesced, passes);
    }
    let (sig, transitions) = signature(&w);
    let nontrivial = oracle.nontrivial(&w);
    let out = RunOutput {
        cfg: cfg.clone(),
        steps,
        log: std::mem::take(&mut w.log),
        violations: std::mem::take(&mut w.violations),
        probes: std::mem::take(&mut w.probes),
        faults: std::mem::take(&mut w.faults),
        signature: sig,
        nontrivial,
        sim_time: w.sim_time_covered,
        n_steps: w.history.len(),
        passes,
        quiesced,
        transitions,
        harness_error,
    };
    drop(w);
    let _ = std::fs::remove_dir_all(&dir);
    out
}
