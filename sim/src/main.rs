pub mod checks;
pub mod driver;
pub mod genr;
pub mod hostile;
pub mod logcap;
pub mod model;
pub mod node;
pub mod rng;
pub mod run;
pub mod seam;
pub mod store;
pub mod world;

use std::path::PathBuf;

fn usage() -> ! {
    eprintln!("usage: mdk-sim <Cxx|selftest> [--tier quick|thorough] [--replay file] [--runs N] [--workers N] [--variant name] [--dump-logs dir]");
    std::process::exit(2);
}

fn main() {
    let argv: Vec<String> = std::env::args().collect();
    if argv.len() < 2 {
        usage();
    }
    let mut args = driver::Args {
        tier: std::env::var("VERIF_TIER").unwrap_or_else(|_| "quick".into()),
        seed: std::env::var("VERIF_SEED").ok().and_then(|s| s.parse().ok()).unwrap_or(driver::DEFAULT_SEED),
        replay: None,
        runs_override: None,
        workers: std::thread::available_parallelism().map(|n| n.get()).unwrap_or(4),
        root: PathBuf::from(std::env::var("VERIF_ROOT").unwrap_or_else(|_| "/verif".into())),
        dump_logs: None,
        only_variant: None,
    };
    let mut i = 2;
    while i < argv.len() {
        match argv[i].as_str() {
            "--tier" => { args.tier = argv.get(i + 1).cloned().unwrap_or_else(|| usage()); i += 1; }
            "--seed" => { args.seed = argv.get(i + 1).and_then(|s| s.parse().ok()).unwrap_or_else(|| usage()); i += 1; }
            "--replay" => { args.replay = Some(PathBuf::from(argv.get(i + 1).cloned().unwrap_or_else(|| usage()))); i += 1; }
            "--runs" => { args.runs_override = argv.get(i + 1).and_then(|s| s.parse().ok()); i += 1; }
            "--workers" => { args.workers = argv.get(i + 1).and_then(|s| s.parse().ok()).unwrap_or_else(|| usage()); i += 1; }
            "--variant" => { args.only_variant = argv.get(i + 1).cloned(); i += 1; }
            "--dump-logs" => { args.dump_logs = argv.get(i + 1).map(PathBuf::from); i += 1; }
            _ => usage(),
        }
        i += 1;
    }
    // quiet panic hook: library panics are caught and reported as violations
    std::panic::set_hook(Box::new(|_| {}));
    seam::warm_up();
    if let Err(e) = seam::self_test() {
        eprintln!("HARNESS ERROR: {e}");
        std::process::exit(2);
    }
    let id = argv[1].as_str();
    if id == "selftest-determinism" {
        std::process::exit(selftest_determinism(&args));
    }
    let Some(spec) = checks::spec(id) else {
        eprintln!("HARNESS ERROR: unknown check {id}");
        std::process::exit(2);
    };
    let code = driver::run_check(&spec, &args);
    std::process::exit(code);
}

/// Determinism proof obligation: N run seeds per check variant are executed twice in this
/// process (interleaved with other work on other workers) and the complete event logs must be
/// byte-identical; with `--dump-logs dir` the per-run log hashes are written out so that separate
/// processes / worker counts can be diffed by the caller (`selftest.sh`).
fn selftest_determinism(args: &driver::Args) -> i32 {
    use std::sync::atomic::{AtomicUsize, Ordering};
    use std::sync::{Arc, Mutex};
    let per_variant = args.runs_override.unwrap_or(12);
    let ids = ["C01", "C02", "C03", "C04", "C05", "C06", "C07", "C08", "C09", "C10", "C11", "C14", "C16", "C17", "C18", "C19", "C20", "C13"];
    let mut jobs = vec![];
    for id in ids {
        let Some(spec) = checks::spec(id) else { continue };
        for (vi, v) in spec.variants.iter().enumerate() {
            for i in 0..per_variant {
                let run_seed = seam::mix3(args.seed, driver::check_hash(id) ^ ((vi as u64) << 48), i as u64);
                jobs.push((id, v.clone(), run_seed));
            }
        }
    }
    let jobs = Arc::new(jobs);
    let next = Arc::new(AtomicUsize::new(0));
    let results: Arc<Mutex<Vec<(String, u64, String, String)>>> = Arc::new(Mutex::new(vec![]));
    let mut hs = vec![];
    for _ in 0..args.workers {
        let (jobs, next, results) = (jobs.clone(), next.clone(), results.clone());
        hs.push(std::thread::Builder::new().stack_size(16 << 20).spawn(move || loop {
            let j = next.fetch_add(1, Ordering::SeqCst);
            if j >= jobs.len() {
                break;
            }
            let (id, v, seed) = &jobs[j];
            let mut v2 = v.clone();
            v2.post = None;
            let h = |o: Result<run::RunOutput, String>| match o {
                Ok(out) => node::sha_hex(format!("{}\n{:?}\n{}", out.log.join("\n"), out.violations.iter().map(|x| (&x.clause, &x.detail)).collect::<Vec<_>>(), out.signature).as_bytes()),
                Err(e) => format!("ERR {e}"),
            };
            let a = h(driver::exec_primary(&v2, genr::draw_cfg(*seed, &v.profile), None));
            let b = h(driver::exec_primary(&v2, genr::draw_cfg(*seed, &v.profile), None));
            results.lock().unwrap().push((format!("{id}/{}", v.name), *seed, a, b));
        }).unwrap());
    }
    for h in hs {
        let _ = h.join();
    }
    let mut res = results.lock().unwrap().clone();
    res.sort();
    let bad: Vec<_> = res.iter().filter(|r| r.2 != r.3).collect();
    if let Some(d) = &args.dump_logs {
        let _ = std::fs::create_dir_all(d);
        let lines: Vec<String> = res.iter().map(|r| format!("{} {} {}", r.0, r.1, r.2)).collect();
        let _ = std::fs::write(d.join(format!("hashes-w{}-p{}.txt", args.workers, std::process::id())), lines.join("\n"));
    }
    println!("determinism self-test: {} runs executed twice with {} workers, {} differing", res.len(), args.workers, bad.len());
    for b in bad.iter().take(10) {
        println!("NONDETERMINISTIC {} seed {}", b.0, b.1);
    }
    run::cleanup_all();
    if bad.is_empty() { 0 } else { 2 }
}
