pub mod checks;
pub mod driver;
pub mod genr;
pub mod hostile;
pub mod logcap;
pub mod model;
pub mod node;
pub mod rng;
pub mod run;
pub mod seam;
pub mod store;
pub mod world;

use std::path::PathBuf;

fn usage() -> ! {
    eprintln!("usage: mdk-sim <Cxx|selftest> [--tier quick|thorough] [--replay file] [--runs N] [--workers N] [--variant name] [--dump-logs dir]");
    std::process::exit(2);
}

fn main() {
    let argv: Vec<String> = std::env::args().collect();
    if argv.len() < 2 {
        usage();
    }
    let mut args = driver::Args {
        tier: std::env::var("VERIF_TIER").unwrap_or_else(|_| "quick".into()),
        seed: std::env::var("VERIF_SEED").ok().and_then(|s| s.parse().ok()).unwrap_or(driver::DEFAULT_SEED),
        replay: None,
        runs_override: None,
        workers: std::thread::available_parallelism().map(|n| n.get()).unwrap_or(4),
        root: PathBuf::from(std::env::var("VERIF_ROOT").unwrap_or_else(|_| "/verif".into())),
        dump_logs: None,
        only_variant: None,
    };
    let mut i = 2;
    while i < argv.len() {
        match argv[i].as_str() {
            "--tier" => { args.tier = argv.get(i + 1).cloned().unwrap_or_else(|| usage()); i += 1; }
            "--seed" => { args.seed = argv.get(i + 1).and_then(|s| s.parse().ok()).unwrap_or_else(|| usage()); i += 1; }
            "--replay" => { args.replay = Some(PathBuf::from(argv.get(i + 1).cloned().unwrap_or_else(|| usage()))); i += 1; }
            "--runs" => { args.runs_override = argv.get(i + 1).and_then(|s| s.parse().ok()); i += 1; }
            "--workers" => { args.workers = argv.get(i + 1).and_then(|s| s.parse().ok()).unwrap_or_else(|| usage()); i += 1; }
            "--variant" => { args.only_variant = argv.get(i + 1).cloned(); i += 1; }
            "--dump-logs" => { args.dump_logs = argv.get(i + 1).map(PathBuf::from); i += 1; }
            _ => usage(),
        }
        i += 1;
    }
    // quiet panic hook: library panics are caught and reported as violations
    std::panic::set_hook(Box::new(|_| {}));
    seam::warm_up();
    if let Err(e) = seam::self_test() {
        eprintln!("HARNESS ERROR: {e}");
        std::process::exit(2);
    }
    let id = argv[1].as_str();
    let Some(spec) = checks::spec(id) else {
        eprintln!("HARNESS ERROR: unknown check {id}");
        std::process::exit(2);
    };
    let code = driver::run_check(&spec, &args);
    std::process::exit(code);
}
