fn main() { println!("placeholder"); }
