//! Seams the simulator owns: wall clock, entropy, hidden threads.
//!
//! * `clock_gettime` is interposed at link time: for `CLOCK_REALTIME` (and its coarse variant)
//!   it returns the calling thread's simulated time when one is installed; otherwise, and for all
//!   other clocks, it performs the raw syscall.
//! * `getrandom` (libc symbol) is interposed the same way so `std`'s `RandomState` keys are
//!   deterministic on a thread with an installed source; the vendored `getrandom` crates consult
//!   `simhook` directly.
//! * every simulated run executes inside a fresh single-thread rayon pool so that openmls'
//!   `par_iter` HPKE work draws entropy on the thread the simulator owns.

use std::cell::Cell;

thread_local! {
    static SIM_TIME: Cell<Option<(i64, i64)>> = const { Cell::new(None) };
}

/// Set the simulated wall clock of this thread (seconds since the Unix epoch).
pub fn set_time(secs: u64) {
    SIM_TIME.with(|t| t.set(Some((secs as i64, 0))));
}

/// Remove the simulated clock of this thread.
pub fn clear_time() {
    SIM_TIME.with(|t| t.set(None));
}

pub fn sim_time() -> Option<u64> {
    SIM_TIME.with(|t| t.get().map(|(s, _)| s as u64))
}

#[unsafe(no_mangle)]
pub unsafe extern "C" fn clock_gettime(clk: libc::clockid_t, tp: *mut libc::timespec) -> libc::c_int {
    if clk == libc::CLOCK_REALTIME || clk == libc::CLOCK_REALTIME_COARSE {
        // try_with: never touch a destroyed TLS slot during thread teardown
        if let Ok(Some((s, ns))) = SIM_TIME.try_with(|t| t.get()) {
            if !tp.is_null() {
                unsafe {
                    (*tp).tv_sec = s;
                    (*tp).tv_nsec = ns;
                }
            }
            return 0;
        }
    }
    unsafe { libc::syscall(libc::SYS_clock_gettime, clk as libc::c_long, tp) as libc::c_int }
}

#[unsafe(no_mangle)]
pub unsafe extern "C" fn getrandom(buf: *mut libc::c_void, len: libc::size_t, flags: libc::c_uint) -> libc::ssize_t {
    if len > 0 && !buf.is_null() && unsafe { simhook::fill_raw(buf as *mut u8, len) } {
        return len as libc::ssize_t;
    }
    unsafe { libc::syscall(libc::SYS_getrandom, buf, len, flags) as libc::ssize_t }
}

/// Re-key the thread's entropy source for step `step` on node `node` of run `run_seed`.
pub fn reseed(run_seed: u64, step: u64, node: u64) {
    simhook::install(mix3(run_seed, step, node));
}

pub fn mix3(a: u64, b: u64, c: u64) -> u64 {
    let mut x = a ^ 0x9E37_79B9_7F4A_7C15;
    for v in [b, c] {
        x = (x ^ v).wrapping_mul(0xBF58_476D_1CE4_E5B9);
        x ^= x >> 29;
        x = x.wrapping_mul(0x94D0_49BB_1331_11EB);
        x ^= x >> 32;
    }
    x
}

/// Run `f` on a fresh OS thread that is the only worker of a fresh rayon pool, with the
/// deterministic entropy source and clock installed. Returns `f`'s result; panics are
/// propagated as `Err(message)`.
pub fn run_isolated<T: Send + 'static>(
    seed: u64,
    start_time: u64,
    f: impl FnOnce() -> T + Send + 'static,
) -> Result<T, String> {
    let pool = rayon::ThreadPoolBuilder::new()
        .num_threads(1)
        .stack_size(64 << 20)
        .build()
        .map_err(|e| format!("rayon pool: {e}"))?;
    let res = pool.install(move || {
        simhook::install(seed);
        set_time(start_time);
        let r = std::panic::catch_unwind(std::panic::AssertUnwindSafe(f));
        simhook::uninstall();
        clear_time();
        r
    });
    drop(pool);
    res.map_err(|p| panic_msg(&p))
}

struct AssertSend<T>(T);
// SAFETY: used only by `step_isolated`, where the caller blocks until the closure has returned:
// the wrapped values are never touched by two threads at once.
unsafe impl<T> Send for AssertSend<T> {}

/// Run one simulated step on a fresh OS thread (the only worker of a fresh rayon pool), so that
/// every thread-local a step can depend on - std's `RandomState` keys and their per-thread
/// counter, which fix the iteration order of every `HashMap`/`HashSet` the library creates - is a
/// function of (run seed, step id, node) and not of how many steps ran before it. Without this a
/// twin run that differs in one earlier step (C11: a restart replaced by a no-op; C12: a crash)
/// draws different hash orders later and, e.g., encrypts path secrets in another order.
/// The caller blocks until `f` has returned. Returns `f`'s result and the captured log records.
pub fn step_isolated<R>(run_seed: u64, step: u64, node: u64, capture_logs: bool, f: impl FnOnce() -> R) -> (R, Vec<String>) {
    let time = sim_time();
    let pool = rayon::ThreadPoolBuilder::new().num_threads(1).stack_size(64 << 20).build().expect("rayon pool");
    let job = AssertSend(f);
    let out = pool.install(move || {
        let job = job;
        simhook::install(mix3(run_seed, step, node));
        if let Some(t) = time {
            set_time(t);
        }
        let guard = if capture_logs { Some(crate::logcap::install()) } else { None };
        let r = (job.0)();
        let logs = crate::logcap::drain();
        drop(guard);
        simhook::uninstall();
        clear_time();
        AssertSend((r, logs))
    });
    drop(pool);
    out.0
}

pub fn panic_msg(p: &Box<dyn std::any::Any + Send>) -> String {
    if let Some(s) = p.downcast_ref::<&str>() {
        s.to_string()
    } else if let Some(s) = p.downcast_ref::<String>() {
        s.clone()
    } else {
        "<non-string panic>".to_string()
    }
}

/// Un-seeded warm-up absorbing process-global lazies (secp256k1 context etc.).
pub fn warm_up() {
    let _ = run_isolated(1, 1_700_000_000, || {
        let k = nostr::Keys::generate();
        let _ = nostr::EventBuilder::new(nostr::Kind::Custom(9), "warm")
            .sign_with_keys(&k);
    });
}

/// Self-test: the seams are effective. Returns Err(description) otherwise (→ exit 2).
pub fn self_test() -> Result<(), String> {
    let a = run_isolated(42, 1_800_000_000, || {
        let now = std::time::SystemTime::now()
            .duration_since(std::time::UNIX_EPOCH)
            .unwrap()
            .as_secs();
        let ts = nostr::Timestamp::now().as_secs();
        let k = nostr::Keys::generate();
        let mut hm = std::collections::HashMap::new();
        for i in 0..64u32 {
            hm.insert(i, ());
        }
        let order: Vec<u32> = hm.keys().copied().collect();
        (now, ts, k.public_key().to_hex(), order)
    })?;
    let b = run_isolated(42, 1_800_000_000, || {
        let now = std::time::SystemTime::now()
            .duration_since(std::time::UNIX_EPOCH)
            .unwrap()
            .as_secs();
        let ts = nostr::Timestamp::now().as_secs();
        let k = nostr::Keys::generate();
        let mut hm = std::collections::HashMap::new();
        for i in 0..64u32 {
            hm.insert(i, ());
        }
        let order: Vec<u32> = hm.keys().copied().collect();
        (now, ts, k.public_key().to_hex(), order)
    })?;
    if a.0 != 1_800_000_000 || a.1 != 1_800_000_000 {
        return Err(format!("clock seam inactive: SystemTime={} Timestamp={}", a.0, a.1));
    }
    if a != b {
        return Err("entropy seam inactive: two runs of one seed differ".into());
    }
    let c = run_isolated(43, 1_800_000_000, || nostr::Keys::generate().public_key().to_hex())?;
    if c == a.2 {
        return Err("entropy seam ignores the seed".into());
    }
    Ok(())
}
