//! Seeded swarm generator: draws a run configuration, then produces one step at a time from the
//! current world state (which operations are enabled depends on it), and finally drives the
//! quiescence phase. Every choice comes from PRNG streams derived from the run seed.

use std::collections::{BTreeSet, VecDeque};

use serde::{Deserialize, Serialize};

use crate::node::{BackendKind, NodeCfg};
use crate::rng::Rng;
use crate::world::*;

#[derive(Debug, Clone, Copy, PartialEq, Eq, Serialize, Deserialize)]
pub enum Regime {
    /// an event is handed to a node only once the node has reached the epoch it was created in
    Causal,
    /// any order
    Unrestricted,
}

#[derive(Debug, Clone, Copy, PartialEq, Eq, Serialize, Deserialize)]
pub enum OwnPolicy {
    /// merge_pending_commit right after publishing
    Immediate,
    /// wait for the relay echo of the own commit
    Echo,
}

#[derive(Debug, Clone, Copy, PartialEq, Eq, Serialize, Deserialize)]
pub enum BackendMix {
    Memory,
    Sqlite,
    SqliteCipher,
    Mixed,
}

#[derive(Debug, Clone, Serialize, Deserialize, PartialEq)]
pub struct Weights {
    pub msg: u64,
    pub commit: u64,
    pub deliver: u64,
    pub dup: u64,
    pub fork: u64,
    pub restart: u64,
    pub leave: u64,
    pub invite: u64,
    pub remove: u64,
    pub rotate: u64,
    pub hostile: u64,
}

#[derive(Debug, Clone, Serialize, Deserialize, PartialEq)]
pub struct RunCfg {
    pub seed: u64,
    pub nodes: Vec<NodeCfg>,
    /// nodes that are initial members of group 0 (first is the creator)
    pub initial_members: Vec<usize>,
    pub initial_admins: Vec<usize>,
    pub policies: Vec<OwnPolicy>,
    pub regime: Regime,
    pub steps: usize,
    pub weights: Weights,
    /// second group sharing some members (frame conditions)
    pub second_group: bool,
    /// generator guards that keep a run away from known-finding triggers
    pub guards: BTreeSet<String>,
    pub publish_failure_pct: u64,
    pub max_msgs_per_burst: u64,
    #[serde(default)]
    pub big_dt: bool,
}

#[derive(Debug, Clone, Serialize, Deserialize)]
pub struct Profile {
    pub backend: BackendMix,
    pub regime: Regime,
    pub min_nodes: usize,
    pub max_nodes: usize,
    pub steps_lo: usize,
    pub steps_hi: usize,
    pub allow_immediate: bool,
    pub allow_restart: bool,
    pub allow_membership: bool,
    pub allow_fork: bool,
    pub msg_heavy: bool,
    pub second_group: bool,
    pub guards: BTreeSet<String>,
    pub small_config: bool,
    pub hostile: u64,
    /// snapshot TTL range in seconds (None = library default)
    pub snapshot_ttl: Option<(u64, u64)>,
    /// retention range (None = per small_config / default)
    pub retention: Option<(usize, usize)>,
    /// occasionally advance the clock by tens of seconds
    pub big_dt: bool,
}

impl Default for Profile {
    fn default() -> Self {
        Profile {
            backend: BackendMix::Memory,
            regime: Regime::Causal,
            min_nodes: 2,
            max_nodes: 6,
            steps_lo: 25,
            steps_hi: 70,
            allow_immediate: true,
            allow_restart: false,
            allow_membership: true,
            allow_fork: true,
            msg_heavy: false,
            second_group: false,
            guards: BTreeSet::new(),
            small_config: false,
            hostile: 0,
            snapshot_ttl: None,
            retention: None,
            big_dt: false,
        }
    }
}

pub fn draw_cfg(seed: u64, p: &Profile) -> RunCfg {
    let mut r = Rng::new(seed).fork(1);
    let n_members = {
        let span = (p.max_nodes - p.min_nodes + 1) as u64;
        // bias towards small groups
        let a = r.below(span);
        let b = r.below(span);
        p.min_nodes + a.min(b) as usize
    };
    let n_extra = if p.allow_membership { r.below(3) as usize } else { 0 };
    let total = n_members + n_extra;
    let mut nodes = vec![];
    for _ in 0..total {
        let backend = match p.backend {
            BackendMix::Memory => BackendKind::Memory,
            BackendMix::Sqlite => BackendKind::Sqlite,
            BackendMix::SqliteCipher => BackendKind::SqliteCipher,
            BackendMix::Mixed => match r.below(4) {
                0 | 1 => BackendKind::Memory,
                2 => BackendKind::Sqlite,
                _ => BackendKind::SqliteCipher,
            },
        };
        let mut c = NodeCfg { backend, ..Default::default() };
        c.clock_offset = match r.below(5) {
            0 => -(r.below(60) as i64),
            1 => r.below(60) as i64,
            _ => 0,
        };
        if p.small_config {
            c.epoch_snapshot_retention = [5, 5, 3, 2, 6, 1][r.below(6) as usize];
            c.max_past_epochs = [5, 5, 3, 1, 2, 8][r.below(6) as usize];
            c.out_of_order_tolerance = [100, 100, 5, 10, 3][r.below(5) as usize];
            c.maximum_forward_distance = [1000, 1000, 20, 50][r.below(4) as usize];
        }
        if let Some((lo, hi)) = p.snapshot_ttl {
            c.snapshot_ttl_seconds = r.range(lo, hi);
        }
        if let Some((lo, hi)) = p.retention {
            c.epoch_snapshot_retention = r.range(lo as u64, hi as u64) as usize;
        }
        nodes.push(c);
    }
    let initial_members: Vec<usize> = (0..n_members).collect();
    let mut initial_admins = vec![0usize];
    for m in 1..n_members {
        if r.chance(1, 2) {
            initial_admins.push(m);
        }
    }
    let policies = (0..total)
        .map(|_| {
            if p.allow_immediate && !p.guards.contains("no_immediate_merge") && r.chance(1, 4) {
                OwnPolicy::Immediate
            } else {
                OwnPolicy::Echo
            }
        })
        .collect();
    let weights = Weights {
        msg: if p.msg_heavy { r.range(4, 10) } else { r.range(0, 5) },
        commit: r.range(1, 4),
        deliver: r.range(6, 14),
        dup: r.range(0, 3),
        fork: if p.allow_fork { r.range(0, 3) } else { 0 },
        restart: if p.allow_restart { r.range(0, 2) } else { 0 },
        leave: if p.allow_membership { r.range(0, 1) } else { 0 },
        invite: if p.allow_membership { r.range(0, 2) } else { 0 },
        remove: if p.allow_membership { r.range(0, 1) } else { 0 },
        rotate: r.range(0, 1),
        hostile: p.hostile,
    };
    let mut weights = weights;
    if p.guards.contains("no_rotation") {
        weights.rotate = 0;
    }
    if p.guards.contains("single_committer") {
        weights.leave = 0;
        weights.fork = 0;
    }
    if p.guards.contains("no_leave") {
        weights.leave = 0;
    }
    if p.guards.contains("no_remove") {
        weights.remove = 0;
    }
    RunCfg {
        seed,
        nodes,
        initial_members,
        initial_admins,
        policies,
        regime: p.regime,
        steps: r.range(p.steps_lo as u64, p.steps_hi as u64) as usize,
        weights,
        second_group: p.second_group && r.chance(1, 2),
        guards: p.guards.clone(),
        publish_failure_pct: if p.guards.contains("no_publish_failure") { 0 } else { r.range(0, 4) },
        max_msgs_per_burst: if p.msg_heavy { r.range(1, 6) } else { 2 },
        big_dt: p.big_dt,
    }
}

pub struct Gen {
    pub cfg: RunCfg,
    sched: Rng,
    fault: Rng,
    pub queue: VecDeque<Step>,
    pub emitted: usize,
    /// events never published (publish failure)
    pub withheld: BTreeSet<EvRef>,
    setup_done: bool,
    msg_tag: u32,
    /// welcomes already handled (processed) per recipient
    welcome_seen: BTreeSet<EvRef>,
    welcome_decided: BTreeSet<EvRef>,
    /// outsiders already invited once (guard `no_reinvite`)
    invited: BTreeSet<usize>,
    /// let clients whose group is inactive keep attempting to send (C03)
    pub ex_members_send: bool,
    /// hand events and other people's invitations to clients that never held the group (C03)
    pub feed_outsiders: bool,
    /// admins now and then publish group data larger than the storage layer accepts (C06, C08)
    pub oversize_data: bool,
    /// hand already processed invitations over again (same wrapper id) now and then (C16)
    pub reprocess_welcomes: bool,
    /// announce encrypted media in messages (C17)
    pub media: bool,
    pub hostile_hook: Option<fn(&mut Gen, &mut World) -> Option<Step>>,
    /// events the generator does not hand over before this many steps have been emitted (a relay
    /// that is slow for one event); quiescence releases everything
    pub hold_until: std::collections::BTreeMap<EvRef, usize>,
    /// recipients take their time over invitations (several can be pending at once) (C08, C16)
    pub slow_accept: bool,
}

impl Gen {
    pub fn new(cfg: RunCfg) -> Self {
        let base = Rng::new(cfg.seed);
        Gen {
            sched: base.fork(2),
            fault: base.fork(3),
            cfg,
            queue: VecDeque::new(),
            emitted: 0,
            withheld: BTreeSet::new(),
            setup_done: false,
            msg_tag: 0,
            welcome_seen: BTreeSet::new(),
            welcome_decided: BTreeSet::new(),
            invited: BTreeSet::new(),
            ex_members_send: false,
            feed_outsiders: false,
            oversize_data: false,
            reprocess_welcomes: false,
            media: false,
            hostile_hook: None,
            hold_until: std::collections::BTreeMap::new(),
            slow_accept: false,
        }
    }

    pub fn rng(&mut self) -> &mut Rng {
        &mut self.sched
    }

    pub fn mk(&mut self, w: &mut World, node: usize, dt: u32, op: Op) -> Step {
        Step { id: w.step_id(), node, dt, op }
    }

    fn setup(&mut self, w: &mut World) {
        // every node publishes a key package; node 0 creates group 0; members accept
        for n in 0..self.cfg.nodes.len() {
            let s = self.mk(w, n, 0, Op::PublishKeyPackage);
            self.queue.push_back(s);
        }
        let members: Vec<usize> = self.cfg.initial_members.iter().copied().filter(|m| *m != 0).collect();
        let admins = self.cfg.initial_admins.clone();
        let s = self.mk(w, 0, 1, Op::CreateGroup { members, admins, tag: 0 });
        self.queue.push_back(s);
        self.setup_done = true;
    }

    /// events of group g that `node` may be handed now under the regime
    pub fn deliverable(&self, w: &World, node: usize, ev: &PubEvent) -> bool {
        if self.withheld.contains(&ev.origin) {
            return false;
        }
        if ev.kind == EvKind::Hostile {
            return w.gview(node, ev.g).is_some();
        }
        // the node must hold the group (joined at some point), unless never-members are fed too
        let Some(gv) = w.gview(node, ev.g) else { return self.feed_outsiders };
        let Some(rec) = &gv.record else { return false };
        match self.cfg.regime {
            Regime::Unrestricted => true,
            Regime::Causal => {
                if rec.state == "pending" {
                    return false;
                }
                // "reached the state it was created in": the node's current epoch is at least
                // the event's epoch (a node that rolled back below an epoch has not reached it on
                // its new branch yet; events of branches it will never visit are harmless)
                let me = w.node_state(node, ev.g).map(|s| s.0).unwrap_or(0);
                me >= ev.epoch
            }
        }
    }

    fn undelivered(&self, w: &World, node: usize) -> Vec<EvRef> {
        w.events
            .iter()
            .filter(|e| !w.delivered[node].contains_key(&e.origin))
            .filter(|e| !(e.creator == node && e.kind != EvKind::Commit && self.sched_skip_own_echo(e)))
            .filter(|e| self.hold_until.get(&e.origin).map(|t| self.emitted >= *t || self.emitted >= self.cfg.steps).unwrap_or(true))
            .filter(|e| w.gview(node, e.g).is_some() && self.deliverable(w, node, e))
            .map(|e| e.origin)
            .collect()
    }

    fn sched_skip_own_echo(&self, _e: &PubEvent) -> bool {
        false
    }

    fn commit_op(&mut self, w: &World, node: usize, g: usize) -> Option<Op> {
        let admin = w.is_admin(node, g);
        let wts = &self.cfg.weights;
        let mut cands: Vec<(u64, Op)> = vec![(3, Op::SelfUpdate { g })];
        let mut invite_choice: Option<Vec<usize>> = None;
        if admin {
            cands.push((3, Op::UpdateData { g, variant: (self.sched.below(3)) as u8, arg: self.sched.below(1000) as u32 }));
            cands.push((1, Op::UpdateData { g, variant: 5 + self.sched.below(2) as u8, arg: 0 }));
            if self.media {
                cands.push((4, Op::SetGroupImage { g, seed: self.sched.next() as u32, format: if self.sched.chance(1, 3) { 1 } else { 2 } }));
            }
            if self.oversize_data {
                // group data larger than the storage layer accepts (name > 255 bytes, description > 2000)
                cands.push((1, Op::UpdateData { g, variant: 7 + self.sched.below(2) as u8, arg: self.sched.below(1000) as u32 }));
            }
            if wts.rotate > 0 {
                cands.push((wts.rotate, Op::UpdateData { g, variant: 4, arg: self.sched.below(1000) as u32 }));
            }
            let members = w.members_of(node, g);
            if members.len() > 1 && self.sched.chance(1, 3) {
                cands.push((1, Op::UpdateData { g, variant: 3, arg: (self.sched.next() as u32) | (1 << (node as u32 % 16)) }));
            }
            if wts.invite > 0 {
                let outsiders: Vec<usize> = (0..w.nodes.len())
                    .filter(|n| !members.contains(n) && !w.nodes[*n].key_packages.is_empty())
                    // never held the group, or was removed / left and processed that (re-invitation)
                    .filter(|n| {
                        w.gview(*n, g).is_none()
                            || (!self.cfg.guards.contains("no_reinvite")
                                && w.gview(*n, g).and_then(|v| v.record.as_ref()).map(|r| r.state == "inactive").unwrap_or(false))
                    })
                    .filter(|n| !(self.cfg.guards.contains("no_reinvite") && self.invited.contains(n)))
                    .collect();
                if !outsiders.is_empty() {
                    let k = 1 + self.sched.below(outsiders.len().min(2) as u64) as usize;
                    let mut o = outsiders.clone();
                    self.sched.shuffle(&mut o);
                    o.truncate(k);
                    invite_choice = Some(o.clone());
                    cands.push((wts.invite * 2, Op::AddMembers { g, who: o }));
                }
            }
            if wts.remove > 0 && members.len() > 2 {
                let others: Vec<usize> = members.iter().copied().filter(|m| *m != node).collect();
                if !others.is_empty() {
                    // one removal, or several members removed by one commit
                    let mut o = others.clone();
                    self.sched.shuffle(&mut o);
                    let k = if o.len() >= 2 && self.sched.chance(1, 3) { 2 + self.sched.below((o.len() - 1).min(2) as u64) as usize } else { 1 };
                    o.truncate(k);
                    cands.push((wts.remove, Op::RemoveMembers { g, who: o }));
                }
            }
        }
        let ws: Vec<u64> = cands.iter().map(|c| c.0).collect();
        let chosen = self.sched.weighted(&ws).map(|i| cands[i].1.clone());
        if let (Some(Op::AddMembers { .. }), Some(o)) = (&chosen, invite_choice) {
            self.invited.extend(o);
        }
        chosen
    }

    fn push_commit(&mut self, w: &mut World, node: usize, dt: u32, op: Op, g: usize) {
        let s = self.mk(w, node, dt, op);
        let sid = s.id;
        self.queue.push_back(s);
        if self.fault.below(100) < self.cfg.publish_failure_pct {
            // publish failure: event never reaches the relay; the app clears the pending commit
            self.withheld.insert(EvRef(sid, 0));
            // welcomes of that commit are never sent either
            let s2 = self.mk(w, node, 0, Op::ClearPending { g });
            self.queue.push_back(s2);
            w.fault("publish_failure");
        } else if self.cfg.policies[node] == OwnPolicy::Immediate {
            let s2 = self.mk(w, node, 0, Op::MergePending { g });
            self.queue.push_back(s2);
        }
    }

    fn welcome_released(&self, w: &World, pw: &PubWelcome) -> bool {
        if pw.hostile {
            return true;
        }
        match pw.commit {
            None => true,
            Some(c) => {
                if self.withheld.contains(&c) {
                    return false;
                }
                // released once the inviter has applied its commit
                let Some(ce) = w.ev(c) else { return false };
                match (&ce.result_state, w.node_state(pw.inviter, pw.g)) {
                    (Some(rs), Some((_, cur))) => {
                        *rs == cur || w.effective[pw.inviter].contains(&c)
                    }
                    _ => false,
                }
            }
        }
    }

    /// Next step of the fault phase; None when the step budget is used up.
    pub fn next(&mut self, w: &mut World) -> Option<Step> {
        if !self.setup_done {
            self.setup(w);
        }
        if let Some(s) = self.queue.pop_front() {
            self.emitted += 1;
            return Some(s);
        }
        if self.emitted >= self.cfg.steps {
            return None;
        }
        // welcomes first: a recipient that has an unprocessed released welcome handles it soon
        if self.reprocess_welcomes && !self.welcome_seen.is_empty() && self.sched.chance(1, 12) {
            let seen: Vec<EvRef> = self.welcome_seen.iter().copied().collect();
            let r = seen[self.sched.below(seen.len() as u64) as usize];
            if let Some(pw) = w.w_index.get(&r).map(|i| w.welcomes[*i].clone()) {
                let s = self.mk(w, pw.recipient, 0, Op::ProcessWelcome { w: r });
                self.emitted += 1;
                return Some(s);
            }
        }
        if self.feed_outsiders && self.sched.chance(1, 8) {
            // a client that never held the group is handed one of its events, or an invitation
            // addressed to somebody else
            let n = w.nodes.len();
            if !w.welcomes.is_empty() && self.sched.chance(1, 4) {
                let pw = w.welcomes[self.sched.below(w.welcomes.len() as u64) as usize].clone();
                let node = self.sched.below(n as u64) as usize;
                if node != pw.recipient && w.gview(node, pw.g).is_none() {
                    let s = self.mk(w, node, 0, Op::ProcessWelcome { w: pw.origin });
                    self.emitted += 1;
                    return Some(s);
                }
            } else if !w.events.is_empty() {
                let ev = w.events[self.sched.below(w.events.len() as u64) as usize].clone();
                let node = self.sched.below(n as u64) as usize;
                if w.gview(node, ev.g).is_none() && !w.delivered[node].contains_key(&ev.origin) {
                    let s = self.mk(w, node, 0, Op::Deliver { ev: ev.origin });
                    self.emitted += 1;
                    return Some(s);
                }
            }
        }
        for i in 0..w.welcomes.len() {
            let pw = w.welcomes[i].clone();
            if !self.welcome_seen.contains(&pw.origin) && self.welcome_released(w, &pw) && self.sched.chance(2, 3) {
                self.welcome_seen.insert(pw.origin);
                let s = self.mk(w, pw.recipient, 0, Op::ProcessWelcome { w: pw.origin });
                self.emitted += 1;
                return Some(s);
            }
            let (dn, dd) = if self.slow_accept { (1, 8) } else { (2, 3) };
            if self.welcome_seen.contains(&pw.origin) && !self.welcome_decided.contains(&pw.origin) && self.sched.chance(dn, dd) {
                self.welcome_decided.insert(pw.origin);
                let op = if self.sched.chance(1, 20) { Op::DeclineWelcome { w: pw.origin } } else { Op::AcceptWelcome { w: pw.origin } };
                let s = self.mk(w, pw.recipient, 0, op);
                self.emitted += 1;
                return Some(s);
            }
        }
        if !self.cfg.second_group || w.groups.len() >= 2 {
        } else if w.groups.len() == 1 && self.emitted > 8 {
            // second group created by node 1 with a subset of nodes (shares members with group 0)
            let creator = 1.min(w.nodes.len() - 1);
            let members: Vec<usize> = (0..w.nodes.len()).filter(|n| *n != creator && self.sched.chance(1, 2)).take(3).collect();
            let s = self.mk(w, creator, 1, Op::CreateGroup { members, admins: vec![], tag: 1 });
            self.emitted += 1;
            return Some(s);
        }
        for _attempt in 0..20 {
            let wts = self.cfg.weights.clone();
            let kinds = [wts.msg, wts.commit, wts.deliver, wts.dup, wts.fork, wts.restart, wts.leave, wts.hostile];
            let Some(k) = self.sched.weighted(&kinds) else { return None };
            let n_nodes = w.nodes.len();
            let node = self.sched.below(n_nodes as u64) as usize;
            let n_groups = w.groups.len().max(1);
            let g = self.sched.below(n_groups as u64) as usize;
            let mut dt = [0u32, 0, 0, 1, 1, 2, 5][self.sched.below(7) as usize];
            if self.cfg.big_dt && self.sched.chance(1, 8) {
                dt = self.sched.range(10, 90) as u32;
                w.fault("clock_jump");
            }
            let step = match k {
                0 => {
                    let ex = self.ex_members_send && w.gview(node, g).is_some() && self.sched.chance(1, 3);
                    if !w.is_active_member(node, g) && !ex {
                        continue;
                    }
                    self.msg_tag += 1;
                    let ts_back = [0u32, 0, 0, 1, 2, 3][self.sched.below(6) as usize];
                    { let kind = if self.sched.chance(1, 5) { 7 } else { 9 }; let tag = self.msg_tag; let imeta = self.media && self.sched.chance(1, 2); Some(self.mk(w, node, dt, Op::SendMsg { g, tag, ts_back, kind, imeta })) }
                }
                1 => {
                    if !w.is_active_member(node, g) || w.has_pending_commit(node, g) {
                        continue;
                    }
                    if self.cfg.guards.contains("single_committer") && node != 0 {
                        continue;
                    }
                    let Some(op) = self.commit_op(w, node, g) else { continue };
                    self.push_commit(w, node, dt, op, g);
                    self.queue.pop_front()
                }
                2 => {
                    let und = self.undelivered(w, node);
                    if und.is_empty() {
                        continue;
                    }
                    // mostly oldest-first, sometimes any
                    let r = if self.sched.chance(3, 5) { und[0] } else { *self.sched.pick(&und).unwrap() };
                    if und.len() > 1 && r != und[0] {
                        w.fault("reorder");
                    }
                    Some(self.mk(w, node, dt, Op::Deliver { ev: r }))
                }
                3 => {
                    let seen: Vec<EvRef> = w.delivered[node].keys().copied().collect();
                    let Some(r) = self.sched.pick(&seen) else { continue };
                    Some(self.mk(w, node, dt, Op::Deliver { ev: *r }))
                }
                4 => {
                    // fork burst: 2..4 members in the same state commit before any delivery
                    let Some((_, st)) = w.node_state(node, g) else { continue };
                    let mut same: Vec<usize> = (0..n_nodes)
                        .filter(|n| w.is_active_member(*n, g) && !w.has_pending_commit(*n, g))
                        .filter(|n| w.node_state(*n, g).map(|s| s.1 == st).unwrap_or(false))
                        .collect();
                    if same.len() < 2 {
                        continue;
                    }
                    self.sched.shuffle(&mut same);
                    let k = (2 + self.sched.below(3) as usize).min(same.len());
                    same.truncate(k);
                    let pattern = self.sched.below(4);
                    for (i, n) in same.iter().enumerate() {
                        let Some(op) = self.commit_op(w, *n, g) else { continue };
                        let d = match pattern {
                            0 => 0,                     // all equal timestamps: id tie-break
                            1 => 1,                     // strictly increasing
                            2 => if i == 1 { 1 } else { 0 }, // pairwise ties
                            _ => self.sched.below(3) as u32,
                        };
                        self.push_commit(w, *n, d, op, g);
                    }
                    w.fault("fork_burst");
                    self.queue.pop_front()
                }
                5 => {
                    if !w.nodes[node].cfg.backend.is_sqlite() {
                        continue;
                    }
                    Some(self.mk(w, node, dt, Op::Restart))
                }
                6 => {
                    if !w.is_active_member(node, g) || w.has_pending_commit(node, g) || w.members_of(node, g).len() < 3 {
                        continue;
                    }
                    // creator never leaves (keeps at least one admin around)
                    if node == w.groups.get(g).map(|x| x.creator).unwrap_or(0) {
                        continue;
                    }
                    Some(self.mk(w, node, dt, Op::Leave { g }))
                }
                _ => {
                    let Some(h) = self.hostile_hook else { continue };
                    h(self, w)
                }
            };
            if let Some(s) = step {
                self.emitted += 1;
                return Some(s);
            }
        }
        // nothing enabled: let time pass
        self.emitted += 1;
        let s = self.mk(w, 0, 1, Op::Nop);
        Some(s)
    }
}

/// Quiescence phase (faults have stopped): resolve pending own commits, then offer every
/// published event to every node again, pass after pass, until a whole pass changes no
/// fingerprint. Returns (passes, quiesced).
pub fn quiesce(
    w: &mut World,
    cfg: &RunCfg,
    withheld: &BTreeSet<EvRef>,
    mut after_step: impl FnMut(&mut World, &StepRecord),
) -> (usize, bool) {
    let mut rng = Rng::new(cfg.seed).fork(9);
    let mut sid: u32 = 1_000_000;
    let helper = Gen::new(cfg.clone());
    let mut helper = helper;
    helper.withheld = withheld.clone();
    let n_commits = w.events.iter().filter(|e| e.kind == EvKind::Commit).count();
    let bound = n_commits + w.nodes.len() + 3;
    let mut passes = 0;
    loop {
        passes += 1;
        let mut changed = false;
        let mut order: Vec<usize> = (0..w.nodes.len()).collect();
        rng.shuffle(&mut order);
        for node in order {
            // released welcomes: process + accept
            for i in 0..w.welcomes.len() {
                let pw = w.welcomes[i].clone();
                if pw.recipient != node || pw.hostile || !helper.welcome_released(w, &pw) {
                    continue;
                }
                let state = w.gview(node, pw.g).and_then(|v| v.record.as_ref()).map(|r| r.state.clone());
                let declined = w.history.iter().any(|r| r.step.node == node && r.step.op == Op::DeclineWelcome { w: pw.origin });
                let ops: Vec<Op> = match state.as_deref() {
                    None => vec![Op::ProcessWelcome { w: pw.origin }, Op::AcceptWelcome { w: pw.origin }],
                    Some("pending") if !declined => vec![Op::AcceptWelcome { w: pw.origin }],
                    _ => vec![],
                };
                {
                    for op in ops {
                        sid += 1;
                        let rec = w.exec(&Step { id: sid, node, dt: 0, op });
                        changed |= rec.pre_hash != rec.post_hash;
                        after_step(w, &rec);
                    }
                }
            }
            let mut evs: Vec<EvRef> = w.events.iter().map(|e| e.origin).collect();
            rng.shuffle(&mut evs);
            let mut idx = 0;
            while idx < evs.len() {
                let r = evs[idx];
                idx += 1;
                let Some(pe) = w.ev(r).cloned() else { continue };
                if pe.kind == EvKind::Hostile || !helper.deliverable(w, node, &pe) {
                    continue;
                }
                sid += 1;
                let rec = w.exec(&Step { id: sid, node, dt: 0, op: Op::Deliver { ev: r } });
                changed |= rec.pre_hash != rec.post_hash;
                let created = rec.created.clone();
                after_step(w, &rec);
                for c in created {
                    // an auto-commit was produced during quiescence: it is published and offered too
                    evs.push(c);
                    changed = true;
                }
            }
            // a node still holding a pending own commit whose event was withheld clears it
            for g in 0..w.groups.len() {
                if w.has_pending_commit(node, g) {
                    let own = w.pending_own.get(&(node, g)).copied();
                    let published = own.map(|o| !withheld.contains(&o)).unwrap_or(false);
                    if !published {
                        sid += 1;
                        let rec = w.exec(&Step { id: sid, node, dt: 0, op: Op::ClearPending { g } });
                        changed |= rec.pre_hash != rec.post_hash;
                        after_step(w, &rec);
                    }
                }
            }
        }
        if !changed {
            return (passes, true);
        }
        if passes >= bound {
            return (passes, false);
        }
    }
}
