//! A simulated client: real `MDK` over a real storage backend, plus the observation helpers
//! (fingerprints) used by every oracle.

use std::collections::BTreeMap;
use std::path::{Path, PathBuf};
use std::sync::{Arc, Mutex};

use mdk_core::prelude::*;
use mdk_core::callback::{MdkCallback, RollbackInfo};
use mdk_core::{MDK, MdkConfig};
use mdk_memory_storage::MdkMemoryStorage;
use mdk_sqlite_storage::{EncryptionConfig, MdkSqliteStorage};
use mdk_storage_traits::groups::{MessageSortOrder, Pagination};
use nostr::{Event, EventBuilder, Keys, Kind, RelayUrl};
use serde::Serialize;
use sha2::{Digest, Sha256};

#[derive(Debug, Clone, Copy, PartialEq, Eq, Serialize, serde::Deserialize, Hash, PartialOrd, Ord)]
pub enum BackendKind {
    Memory,
    Sqlite,
    SqliteCipher,
}

impl BackendKind {
    pub fn is_sqlite(self) -> bool {
        !matches!(self, BackendKind::Memory)
    }
}

pub enum Mdk {
    Mem(MDK<MdkMemoryStorage>),
    Sql(MDK<MdkSqliteStorage>),
}

#[macro_export]
macro_rules! with_mdk {
    ($n:expr, $m:ident => $body:expr) => {
        match $n {
            $crate::node::Mdk::Mem($m) => $body,
            $crate::node::Mdk::Sql($m) => $body,
        }
    };
}

#[derive(Debug, Default)]
pub struct RollbackRecorder {
    pub infos: Mutex<Vec<RollbackInfo>>,
}

impl MdkCallback for RollbackRecorder {
    fn on_rollback(&self, info: &RollbackInfo) {
        self.infos.lock().unwrap().push(info.clone());
    }
}

#[derive(Debug, Clone, Serialize, serde::Deserialize, PartialEq)]
pub struct NodeCfg {
    pub backend: BackendKind,
    pub max_event_age_secs: u64,
    pub max_future_skew_secs: u64,
    pub out_of_order_tolerance: u32,
    pub maximum_forward_distance: u32,
    pub max_past_epochs: usize,
    pub epoch_snapshot_retention: usize,
    pub snapshot_ttl_seconds: u64,
    pub clock_offset: i64,
    /// memory backend cache size (0 = default)
    pub cache_size: usize,
}

impl Default for NodeCfg {
    fn default() -> Self {
        let d = MdkConfig::default();
        NodeCfg {
            backend: BackendKind::Memory,
            max_event_age_secs: d.max_event_age_secs,
            max_future_skew_secs: d.max_future_skew_secs,
            out_of_order_tolerance: d.out_of_order_tolerance,
            maximum_forward_distance: d.maximum_forward_distance,
            max_past_epochs: d.max_past_epochs,
            epoch_snapshot_retention: d.epoch_snapshot_retention,
            snapshot_ttl_seconds: d.snapshot_ttl_seconds,
            clock_offset: 0,
            cache_size: 0,
        }
    }
}

impl NodeCfg {
    pub fn mdk_config(&self) -> MdkConfig {
        MdkConfig {
            max_event_age_secs: self.max_event_age_secs,
            max_future_skew_secs: self.max_future_skew_secs,
            out_of_order_tolerance: self.out_of_order_tolerance,
            maximum_forward_distance: self.maximum_forward_distance,
            max_past_epochs: self.max_past_epochs,
            epoch_snapshot_retention: self.epoch_snapshot_retention,
            snapshot_ttl_seconds: self.snapshot_ttl_seconds,
        }
    }
}

pub struct Node {
    pub idx: usize,
    pub keys: Keys,
    pub cfg: NodeCfg,
    pub mdk: Option<Mdk>,
    pub dir: PathBuf,
    pub db_key: [u8; 32],
    pub rollbacks: Arc<RollbackRecorder>,
    pub restarts: u32,
    /// key package events this node published (kind 443)
    pub key_packages: Vec<Event>,
}

pub fn relay() -> RelayUrl {
    RelayUrl::parse("wss://relay.sim.example").unwrap()
}

impl Node {
    /// Create the node (keys come from the current thread entropy) and open its storage.
    pub fn new(idx: usize, cfg: NodeCfg, base: &Path) -> Result<Self, String> {
        let keys = Keys::generate();
        let mut db_key = [0u8; 32];
        simhook::fill(&mut db_key);
        let dir = base.join(format!("n{idx}"));
        let mut n = Node {
            idx,
            keys,
            cfg,
            mdk: None,
            dir,
            db_key,
            rollbacks: Arc::new(RollbackRecorder::default()),
            restarts: 0,
            key_packages: vec![],
        };
        n.open()?;
        Ok(n)
    }

    pub fn db_path(&self) -> PathBuf {
        self.dir.join("mdk.sqlite")
    }

    /// (Re)open the storage and build the MDK instance.
    pub fn open(&mut self) -> Result<(), String> {
        let cfg = self.cfg.mdk_config();
        let cb: Arc<dyn MdkCallback> = self.rollbacks.clone();
        let mdk = match self.cfg.backend {
            BackendKind::Memory => {
                let st = if self.cfg.cache_size > 0 {
                    MdkMemoryStorage::with_limits(
                        mdk_memory_storage::ValidationLimits::default()
                            .with_cache_size(self.cfg.cache_size),
                    )
                } else {
                    MdkMemoryStorage::default()
                };
                Mdk::Mem(MDK::builder(st).with_config(cfg).with_callback(cb).build())
            }
            BackendKind::Sqlite => {
                std::fs::create_dir_all(&self.dir).map_err(|e| e.to_string())?;
                let st = MdkSqliteStorage::new_unencrypted(self.db_path())
                    .map_err(|e| format!("open sqlite: {e}"))?;
                Mdk::Sql(MDK::builder(st).with_config(cfg).with_callback(cb).build())
            }
            BackendKind::SqliteCipher => {
                std::fs::create_dir_all(&self.dir).map_err(|e| e.to_string())?;
                // harness self-test of the C13 scanner: a plain database under the cipher label
                // must be reported (MDK_SIM_PLAIN_AS_CIPHER=1, never set by a registered command)
                let st = if std::env::var_os("MDK_SIM_PLAIN_AS_CIPHER").is_some() {
                    MdkSqliteStorage::new_unencrypted(self.db_path())
                } else {
                    MdkSqliteStorage::new_with_key(self.db_path(), EncryptionConfig::new(self.db_key))
                }
                .map_err(|e| format!("open sqlcipher: {e}"))?;
                Mdk::Sql(MDK::builder(st).with_config(cfg).with_callback(cb).build())
            }
        };
        self.mdk = Some(mdk);
        Ok(())
    }

    /// Clean shutdown + reopen. Memory backend: not applicable (no-op, returns false).
    pub fn restart(&mut self) -> Result<bool, String> {
        if !self.cfg.backend.is_sqlite() {
            return Ok(false);
        }
        self.mdk = None; // drop MDK + storage (closes the connection)
        self.open()?;
        self.restarts += 1;
        Ok(true)
    }

    pub fn mdk(&self) -> &Mdk {
        self.mdk.as_ref().expect("node is open")
    }

    pub fn pubkey(&self) -> nostr::PublicKey {
        self.keys.public_key()
    }

    /// Create and sign a key-package event (kind 443).
    pub fn publish_key_package(&mut self) -> Result<Event, String> {
        let pk = self.keys.public_key();
        let (content, tags, _hash) = with_mdk!(self.mdk(), m => m
            .create_key_package_for_event(&pk, [relay()]))
        .map_err(|e| format!("create_key_package: {e}"))?;
        let ev = EventBuilder::new(Kind::MlsKeyPackage, content)
            .tags(tags)
            .sign_with_keys(&self.keys)
            .map_err(|e| e.to_string())?;
        self.key_packages.push(ev.clone());
        Ok(ev)
    }
}

// ---------------------------------------------------------------------------------------------
// Observation
// ---------------------------------------------------------------------------------------------

#[derive(Debug, Clone, Serialize, PartialEq, Eq, Default)]
pub struct MsgView {
    pub id: String,
    pub pubkey: String,
    pub kind: u16,
    pub created_at: u64,
    pub processed_at: u64,
    pub content: String,
    pub tags: String,
    pub state: String,
    pub epoch: Option<u64>,
    pub wrapper: String,
    pub id_ok: bool,
    pub event_consistent: bool,
}

#[derive(Debug, Clone, Serialize, PartialEq, Eq, Default)]
pub struct RecordView {
    pub nostr_group_id: String,
    pub name: String,
    pub description: String,
    pub admins: Vec<String>,
    pub epoch: u64,
    pub state: String,
    pub image_hash: Option<String>,
    pub image_key: Option<String>,
    pub image_nonce: Option<String>,
    pub last_message_id: Option<String>,
    pub last_message_at: Option<u64>,
    pub last_message_processed_at: Option<u64>,
    pub self_update: String,
}

#[derive(Debug, Clone, Serialize, PartialEq, Eq, Default)]
pub struct MlsView {
    pub epoch: u64,
    pub authenticator: String,
    pub tree_hash: String,
    pub members: Vec<String>,
    /// leaf index -> identity
    pub leaves: BTreeMap<u32, String>,
    pub ext_nostr_group_id: String,
    pub ext_name: String,
    pub ext_description: String,
    pub ext_admins: Vec<String>,
    pub ext_relays: Vec<String>,
    pub ext_image_hash: Option<String>,
    pub ext_image_key: Option<String>,
    pub ext_image_nonce: Option<String>,
    pub ext_image_upload_key: Option<String>,
    pub ext_version: u16,
    pub pending_proposals: Vec<String>,
    pub pending_commit: bool,
    pub own_leaf: Option<u32>,
    pub active: bool,
}

#[derive(Debug, Clone, Serialize, PartialEq, Eq, Default)]
pub struct GroupView {
    pub gid: String,
    pub record: Option<RecordView>,
    pub relays: Vec<String>,
    pub mls: Option<MlsView>,
    pub mls_err: Option<String>,
    pub messages: Vec<MsgView>,
    pub snapshots: Vec<String>,
    pub secrets_epochs: Vec<u64>,
    /// message ids in the order get_messages (default sort) returned them
    pub order: Vec<String>,
}

pub fn h8(b: &[u8]) -> String {
    hex::encode(&Sha256::digest(b)[..8])
}

pub fn sha_hex(b: &[u8]) -> String {
    hex::encode(Sha256::digest(b))
}

pub fn msg_view(m: &message_types::Message) -> MsgView {
    let tags_json = serde_json::to_string(&m.tags).unwrap_or_default();
    let mut ev = m.event.clone();
    let preset = ev.id;
    ev.id = None;
    ev.ensure_id();
    let computed = ev.id;
    MsgView {
        id: m.id.to_hex(),
        pubkey: m.pubkey.to_hex(),
        kind: m.kind.as_u16(),
        created_at: m.created_at.as_secs(),
        processed_at: m.processed_at.as_secs(),
        content: m.content.clone(),
        tags: tags_json,
        state: m.state.as_str().to_string(),
        epoch: m.epoch,
        wrapper: m.wrapper_event_id.to_hex(),
        // NIP-01 id over the stored event fields equals the stored id
        id_ok: computed == Some(m.id) && (preset.is_none() || preset == Some(m.id)),
        event_consistent: m.event.pubkey == m.pubkey
            && m.event.kind == m.kind
            && m.event.created_at == m.created_at
            && m.event.content == m.content
            && m.event.tags == m.tags,
    }
}

pub fn record_view(g: &group_types::Group) -> RecordView {
    RecordView {
        nostr_group_id: hex::encode(g.nostr_group_id),
        name: g.name.clone(),
        description: g.description.clone(),
        admins: g.admin_pubkeys.iter().map(|p| p.to_hex()).collect(),
        epoch: g.epoch,
        state: g.state.as_str().to_string(),
        image_hash: g.image_hash.map(hex::encode),
        image_key: g.image_key.as_ref().map(|k| hex::encode(k.as_ref())),
        image_nonce: g.image_nonce.as_ref().map(|k| hex::encode(k.as_ref())),
        last_message_id: g.last_message_id.map(|i| i.to_hex()),
        last_message_at: g.last_message_at.map(|t| t.as_secs()),
        last_message_processed_at: g.last_message_processed_at.map(|t| t.as_secs()),
        self_update: match g.self_update_state {
            group_types::SelfUpdateState::Required => "required".into(),
            group_types::SelfUpdateState::CompletedAt(t) => format!("completed@{}", t.as_secs()),
        },
    }
}

pub fn mls_view<S: MdkStorageProvider>(mdk: &MDK<S>, gid: &GroupId) -> Result<Option<MlsView>, String> {
    use openmls::prelude::BasicCredential;
    let g = match mdk.load_mls_group(gid) {
        Ok(Some(g)) => g,
        Ok(None) => return Ok(None),
        Err(e) => return Err(format!("{e}")),
    };
    let mut leaves = BTreeMap::new();
    for m in g.members() {
        let id = BasicCredential::try_from(m.credential.clone())
            .map(|c| hex::encode(c.identity()))
            .unwrap_or_else(|_| "<bad credential>".into());
        leaves.insert(m.index.u32(), id);
    }
    let mut members: Vec<String> = leaves.values().cloned().collect();
    members.sort();
    let mut v = MlsView {
        epoch: g.epoch().as_u64(),
        authenticator: hex::encode(g.epoch_authenticator().as_slice()),
        tree_hash: mdk.get_ratchet_tree_info(gid).map(|t| t.tree_hash).unwrap_or_default(),
        members,
        leaves,
        pending_proposals: {
            let mut p: Vec<String> = g
                .pending_proposals()
                .map(|q| h8(format!("{:?}", q.proposal_reference_ref()).as_bytes()))
                .collect();
            p.sort();
            p
        },
        pending_commit: g.pending_commit().is_some(),
        own_leaf: g.own_leaf().map(|_| g.own_leaf_index().u32()),
        active: g.is_active(),
        ..Default::default()
    };
    match NostrGroupDataExtension::from_group(&g) {
        Ok(e) => {
            v.ext_version = e.version;
            v.ext_nostr_group_id = hex::encode(e.nostr_group_id);
            v.ext_name = e.name.clone();
            v.ext_description = e.description.clone();
            v.ext_admins = e.admins.iter().map(|p| p.to_hex()).collect();
            v.ext_relays = e.relays.iter().map(|r| r.to_string()).collect();
            v.ext_image_hash = e.image_hash.map(hex::encode);
            v.ext_image_key = e.image_key.map(hex::encode);
            v.ext_image_nonce = e.image_nonce.map(hex::encode);
            v.ext_image_upload_key = e.image_upload_key.map(hex::encode);
        }
        Err(e) => {
            v.ext_name = format!("<ext error {e}>");
        }
    }
    Ok(Some(v))
}

pub fn all_messages<S: MdkStorageProvider>(mdk: &MDK<S>, gid: &GroupId) -> Vec<message_types::Message> {
    let mut out = Vec::new();
    let mut off = 0usize;
    loop {
        let page = mdk
            .get_messages(
                gid,
                Some(Pagination::with_sort_order(Some(1000), Some(off), MessageSortOrder::CreatedAtFirst)),
            )
            .unwrap_or_default();
        let n = page.len();
        out.extend(page);
        if n < 1000 {
            break;
        }
        off += n;
    }
    out
}

pub fn group_view<S: MdkStorageProvider>(mdk: &MDK<S>, gid: &GroupId) -> GroupView {
    use openmls_traits::OpenMlsProvider;
    let storage = mdk.provider.storage();
    let mut gv = GroupView { gid: hex::encode(gid.as_slice()), ..Default::default() };
    let rec = mdk.get_group(gid).ok().flatten();
    gv.record = rec.as_ref().map(record_view);
    gv.relays = mdk
        .get_relays(gid)
        .map(|r| r.into_iter().map(|u| u.to_string()).collect())
        .unwrap_or_default();
    match mls_view(mdk, gid) {
        Ok(v) => gv.mls = v,
        Err(e) => gv.mls_err = Some(e),
    }
    let mut msgs: Vec<MsgView> = all_messages(mdk, gid).iter().map(msg_view).collect();
    gv.order = msgs.iter().map(|m| m.id.clone()).collect();
    msgs.sort_by(|a, b| a.id.cmp(&b.id));
    gv.messages = msgs;
    gv.snapshots = storage
        .list_group_snapshots(gid)
        .map(|v| v.into_iter().map(|(n, _)| n).collect())
        .unwrap_or_default();
    gv.snapshots.sort();
    let top = gv.mls.as_ref().map(|m| m.epoch).unwrap_or(0).max(rec.map(|r| r.epoch).unwrap_or(0)) + 2;
    for e in 0..=top {
        if let Ok(Some(_)) = storage.get_group_exporter_secret(gid, e) {
            gv.secrets_epochs.push(e);
        }
    }
    gv
}

#[derive(Debug, Clone, Serialize, PartialEq, Eq, Default)]
pub struct NodeView {
    pub groups: BTreeMap<String, GroupView>,
    pub pending_welcomes: Vec<String>,
}

pub fn node_view<S: MdkStorageProvider>(mdk: &MDK<S>) -> NodeView {
    let mut nv = NodeView::default();
    let mut gs = mdk.get_groups().unwrap_or_default();
    gs.sort_by(|a, b| a.mls_group_id.as_slice().cmp(b.mls_group_id.as_slice()));
    for g in gs {
        let v = group_view(mdk, &g.mls_group_id);
        nv.groups.insert(v.gid.clone(), v);
    }
    let mut w: Vec<String> = mdk
        .get_pending_welcomes(None)
        .unwrap_or_default()
        .iter()
        .map(|w| format!("{}:{}", w.id.to_hex(), hex::encode(w.mls_group_id.as_slice())))
        .collect();
    w.sort();
    nv.pending_welcomes = w;
    nv
}

impl Node {
    pub fn view(&self) -> NodeView {
        with_mdk!(self.mdk(), m => node_view(m))
    }
    /// View of a copy of this node's database directory (SQLite backends), opened on its own.
    pub fn view_of_image(&self, image: &Path) -> Option<NodeView> {
        let path = image.join("mdk.sqlite");
        let st = match self.cfg.backend {
            BackendKind::Sqlite => MdkSqliteStorage::new_unencrypted(path).ok()?,
            BackendKind::SqliteCipher => MdkSqliteStorage::new_with_key(path, EncryptionConfig::new(self.db_key)).ok()?,
            BackendKind::Memory => return None,
        };
        let mdk = MDK::builder(st).with_config(self.cfg.mdk_config()).build();
        Some(node_view(&mdk))
    }
    pub fn group_view(&self, gid: &GroupId) -> GroupView {
        with_mdk!(self.mdk(), m => group_view(m, gid))
    }
}

pub fn view_hash<T: Serialize>(v: &T) -> String {
    h8(serde_json::to_string(v).unwrap_or_default().as_bytes())
}
