//! Harness PRNG (xoshiro256**), independent of the library's entropy stream.

#[derive(Clone, Debug)]
pub struct Rng {
    s: [u64; 4],
}

fn splitmix(x: &mut u64) -> u64 {
    *x = x.wrapping_add(0x9E37_79B9_7F4A_7C15);
    let mut z = *x;
    z = (z ^ (z >> 30)).wrapping_mul(0xBF58_476D_1CE4_E5B9);
    z = (z ^ (z >> 27)).wrapping_mul(0x94D0_49BB_1331_11EB);
    z ^ (z >> 31)
}

impl Rng {
    pub fn new(seed: u64) -> Self {
        let mut x = seed;
        Rng { s: [splitmix(&mut x), splitmix(&mut x), splitmix(&mut x), splitmix(&mut x)] }
    }
    /// Independent sub-stream.
    pub fn fork(&self, label: u64) -> Rng {
        Rng::new(self.s[0] ^ label.wrapping_mul(0xD6E8_FEB8_6659_FD93) ^ self.s[2].rotate_left(17))
    }
    pub fn next(&mut self) -> u64 {
        let r = self.s[1].wrapping_mul(5).rotate_left(7).wrapping_mul(9);
        let t = self.s[1] << 17;
        self.s[2] ^= self.s[0];
        self.s[3] ^= self.s[1];
        self.s[1] ^= self.s[2];
        self.s[0] ^= self.s[3];
        self.s[2] ^= t;
        self.s[3] = self.s[3].rotate_left(45);
        r
    }
    /// uniform in 0..n (n>0)
    pub fn below(&mut self, n: u64) -> u64 {
        if n == 0 {
            return 0;
        }
        self.next() % n
    }
    pub fn range(&mut self, lo: u64, hi_incl: u64) -> u64 {
        lo + self.below(hi_incl - lo + 1)
    }
    pub fn chance(&mut self, num: u64, den: u64) -> bool {
        self.below(den) < num
    }
    pub fn pick<'a, T>(&mut self, v: &'a [T]) -> Option<&'a T> {
        if v.is_empty() { None } else { Some(&v[self.below(v.len() as u64) as usize]) }
    }
    pub fn shuffle<T>(&mut self, v: &mut [T]) {
        for i in (1..v.len()).rev() {
            let j = self.below(i as u64 + 1) as usize;
            v.swap(i, j);
        }
    }
    /// weighted index
    pub fn weighted(&mut self, w: &[u64]) -> Option<usize> {
        let total: u64 = w.iter().sum();
        if total == 0 {
            return None;
        }
        let mut x = self.below(total);
        for (i, wi) in w.iter().enumerate() {
            if x < *wi {
                return Some(i);
            }
            x -= wi;
        }
        None
    }
    pub fn bytes(&mut self, n: usize) -> Vec<u8> {
        let mut v = Vec::with_capacity(n);
        while v.len() < n {
            v.extend_from_slice(&self.next().to_le_bytes());
        }
        v.truncate(n);
        v
    }
}
