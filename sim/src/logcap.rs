//! Per-thread capture of every `tracing` record (all levels, all targets) emitted while a
//! simulated run executes. Never draws from a PRNG nor reads a clock.

use std::cell::RefCell;
use std::fmt::Write;

use tracing::field::{Field, Visit};
use tracing::{Event, Subscriber};
use tracing_subscriber::layer::{Context, Layer};
use tracing_subscriber::prelude::*;

thread_local! {
    static BUF: RefCell<Vec<String>> = const { RefCell::new(Vec::new()) };
}

struct V<'a>(&'a mut String);

impl Visit for V<'_> {
    fn record_debug(&mut self, field: &Field, value: &dyn std::fmt::Debug) {
        let _ = write!(self.0, " {}={:?}", field.name(), value);
    }
    fn record_str(&mut self, field: &Field, value: &str) {
        let _ = write!(self.0, " {}={}", field.name(), value);
    }
}

struct Capture;

impl<S: Subscriber> Layer<S> for Capture {
    fn on_event(&self, event: &Event<'_>, _ctx: Context<'_, S>) {
        let mut s = String::new();
        let m = event.metadata();
        let _ = write!(s, "{} {}:", m.level(), m.target());
        event.record(&mut V(&mut s));
        BUF.with(|b| {
            let mut b = b.borrow_mut();
            if b.len() < 200_000 {
                b.push(s);
            }
        });
    }
}

/// Install the capturing subscriber as this thread's default. Keep the guard alive for the run.
pub fn install() -> tracing::subscriber::DefaultGuard {
    let sub = tracing_subscriber::registry().with(Capture);
    tracing::subscriber::set_default(sub)
}

pub fn drain() -> Vec<String> {
    BUF.with(|b| std::mem::take(&mut *b.borrow_mut()))
}
