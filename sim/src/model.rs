//! Reference models shared by the oracles: the commit tree with the MIP-03 selector, and helpers
//! over the recorded history. Small, sequential, fed only by what the simulator itself created.

use std::collections::BTreeSet;

use crate::world::*;

#[derive(Debug, Clone)]
pub struct WinningChain {
    /// states along the chain, starting with the root state
    pub states: Vec<String>,
    /// winning commit at each fork point
    pub commits: Vec<EvRef>,
    /// all losing siblings, with the state they forked from
    pub losers: Vec<(EvRef, String)>,
    pub forks: usize,
    pub max_siblings: usize,
}

/// MIP-03: among the commits published for one state, earliest wrapper timestamp wins, then the
/// lexicographically smallest event id (lower-case hex).
pub fn mip03_winner<'a>(cands: &[&'a PubEvent]) -> Option<&'a PubEvent> {
    cands
        .iter()
        .copied()
        .min_by(|a, b| {
            a.event
                .created_at
                .as_secs()
                .cmp(&b.event.created_at.as_secs())
                .then_with(|| a.event.id.to_hex().cmp(&b.event.id.to_hex()))
        })
}

pub fn winning_chain(w: &World, g: usize, withheld: &BTreeSet<EvRef>) -> WinningChain {
    let root = w.groups[g].root_state.clone();
    let mut wc = WinningChain { states: vec![root.clone()], commits: vec![], losers: vec![], forks: 0, max_siblings: 0 };
    let mut cur = root;
    loop {
        let cands: Vec<&PubEvent> = w
            .events
            .iter()
            .filter(|e| e.kind == EvKind::Commit && e.g == g && e.parent_state == cur && !withheld.contains(&e.origin))
            .filter(|e| e.result_state.is_some())
            .filter(|e| commit_is_authorised(w, e))
            .collect();
        if cands.is_empty() {
            break;
        }
        if cands.len() > 1 {
            wc.forks += 1;
        }
        wc.max_siblings = wc.max_siblings.max(cands.len());
        let win = mip03_winner(&cands).unwrap();
        for c in &cands {
            if c.origin != win.origin {
                wc.losers.push((c.origin, cur.clone()));
            }
        }
        wc.commits.push(win.origin);
        cur = win.result_state.clone().unwrap();
        if wc.states.contains(&cur) {
            break; // cannot happen (authenticators are unique), defensive
        }
        wc.states.push(cur.clone());
    }
    wc
}

/// First step at which `ev` was handed to `node` (fault phase or quiescence).
pub fn first_delivery(w: &World, node: usize, ev: EvRef) -> Option<&StepRecord> {
    w.history.iter().find(|r| r.step.node == node && matches!(&r.step.op, Op::Deliver { ev: e } if *e == ev))
}

/// The protocol accepts a commit only from an admin of the state it was created in, or from a
/// non-admin when it does nothing but refresh its author's own leaf. Honest clients can only
/// build the second kind through `self_update`; when proposals were queued at the author that
/// commit covers them by reference and is not a pure self-update any more.
pub fn commit_is_authorised(w: &World, e: &PubEvent) -> bool {
    let pk = w.nodes[e.creator].pubkey().to_hex();
    let admin = w.state_info.get(&e.parent_state).map(|i| i.admins.contains(&pk)).unwrap_or(true);
    admin || !e.refs_proposals
}
