//! The simulated world: nodes (real MDK), the relay (all published events), the application
//! layer (what to do with results), the discrete clock, and the ground-truth ledgers that the
//! oracles compare the real clients with. Nothing here feeds back into the clients.

use std::collections::{BTreeMap, BTreeSet, HashMap};
use std::path::PathBuf;

use mdk_core::prelude::*;
use nostr::{Event, EventBuilder, EventId, Kind, Tag, TagKind, Timestamp, UnsignedEvent};
use serde::{Deserialize, Serialize};

use crate::node::*;
use crate::seam;
use crate::with_mdk;

pub const T0: u64 = 1_900_000_000;

#[derive(Debug, Clone, Copy, PartialEq, Eq, Hash, PartialOrd, Ord, Serialize, Deserialize)]
pub struct EvRef(pub u32, pub u8);

#[derive(Debug, Clone, PartialEq, Eq, Serialize, Deserialize)]
pub enum Op {
    PublishKeyPackage,
    CreateGroup { members: Vec<usize>, admins: Vec<usize>, tag: u32 },
    ProcessWelcome { w: EvRef },
    AcceptWelcome { w: EvRef },
    DeclineWelcome { w: EvRef },
    SendMsg { g: usize, tag: u32, ts_back: u32, kind: u16, imeta: bool },
    AddMembers { g: usize, who: Vec<usize> },
    RemoveMembers { g: usize, who: Vec<usize> },
    /// variant: 0 name, 1 description, 2 relays, 3 admins(arg = bitmask of nodes), 4 rotate nostr id, 5 image fields, 6 clear image
    UpdateData { g: usize, variant: u8, arg: u32 },
    SelfUpdate { g: usize },
    Leave { g: usize },
    MergePending { g: usize },
    ClearPending { g: usize },
    Deliver { ev: EvRef },
    Restart,
    /// download a media blob announced by message `msg` from the simulated blob store and decrypt
    /// it. tamper: 0 none, 1 nonce, 2 file name, 3 MIME type, 4 content hash, 5 scheme version,
    /// 6 ciphertext bit flip, 7 truncation
    MediaDownload { msg: EvRef, tamper: u8, seed: u32 },
    /// a client encrypts a file for upload now and announces it with a later SendMsg of its own
    /// (the upload takes time: commits may be applied in between)
    MediaEncrypt { g: usize, tag: u32 },
    /// the author sends a rumor it has sent before once more (an application-level resend: same
    /// rumor, same id, a new wrapper in the epoch the author stands in now)
    ResendMsg { msg: EvRef },
    /// key-package hygiene: the client deletes the private parts of every key package it has
    /// published so far and publishes a fresh one
    RotateKeyPackages,
    /// an admin encrypts a group image (format 2 = seed in image_key, 1 = legacy direct key) and
    /// publishes hash / key / nonce in the group data
    SetGroupImage { g: usize, seed: u32, format: u8 },
    /// a client fetches the blob named by its own group record and decrypts it. tamper: 0 none,
    /// 1 blob bit, 2 blob truncated, 3 nonce bit, 4 key bit, 5 blob bit without expected hash
    GroupImageDownload { g: usize, tamper: u8, seed: u32 },
    /// Byzantine / hostile operations are defined in `hostile.rs` and carried opaquely here
    Hostile(crate::hostile::HostileOp),
    Nop,
}

#[derive(Debug, Clone, PartialEq, Eq, Serialize, Deserialize)]
pub struct Step {
    pub id: u32,
    pub node: usize,
    /// seconds the global clock advances before the step
    pub dt: u32,
    pub op: Op,
}

#[derive(Debug, Clone, Copy, PartialEq, Eq, Serialize, Deserialize)]
pub enum EvKind {
    Commit,
    Proposal,
    App,
    Hostile,
}

#[derive(Debug, Clone)]
pub struct PubEvent {
    pub origin: EvRef,
    pub event: Event,
    pub kind: EvKind,
    pub creator: usize,
    pub g: usize,
    /// creator's epoch / state (epoch authenticator) when it created the event
    pub epoch: u64,
    pub parent_state: String,
    /// for commits: the state the commit leads to (from the creator's staged commit)
    pub result_state: Option<String>,
    pub desc: String,
    /// for app messages: index into `World::ledger`
    pub msg: Option<usize>,
    /// for commits: the creator had pending proposals (the commit covers them by reference)
    pub refs_proposals: bool,
}

#[derive(Debug, Clone)]
pub struct PubWelcome {
    pub origin: EvRef,
    pub wrapper_id: EventId,
    pub rumor: UnsignedEvent,
    pub recipient: usize,
    pub inviter: usize,
    pub g: usize,
    /// commit this welcome belongs to (None for group creation)
    pub commit: Option<EvRef>,
    pub hostile: bool,
}

#[derive(Debug, Clone, Serialize)]
pub struct LedgerMsg {
    pub origin: EvRef,
    pub g: usize,
    pub author: usize,
    pub author_pk: String,
    pub rumor_id: String,
    pub kind: u16,
    pub created_at: u64,
    pub content: String,
    pub tags: String,
    pub state: String,
    pub epoch: u64,
    pub wrapper: String,
    pub canary: String,
}

#[derive(Debug, Clone)]
pub struct SimGroup {
    pub gid: GroupId,
    pub creator: usize,
    pub root_state: String,
    pub initial_nostr_id: [u8; 32],
}

#[derive(Debug, Clone, Serialize)]
pub struct StepRecord {
    pub step: Step,
    pub now: u64,
    pub outcome: String,
    /// structured class of the outcome, e.g. "ok", "err", "app", "commit", "unprocessable", ...
    pub class: String,
    pub created: Vec<EvRef>,
    pub rollback: bool,
    pub pre_hash: String,
    pub post_hash: String,
    pub panicked: bool,
    /// per group (logical index) epoch/state of the acting node before and after
    pub pre_state: BTreeMap<usize, (u64, String)>,
    pub post_state: BTreeMap<usize, (u64, String)>,
    /// storage ticks (statement boundaries in mdk-sqlite-storage) crossed by this step
    pub ticks: u64,
    /// simulated process death happened inside this step: (tick index, label)
    pub crashed_at: Option<(u64, String)>,
    /// tracing records emitted by the library during this step (only with `capture_logs`)
    #[serde(skip)]
    pub logs: Vec<String>,
    /// Debug rendering of the value the call returned (only with `capture_logs`)
    #[serde(skip)]
    pub debug_out: String,
}

#[derive(Debug, Clone, Serialize)]
pub struct Violation {
    pub property: String,
    pub clause: String,
    pub step: Option<u32>,
    pub node: Option<usize>,
    pub detail: String,
    /// known-finding id this violation was attributed to (None = new)
    pub known: Option<String>,
}

pub struct World {
    pub seed: u64,
    pub now: u64,
    pub base: PathBuf,
    pub nodes: Vec<Node>,
    pub events: Vec<PubEvent>,
    pub ev_index: HashMap<EvRef, usize>,
    pub welcomes: Vec<PubWelcome>,
    pub w_index: HashMap<EvRef, usize>,
    pub groups: Vec<SimGroup>,
    pub ledger: Vec<LedgerMsg>,
    pub history: Vec<StepRecord>,
    pub log: Vec<String>,
    pub probes: BTreeMap<String, u64>,
    pub faults: BTreeMap<String, u64>,
    pub views: Vec<NodeView>,
    /// state (authenticator) -> (epoch, member pubkeys, admins) as first exhibited by a client
    pub state_info: BTreeMap<String, StateInfo>,
    /// per node per group: max epoch ever reached
    pub max_epoch: Vec<BTreeMap<usize, u64>>,
    /// per node: events delivered (first delivery step, count)
    pub delivered: Vec<BTreeMap<EvRef, (u32, u32)>>,
    /// per node: set of events that took effect there
    pub effective: Vec<BTreeSet<EvRef>>,
    /// per node, group: applied own commit with merge_pending_commit (no snapshot) at state S
    pub merged_direct: Vec<Vec<(usize, String, EvRef)>>,
    pub sim_time_covered: u64,
    pub violations: Vec<Violation>,
    pub next_step_id: u32,
    /// pending own commit per (node, group) as known to the app layer
    pub pending_own: BTreeMap<(usize, usize), EvRef>,
    /// welcomes not yet released to the recipient (released when inviter merges the commit)
    pub capture_logs: bool,
    pub sensitive: BTreeSet<String>,
    /// view of the acting node before the step being executed / just executed
    pub prev_view: NodeView,
    /// events that had taken effect at the acting node before the last executed step
    pub prev_effective: BTreeSet<EvRef>,
    /// crash injection: (step id, tick index) at which the acting node's process dies
    pub arm_crash: Option<(u32, u64)>,
    /// process death at tick k of the first step of one of these kinds (run::op_short) that
    /// runs on SQLite and has that many ticks; disarmed once it fired
    pub arm_crash_op: Option<(Vec<&'static str>, u64)>,
    /// run every step on a fresh thread (seam::step_isolated): needed wherever two runs that
    /// differ in an earlier step are compared (C11 twin, C12 crash runs)
    pub isolate_steps: bool,
    /// (step id, tick): keep a copy of the node's directory as it is at this tick of the step
    /// (the statement boundary in front of the transaction a crash is armed in)
    pub arm_baseline: Option<(u32, u64)>,
    /// what the node's database held at the `arm_baseline` tick of the last crashed step
    pub txn_baseline_view: Option<NodeView>,
    /// count storage ticks per step (tick hook installed around every step)
    pub count_ticks: bool,
    /// C13: keep the bytes of every file of a SQLCipher node's directory as they are at each
    /// transaction tick of the current step (label, file name, bytes)
    /// encrypted group images by hex(encrypted hash): (ciphertext, what the uploader itself decrypts)
    pub group_blobs: BTreeMap<String, (Vec<u8>, Vec<u8>)>,
    /// the last file announced per group (plain bytes, MIME type)
    pub last_media: BTreeMap<usize, (Vec<u8>, &'static str)>,
    /// (node, group) -> upload encrypted earlier and not announced yet: imeta tag, ciphertext,
    /// reference plaintext, (epoch, state) the client stood in when it encrypted
    pub pending_uploads: BTreeMap<(usize, usize), (Tag, Vec<u8>, Vec<u8>, (u64, String))>,
    /// announcing message -> (epoch, state) the file was encrypted in, when that differs from
    /// the state the message was created in
    pub media_enc_state: BTreeMap<EvRef, (u64, String)>,
    /// Nostr group ids groups were (or are being) rotated to: (group, new id). The id becomes
    /// public as soon as the first event tagged with it is on a relay.
    pub rotations: Vec<(usize, [u8; 32])>,
    /// every third message carries 10-30 KB of canary text (C13: overflow pages)
    pub big_messages: bool,
    pub capture_sidecars: bool,
    pub sidecar_captures: Vec<(String, String, Vec<u8>)>,
    pub last_crash: Option<(u32, usize, u64, String)>,
    /// Debug + Display rendering of the last returned value (C14)
    pub last_debug: String,
    /// labels of the storage ticks of the last executed step (when counting)
    pub last_tick_labels: Vec<String>,
    /// simulated Blossom blob store: announcing message -> (ciphertext, original bytes)
    pub blobs: BTreeMap<EvRef, (Vec<u8>, Vec<u8>)>,
}

#[derive(Debug, Clone, Serialize, PartialEq, Eq)]
pub struct StateInfo {
    pub epoch: u64,
    pub members: Vec<String>,
    pub admins: Vec<String>,
    pub tree_hash: String,
    pub ext: String,
}

pub struct Outcome {
    pub text: String,
    pub class: &'static str,
    pub created: Vec<EvRef>,
    pub panicked: bool,
}

impl Outcome {
    fn new(class: &'static str, text: impl Into<String>) -> Self {
        Outcome { text: text.into(), class, created: vec![], panicked: false }
    }
}

pub fn result_class(r: &Result<MessageProcessingResult, mdk_core::Error>) -> (&'static str, String) {
    match r {
        Ok(MessageProcessingResult::ApplicationMessage(m)) => ("app", format!("App({},{})", &m.id.to_hex()[..8], m.state.as_str())),
        Ok(MessageProcessingResult::Proposal(u)) => ("autocommit", format!("Proposal(auto-commit {})", &u.evolution_event.id.to_hex()[..8])),
        Ok(MessageProcessingResult::PendingProposal { .. }) => ("pending_proposal", "PendingProposal".into()),
        Ok(MessageProcessingResult::IgnoredProposal { reason, .. }) => ("ignored_proposal", format!("IgnoredProposal({reason})")),
        Ok(MessageProcessingResult::ExternalJoinProposal { .. }) => ("external_join", "ExternalJoinProposal".into()),
        Ok(MessageProcessingResult::Commit { .. }) => ("commit", "Commit".into()),
        Ok(MessageProcessingResult::Unprocessable { .. }) => ("unprocessable", "Unprocessable".into()),
        Ok(MessageProcessingResult::PreviouslyFailed) => ("previously_failed", "PreviouslyFailed".into()),
        Err(e) => ("err", format!("Err({e})")),
    }
}

pub fn is_refusal(class: &str) -> bool {
    matches!(class, "err" | "unprocessable" | "previously_failed" | "ignored_proposal")
}

impl World {
    pub fn new(seed: u64, base: PathBuf) -> Self {
        World {
            seed,
            now: T0,
            base,
            nodes: vec![],
            events: vec![],
            ev_index: HashMap::new(),
            welcomes: vec![],
            w_index: HashMap::new(),
            groups: vec![],
            ledger: vec![],
            history: vec![],
            log: vec![],
            probes: BTreeMap::new(),
            faults: BTreeMap::new(),
            views: vec![],
            state_info: BTreeMap::new(),
            max_epoch: vec![],
            delivered: vec![],
            effective: vec![],
            merged_direct: vec![],
            sim_time_covered: 0,
            violations: vec![],
            next_step_id: 1,
            pending_own: BTreeMap::new(),
            capture_logs: false,
            sensitive: BTreeSet::new(),
            prev_view: NodeView::default(),
            prev_effective: BTreeSet::new(),
            arm_crash: None,
            arm_crash_op: None,
            arm_baseline: None,
            isolate_steps: false,
            txn_baseline_view: None,
            count_ticks: false,
            group_blobs: BTreeMap::new(),
            last_media: BTreeMap::new(),
            pending_uploads: BTreeMap::new(),
            media_enc_state: BTreeMap::new(),
            rotations: vec![],
            big_messages: false,
            capture_sidecars: false,
            sidecar_captures: vec![],
            last_crash: None,
            last_debug: String::new(),
            last_tick_labels: vec![],
            blobs: BTreeMap::new(),
        }
    }

    pub fn probe(&mut self, name: &str) {
        *self.probes.entry(name.to_string()).or_insert(0) += 1;
    }
    pub fn fault(&mut self, name: &str) {
        *self.faults.entry(name.to_string()).or_insert(0) += 1;
    }

    pub fn add_node(&mut self, cfg: NodeCfg) -> Result<usize, String> {
        let idx = self.nodes.len();
        seam::reseed(self.seed, 0xA000_0000 + idx as u64, idx as u64);
        seam::set_time((self.now as i64 + cfg.clock_offset) as u64);
        let n = Node::new(idx, cfg, &self.base)?;
        self.nodes.push(n);
        self.views.push(NodeView::default());
        self.max_epoch.push(BTreeMap::new());
        self.delivered.push(BTreeMap::new());
        self.effective.push(BTreeSet::new());
        self.merged_direct.push(vec![]);
        Ok(idx)
    }

    /// encrypt a seeded file for group `g` at `node`: (imeta tag, ciphertext, reference plaintext)
    fn media_encrypt(&mut self, node: usize, g: usize, gid: &GroupId, step_id: u32, tag: u32) -> Result<(Tag, Vec<u8>, Vec<u8>), Outcome> {
            let size = [0usize, 1, 31, 1024, 70_000][(tag % 5) as usize];
            let mut r = crate::rng::Rng::new(self.seed ^ ((step_id as u64) << 20) ^ tag as u64);
            let mime = ["text/plain", "application/pdf", "audio/mpeg", "video/mp4", "image/png", "image/jpeg", "image/gif", "image/webp"][(tag % 8) as usize];
            let mut mime = mime;
            let mut data = if mime.starts_with("image/") { sim_image(&mut r, mime) } else { r.bytes(size) };
            // now and then the same file is sent again (same content hash, another epoch)
            if tag % 4 == 3 {
                if let Some((d, m)) = self.last_media.get(&g) {
                    data = d.clone();
                    mime = m;
                    self.probe("media_same_file_sent_again");
                }
            }
            self.last_media.insert(g, (data.clone(), mime));
            // MIME spellings: the library canonicalises what it accepts
            let spelled: String = match (tag.wrapping_mul(2_654_435_761) >> 8) % 6 {
                1 => mime.to_uppercase(),
                2 => format!("  {mime} "),
                3 if !mime.starts_with("image/") => format!("{mime}; charset=utf-8"),
                4 => {
                    let mut c = mime.chars();
                    c.next().map(|f| f.to_uppercase().collect::<String>() + c.as_str()).unwrap_or_default()
                }
                _ => mime.to_string(),
            };
            let mime_canonical = mime;
            let mime: &str = &spelled;
            let fname = if (tag.wrapping_mul(40_503) >> 4) % 3 == 1 { format!("File-{}-{tag}.BIN", step_id) } else { format!("file-{}-{tag}.bin", step_id) };
            let up = with_mdk!(self.nodes[node].mdk(), m => m.media_manager(gid.clone()).encrypt_for_upload(&data, mime, &fname).map(|u| {
                let t = m.media_manager(gid.clone()).create_imeta_tag(&u, &format!("https://blossom.sim.example/{}", hex::encode(u.encrypted_hash)));
                (u.encrypted_data, t)
            }));
            match up {
                Ok((enc, t)) => {
                    // image families are validated against the bytes and may be re-encoded
                    // (metadata stripped): the reference is what the sender itself decrypts
                    if spelled != mime_canonical {
                        self.probe("media_noncanonical_mime_spelling");
                    }
                    let reference = if mime_canonical.starts_with("image/") {
                        let own: Result<Vec<u8>, String> = with_mdk!(self.nodes[node].mdk(), m => (|| {
                            let mm = m.media_manager(gid.clone());
                            let rf = mm.parse_imeta_tag(&t).map_err(|e| format!("parse: {e}"))?;
                            mm.decrypt_from_download(&enc, &rf).map_err(|e| format!("{e}"))
                        })());
                        match own {
                            Ok(b) => b,
                            Err(e) => return Err(Outcome::new("err", format!("Err(media: sender cannot decrypt its own upload: {e})"))),
                        }
                    } else {
                        data
                    };
                    self.probe(if mime_canonical.starts_with("image/") { "media_image_family" } else { "media_other_family" });
                    Ok((t, enc, reference))
                }
                Err(e) => Err(Outcome::new("err", format!("Err(media: {e})"))),
            }
    }

    pub fn gid(&self, g: usize) -> Option<GroupId> {
        self.groups.get(g).map(|x| x.gid.clone())
    }

    pub fn gid_hex(&self, g: usize) -> String {
        self.groups.get(g).map(|x| hex::encode(x.gid.as_slice())).unwrap_or_default()
    }

    /// The acting node's view of logical group g (from the cached view).
    pub fn gview(&self, node: usize, g: usize) -> Option<&GroupView> {
        let k = self.gid_hex(g);
        self.views.get(node).and_then(|v| v.groups.get(&k))
    }

    pub fn node_state(&self, node: usize, g: usize) -> Option<(u64, String)> {
        self.gview(node, g).and_then(|v| v.mls.as_ref()).map(|m| (m.epoch, m.authenticator.clone()))
    }

    pub fn is_active_member(&self, node: usize, g: usize) -> bool {
        self.gview(node, g)
            .map(|v| {
                v.record.as_ref().map(|r| r.state == "active").unwrap_or(false)
                    && v.mls.as_ref().map(|m| m.own_leaf.is_some() && m.active).unwrap_or(false)
            })
            .unwrap_or(false)
    }

    pub fn has_pending_commit(&self, node: usize, g: usize) -> bool {
        self.gview(node, g).and_then(|v| v.mls.as_ref()).map(|m| m.pending_commit).unwrap_or(false)
    }

    pub fn is_admin(&self, node: usize, g: usize) -> bool {
        let pk = self.nodes[node].pubkey().to_hex();
        self.gview(node, g).and_then(|v| v.mls.as_ref()).map(|m| m.ext_admins.contains(&pk)).unwrap_or(false)
    }

    pub fn members_of(&self, node: usize, g: usize) -> Vec<usize> {
        let Some(m) = self.gview(node, g).and_then(|v| v.mls.as_ref()) else { return vec![] };
        self.nodes
            .iter()
            .filter(|n| m.members.contains(&n.pubkey().to_hex()))
            .map(|n| n.idx)
            .collect()
    }

    fn refresh_view(&mut self, node: usize) {
        let v = self.nodes[node].view();
        // record state info / max epochs
        for (g, sg) in self.groups.iter().enumerate() {
            let k = hex::encode(sg.gid.as_slice());
            if let Some(gv) = v.groups.get(&k) {
                if let Some(m) = gv.mls.as_ref().filter(|m| m.own_leaf.is_some() && m.active) {
                    let e = self.max_epoch[node].entry(g).or_insert(0);
                    if m.epoch > *e {
                        *e = m.epoch;
                    }
                    let info = StateInfo {
                        epoch: m.epoch,
                        members: m.members.clone(),
                        admins: m.ext_admins.clone(),
                        tree_hash: m.tree_hash.clone(),
                        ext: format!(
                            "{}|{}|{}|{:?}|{:?}|{:?}|{:?}|{:?}|{:?}",
                            m.ext_nostr_group_id, m.ext_name, m.ext_description, m.ext_admins, m.ext_relays,
                            m.ext_image_hash, m.ext_image_key, m.ext_image_nonce, m.ext_image_upload_key
                        ),
                    };
                    match self.state_info.get(&m.authenticator) {
                        None => {
                            self.state_info.insert(m.authenticator.clone(), info);
                        }
                        Some(old) => {
                            if *old != info {
                                // two clients with the same epoch authenticator disagree on members/data
                                self.violations.push(Violation {
                                    property: "C01".into(),
                                    clause: "same-authenticator-different-state".into(),
                                    step: None,
                                    node: Some(node),
                                    detail: format!("state {} seen as {:?} and {:?}", &m.authenticator[..8], old, info),
                                    known: None,
                                });
                            }
                        }
                    }
                }
            }
        }
        self.views[node] = v;
    }

    fn set_clock_for(&self, node: usize) {
        let off = self.nodes[node].cfg.clock_offset;
        seam::set_time((self.now as i64 + off) as u64);
    }

    pub fn publish_event(&mut self, pe: PubEvent) -> EvRef {
        let r = pe.origin;
        self.ev_index.insert(r, self.events.len());
        self.events.push(pe);
        r
    }

    pub fn ev(&self, r: EvRef) -> Option<&PubEvent> {
        self.ev_index.get(&r).map(|i| &self.events[*i])
    }

    fn kp_events_for(&mut self, who: &[usize]) -> Result<Vec<Event>, String> {
        let mut v = vec![];
        for w in who {
            let n = self.nodes.get(*w).ok_or("no such node")?;
            let kp = n.key_packages.last().ok_or_else(|| format!("node {w} has no key package"))?;
            v.push(kp.clone());
        }
        Ok(v)
    }

    fn pending_result_state(&self, node: usize, gid: &GroupId) -> Option<String> {
        with_mdk!(self.nodes[node].mdk(), m => {
            m.load_mls_group(gid).ok().flatten().and_then(|g| {
                g.pending_commit().and_then(|c| c.epoch_authenticator().map(|a| hex::encode(a.as_slice())))
            })
        })
    }

    fn register_commit(&mut self, step: &Step, k: u8, node: usize, g: usize, event: Event, desc: String,
                       pre: &Option<(u64, String)>) -> EvRef {
        let gid = self.gid(g).unwrap();
        let result_state = self.pending_result_state(node, &gid);
        let (epoch, parent) = pre.clone().unwrap_or((0, String::new()));
        let r = EvRef(step.id, k);
        // does the staged commit cover proposals by reference? (read from the commit itself: a
        // non-admin's self-update leaves the queue alone)
        let by_ref = with_mdk!(self.nodes[node].mdk(), m => {
            m.load_mls_group(&gid).ok().flatten().and_then(|grp| {
                grp.pending_commit().map(|c| c.queued_proposals().any(|p| matches!(p.proposal_or_ref_type(), openmls::prelude::ProposalOrRefType::Reference)))
            })
        });
        let refs_proposals = match by_ref {
            Some(b) => b,
            // already merged (auto-commit path): fall back to what the queue held before the call
            None => desc.starts_with("autocommit") || self.gview(node, g).and_then(|v| v.mls.as_ref()).map(|m| !m.pending_proposals.is_empty()).unwrap_or(false),
        };
        self.publish_event(PubEvent {
            origin: r,
            event,
            kind: EvKind::Commit,
            creator: node,
            g,
            epoch,
            parent_state: parent,
            result_state,
            desc,
            msg: None,
            refs_proposals,
        });
        self.pending_own.insert((node, g), r);
        r
    }

    fn register_welcomes(&mut self, step: &Step, base_k: u8, node: usize, g: usize, rumors: Vec<UnsignedEvent>,
                         who: &[usize], commit: Option<EvRef>) {
        for (i, (rumor, rcpt)) in rumors.into_iter().zip(who.iter()).enumerate() {
            let origin = EvRef(step.id, base_k + i as u8);
            let wid = EventId::from_slice(&sha2_32(format!("wrap:{}:{}:{}", self.seed, step.id, i).as_bytes())).unwrap();
            self.w_index.insert(origin, self.welcomes.len());
            self.welcomes.push(PubWelcome {
                origin,
                wrapper_id: wid,
                rumor,
                recipient: *rcpt,
                inviter: node,
                g,
                commit,
                hostile: false,
            });
        }
    }

    /// Execute one step against the real library. Never panics: panics inside the library are
    /// caught and reported in the outcome.
    pub fn exec(&mut self, step: &Step) -> StepRecord {
        self.now += step.dt as u64;
        self.sim_time_covered += step.dt as u64;
        let node = step.node;
        if node >= self.nodes.len() {
            return self.record(step, Outcome::new("skipped", "no such node"), String::new(), BTreeMap::new());
        }
        let pre_hash = view_hash(&self.views[node]);
        self.prev_view = self.views[node].clone();
        self.prev_effective = self.effective[node].clone();
        let pre_state: BTreeMap<usize, (u64, String)> =
            (0..self.groups.len()).filter_map(|g| self.node_state(node, g).map(|s| (g, s))).collect();
        self.set_clock_for(node);
        seam::reseed(self.seed, step.id as u64, node as u64);
        let rb_before = self.nodes[node].rollbacks.infos.lock().unwrap().len();

        // ---- storage tick hook: counting and crash injection --------------------------------
        let tick_state = std::rc::Rc::new(std::cell::RefCell::new((0u64, None::<String>)));
        let tick_labels = std::rc::Rc::new(std::cell::RefCell::new(Vec::<String>::new()));
        let want_labels = self.count_ticks;
        let mut armed_k = match self.arm_crash {
            Some((sid, k)) if sid == step.id => Some(k),
            _ => None,
        };
        if armed_k.is_none() && self.nodes[node].cfg.backend.is_sqlite() {
            if let Some((kinds, k)) = &self.arm_crash_op {
                if kinds.contains(&crate::run::op_short(&step.op)) {
                    armed_k = Some(*k);
                }
            }
        }
        let base_k = match self.arm_baseline {
            Some((sid, j)) if sid == step.id && armed_k.is_some() => Some(j),
            _ => None,
        };
        self.txn_baseline_view = None;
        let capture = self.capture_sidecars && self.nodes[node].cfg.backend == BackendKind::SqliteCipher;
        let captures = std::rc::Rc::new(std::cell::RefCell::new(Vec::<(String, String, Vec<u8>)>::new()));
        self.sidecar_captures.clear();
        let hook_on = (self.count_ticks || armed_k.is_some() || capture) && self.nodes[node].cfg.backend.is_sqlite();
        let mut hook: Option<Box<dyn FnMut(mdk_sqlite_storage::verif::Point)>> = None;
        if hook_on {
            let ts = tick_state.clone();
            let tl = tick_labels.clone();
            let dir = self.nodes[node].dir.clone();
            let image = self.nodes[node].dir.with_extension("crashimage");
            let cap = captures.clone();
            hook = Some(Box::new(move |p| {
                use mdk_sqlite_storage::verif::Point;
                if matches!(p, Point::Lock) {
                    return;
                }
                if capture && matches!(p, Point::Txn(_)) {
                    // inside an open transaction: the rollback journal / WAL is live now and is
                    // gone again when the call returns; keep the bytes for the scanner
                    if let Ok(rd) = std::fs::read_dir(&dir) {
                        for e in rd.flatten() {
                            if e.path().is_file() {
                                if let Ok(b) = std::fs::read(e.path()) {
                                    let name = e.file_name().to_string_lossy().to_string();
                                    let mut c = cap.borrow_mut();
                                    if !c.iter().any(|(_, n, old)| *n == name && *old == b) {
                                        c.push((format!("{p:?}"), name, b));
                                    }
                                }
                            }
                        }
                    }
                }
                let n = {
                    let mut t = ts.borrow_mut();
                    t.0 += 1;
                    t.0
                };
                if want_labels {
                    tl.borrow_mut().push(format!("{p:?}"));
                }
                if Some(n) == base_k {
                    let base = dir.with_extension("baseimage");
                    let _ = std::fs::remove_dir_all(&base);
                    copy_dir(&dir, &base);
                }
                if Some(n) == armed_k {
                    // process death: what the OS still holds is the directory as it is now
                    let _ = std::fs::remove_dir_all(&image);
                    copy_dir(&dir, &image);
                    ts.borrow_mut().1 = Some(format!("{p:?}"));
                    std::panic::panic_any(SimulatedCrash);
                }
            }));
        }
        // the call itself runs on a fresh thread: see seam::step_isolated
        let (run_seed, cap_logs) = (self.seed, self.capture_logs);
        let isolate = self.isolate_steps;
        let call = || {
            if let Some(h) = hook {
                mdk_sqlite_storage::verif::set_thread_hook(Some(h));
            }
            let r = std::panic::catch_unwind(std::panic::AssertUnwindSafe(|| self.exec_inner(step, &pre_state)));
            mdk_sqlite_storage::verif::set_thread_hook(None);
            r
        };
        let (res, step_logs) = if isolate { seam::step_isolated(run_seed, step.id as u64, node as u64, cap_logs, call) } else { (call(), vec![]) };
        if want_labels {
            self.last_tick_labels = tick_labels.borrow().clone();
        }
        self.sidecar_captures = std::mem::take(&mut *captures.borrow_mut());
        let (ticks, crash_label) = {
            let t = tick_state.borrow();
            (t.0, t.1.clone())
        };
        let mut crashed = None;
        let mut outcome = match res {
            Ok(o) => o,
            Err(p) => {
                if p.downcast_ref::<SimulatedCrash>().is_some() {
                    let label = crash_label.clone().unwrap_or_default();
                    crashed = Some((armed_k.unwrap_or(0), label.clone()));
                    self.fault("crash");
                    self.arm_crash_op = None;
                    // the process is gone: drop the MDK (closes the abandoned connection), put the
                    // image taken at the tick in place of the directory, start a new process
                    self.nodes[node].mdk = None;
                    let dir = self.nodes[node].dir.clone();
                    let image = dir.with_extension("crashimage");
                    let journal = image.join("mdk.sqlite-journal").exists() || image.join("mdk.sqlite-wal").exists();
                    if journal {
                        self.probe("crash_image_with_hot_journal");
                    }
                    let _ = std::fs::remove_dir_all(&dir);
                    let _ = std::fs::rename(&image, &dir);
                    self.set_clock_for(node);
                    let base = dir.with_extension("baseimage");
                    if base.is_dir() {
                        self.txn_baseline_view = self.nodes[node].view_of_image(&base);
                        let _ = std::fs::remove_dir_all(&base);
                    }
                    let reopened = self.nodes[node].open();
                    self.last_crash = Some((step.id, node, armed_k.unwrap_or(0), label.clone()));
                    match reopened {
                        Ok(()) => Outcome::new("crashed", format!("CRASH at tick {} ({label}); reopened", armed_k.unwrap_or(0))),
                        Err(e) => Outcome::new("crashed_reopen_failed", format!("CRASH at tick {} ({label}); reopen failed: {e}", armed_k.unwrap_or(0))),
                    }
                } else {
                    let mut o = Outcome::new("panic", format!("PANIC: {}", seam::panic_msg(&p)));
                    o.panicked = true;
                    o
                }
            }
        };
        if outcome.panicked {
            self.violations.push(Violation {
                property: "C06".into(),
                clause: "panic".into(),
                step: Some(step.id),
                node: Some(node),
                detail: outcome.text.clone(),
                known: None,
            });
        }
        // the node may have been dropped by a failed restart
        if self.nodes[node].mdk.is_some() {
            self.set_clock_for(node);
            self.refresh_view(node);
        }
        let rb_after = self.nodes[node].rollbacks.infos.lock().unwrap().len();
        if rb_after > rb_before {
            outcome.text.push_str(&format!(" [rollback x{}]", rb_after - rb_before));
            self.probe("rollback");
        }
        let mut rec = self.record(step, outcome, pre_hash, pre_state);
        rec.rollback = rb_after > rb_before;
        rec.ticks = ticks;
        rec.crashed_at = crashed;
        if self.capture_logs {
            rec.logs = step_logs;
            rec.logs.extend(crate::logcap::drain());
            rec.debug_out = std::mem::take(&mut self.last_debug);
            if std::env::var("MDK_SIM_CAPTURE").is_ok() {
                for l in &rec.logs {
                    self.log.push(format!("      LOG {l}"));
                }
                if !rec.debug_out.is_empty() {
                    self.log.push(format!("      OUT {}", rec.debug_out));
                }
            }
        }
        if let Some(last) = self.history.last_mut() {
            last.rollback = rec.rollback;
            last.ticks = rec.ticks;
            last.crashed_at = rec.crashed_at.clone();
        }
        rec
    }

    fn record(&mut self, step: &Step, o: Outcome, pre_hash: String, pre_state: BTreeMap<usize, (u64, String)>) -> StepRecord {
        let node = step.node;
        let post_hash = if node < self.views.len() { view_hash(&self.views[node]) } else { String::new() };
        let post_state: BTreeMap<usize, (u64, String)> = if node < self.nodes.len() {
            (0..self.groups.len()).filter_map(|g| self.node_state(node, g).map(|s| (g, s))).collect()
        } else {
            BTreeMap::new()
        };
        let rec = StepRecord {
            step: step.clone(),
            now: self.now,
            outcome: o.text.clone(),
            class: o.class.to_string(),
            created: o.created.clone(),
            rollback: false,
            pre_hash,
            post_hash,
            panicked: o.panicked,
            pre_state,
            post_state,
            ticks: 0,
            crashed_at: None,
            logs: vec![],
            debug_out: String::new(),
        };
        self.log.push(format!(
            "#{} t={} n{} {:?} -> {} | {}",
            step.id,
            self.now - T0,
            node,
            step.op,
            o.text,
            rec.post_hash
        ));
        if std::env::var("MDK_SIM_DUMP_VIEWS").is_ok() && node < self.views.len() {
            self.log.push(format!("  VIEW n{} {}", node, serde_json::to_string(&self.views[node]).unwrap_or_default()));
        }
        self.history.push(rec.clone());
        rec
    }

    fn exec_inner(&mut self, step: &Step, pre_state: &BTreeMap<usize, (u64, String)>) -> Outcome {
        let node = step.node;
        match &step.op {
            Op::Nop => Outcome::new("skipped", "nop"),
            Op::PublishKeyPackage => match self.nodes[node].publish_key_package() {
                Ok(ev) => Outcome::new("ok", format!("kp {}", &ev.id.to_hex()[..8])),
                Err(e) => Outcome::new("err", e),
            },
            Op::ResendMsg { msg } => {
                let Some(l) = self.ledger.iter().find(|l| l.origin == *msg).cloned() else { return Outcome::new("skipped", "no such message") };
                if l.author != node {
                    return Outcome::new("skipped", "not the author");
                }
                let Some(gid) = self.gid(l.g) else { return Outcome::new("skipped", "no group") };
                let tags: Vec<Tag> = serde_json::from_str::<Vec<Vec<String>>>(&l.tags).ok().map(|v| v.into_iter().filter_map(|t| Tag::parse(t).ok()).collect()).unwrap_or_default();
                let rumor = EventBuilder::new(Kind::Custom(l.kind), l.content.clone()).tags(tags).custom_created_at(Timestamp::from(l.created_at)).build(self.nodes[node].pubkey());
                let r = with_mdk!(self.nodes[node].mdk(), m => m.create_message(&gid, rumor));
                match r {
                    Ok(ev) => {
                        let (epoch, st) = pre_state.get(&l.g).cloned().unwrap_or((0, String::new()));
                        let origin = EvRef(step.id, 0);
                        self.publish_event(PubEvent { origin, event: ev, kind: EvKind::App, creator: node, g: l.g, epoch, parent_state: st, result_state: None, desc: format!("resend of {:?}", msg), msg: None, refs_proposals: false });
                        self.probe("message_sent_again_by_its_author");
                        let mut o = Outcome::new("ok", "message sent again");
                        o.created = vec![origin];
                        o
                    }
                    Err(e) => Outcome::new("err", format!("Err({e})")),
                }
            }
            Op::RotateKeyPackages => {
                let evs = self.nodes[node].key_packages.clone();
                let mut deleted = 0usize;
                for ev in &evs {
                    let r = with_mdk!(self.nodes[node].mdk(), m => m.parse_key_package(ev).and_then(|kp| m.delete_key_package_from_storage(&kp)));
                    if r.is_ok() {
                        deleted += 1;
                    }
                }
                self.probe("key_packages_deleted_from_storage");
                match self.nodes[node].publish_key_package() {
                    Ok(ev) => Outcome::new("ok", format!("{deleted} key package(s) deleted, new kp {}", &ev.id.to_hex()[..8])),
                    Err(e) => Outcome::new("err", e),
                }
            }
            Op::CreateGroup { members, admins, tag } => {
                let kps = match self.kp_events_for(members) {
                    Ok(k) => k,
                    Err(e) => return Outcome::new("skipped", e),
                };
                let mut admin_pks = vec![self.nodes[node].pubkey()];
                for a in admins {
                    if let Some(n) = self.nodes.get(*a) {
                        if !admin_pks.contains(&n.pubkey()) {
                            admin_pks.push(n.pubkey());
                        }
                    }
                }
                let cfg = NostrGroupConfigData::new(
                    format!("group-name-{tag}"),
                    format!("group-description-{tag}"),
                    None,
                    None,
                    None,
                    vec![relay()],
                    admin_pks,
                );
                let pk = self.nodes[node].pubkey();
                let r = with_mdk!(self.nodes[node].mdk(), m => m.create_group(&pk, kps, cfg));
                match r {
                    Ok(gr) => {
                        let gid = gr.group.mls_group_id.clone();
                        let g = self.groups.len();
                        let root = with_mdk!(self.nodes[node].mdk(), m => mls_view(m, &gid))
                            .ok()
                            .flatten()
                            .map(|v| v.authenticator)
                            .unwrap_or_default();
                        self.groups.push(SimGroup {
                            gid,
                            creator: node,
                            root_state: root,
                            initial_nostr_id: gr.group.nostr_group_id,
                        });
                        self.sensitive.insert(self.gid_hex(g));
                        self.sensitive.insert(hex::encode(gr.group.nostr_group_id));
                        self.register_welcomes(step, 0, node, g, gr.welcome_rumors, members, None);
                        let mut o = Outcome::new("ok", format!("created group g{g}"));
                        o.created = (0..members.len()).map(|i| EvRef(step.id, i as u8)).collect();
                        o
                    }
                    Err(e) => Outcome::new("err", format!("Err({e})")),
                }
            }
            Op::ProcessWelcome { w } => {
                let Some(pw) = self.w_index.get(w).map(|i| self.welcomes[*i].clone()) else {
                    return Outcome::new("skipped", "no such welcome");
                };
                let r = with_mdk!(self.nodes[node].mdk(), m => m.process_welcome(&pw.wrapper_id, &pw.rumor));
                match r {
                    Ok(wl) => Outcome::new("ok", format!("welcome stored {}", wl.state)),
                    Err(e) => Outcome::new("err", format!("Err({e})")),
                }
            }
            Op::AcceptWelcome { w } | Op::DeclineWelcome { w } => {
                let accept = matches!(step.op, Op::AcceptWelcome { .. });
                let Some(pw) = self.w_index.get(w).map(|i| self.welcomes[*i].clone()) else {
                    return Outcome::new("skipped", "no such welcome");
                };
                let Some(rid) = pw.rumor.id else { return Outcome::new("skipped", "rumor without id") };
                let stored = with_mdk!(self.nodes[node].mdk(), m => m.get_welcome(&rid));
                match stored {
                    Ok(Some(wl)) => {
                        let r = if accept {
                            with_mdk!(self.nodes[node].mdk(), m => m.accept_welcome(&wl))
                        } else {
                            with_mdk!(self.nodes[node].mdk(), m => m.decline_welcome(&wl))
                        };
                        match r {
                            Ok(()) => Outcome::new("ok", if accept { "accepted" } else { "declined" }),
                            Err(e) => Outcome::new("err", format!("Err({e})")),
                        }
                    }
                    Ok(None) => Outcome::new("skipped", "welcome not stored"),
                    Err(e) => Outcome::new("err", format!("Err({e})")),
                }
            }
            Op::SendMsg { g, tag, ts_back, kind, imeta } => {
                let Some(gid) = self.gid(*g) else { return Outcome::new("skipped", "no group") };
                let pk = self.nodes[node].pubkey();
                let canary = format!("CANARY-{}-{}-{}", self.seed % 100_000, step.id, tag);
                let mut content = format!("msg {canary} from n{node}");
                if self.big_messages && tag % 3 == 0 {
                    // large values spill to overflow pages of the database
                    let pad = format!(" {canary}-overflow-page-filler");
                    let n = 200 + (*tag as usize % 5) * 120;
                    content.push_str(&pad.repeat(n));
                    self.probe("big_message_sent");
                }
                let node_now = (self.now as i64 + self.nodes[node].cfg.clock_offset) as u64;
                let created_at = Timestamp::from(node_now.saturating_sub(*ts_back as u64));
                let mut tags = vec![Tag::custom(TagKind::Custom("t".into()), [format!("tag{tag}")])];
                let mut blob: Option<(Vec<u8>, Vec<u8>)> = None;
                let mut enc_state: Option<(u64, String)> = None;
                if let Some((t, enc, reference, st)) = self.pending_uploads.remove(&(node, *g)) {
                    tags.push(t);
                    blob = Some((enc, reference));
                    if pre_state.get(g) != Some(&st) {
                        self.probe("media_announced_in_a_later_state_than_encrypted");
                        enc_state = Some(st);
                    }
                } else if *imeta {
                    match self.media_encrypt(node, *g, &gid, step.id, *tag) {
                        Ok((t, enc, reference)) => {
                            tags.push(t);
                            blob = Some((enc, reference));
                        }
                        Err(o) => return o,
                    }
                }
                let rumor = EventBuilder::new(Kind::Custom(*kind), content.clone())
                    .tags(tags)
                    .custom_created_at(created_at)
                    .build(pk);
                let r = with_mdk!(self.nodes[node].mdk(), m => m.create_message(&gid, rumor));
                match r {
                    Ok(ev) => {
                        // read back what was stored to learn the rumor id
                        let stored = with_mdk!(self.nodes[node].mdk(), m => all_messages(m, &gid));
                        let mine = stored.iter().find(|m| m.wrapper_event_id == ev.id);
                        let (rid, tags_json, ca) = mine
                            .map(|m| (m.id.to_hex(), serde_json::to_string(&m.tags).unwrap_or_default(), m.created_at.as_secs()))
                            .unwrap_or_default();
                        let (epoch, st) = pre_state.get(g).cloned().unwrap_or((0, String::new()));
                        let origin = EvRef(step.id, 0);
                        if let Some(b) = blob {
                            self.blobs.insert(origin, b);
                            self.probe("media_encrypted");
                            if let Some(st) = enc_state {
                                self.media_enc_state.insert(origin, st);
                            }
                        }
                        let li = self.ledger.len();
                        self.ledger.push(LedgerMsg {
                            origin,
                            g: *g,
                            author: node,
                            author_pk: pk.to_hex(),
                            rumor_id: rid,
                            kind: *kind,
                            created_at: ca,
                            content,
                            tags: tags_json,
                            state: st.clone(),
                            epoch,
                            wrapper: ev.id.to_hex(),
                            canary,
                        });
                        self.publish_event(PubEvent {
                            origin,
                            event: ev,
                            kind: EvKind::App,
                            creator: node,
                            g: *g,
                            epoch,
                            parent_state: st,
                            result_state: None,
                            desc: format!("msg{tag}"),
                            msg: Some(li),
                            refs_proposals: false,
                        });
                        let mut o = Outcome::new("ok", "message created");
                        o.created = vec![origin];
                        o
                    }
                    Err(e) => Outcome::new("err", format!("Err({e})")),
                }
            }
            Op::MediaEncrypt { g, tag } => {
                let Some(gid) = self.gid(*g) else { return Outcome::new("skipped", "no group") };
                if !self.is_active_member(node, *g) {
                    return Outcome::new("skipped", "not an active member");
                }
                let Some(st) = pre_state.get(g).cloned() else { return Outcome::new("skipped", "no state") };
                match self.media_encrypt(node, *g, &gid, step.id, *tag) {
                    Ok((t, enc, reference)) => {
                        self.pending_uploads.insert((node, *g), (t, enc, reference, st));
                        self.probe("media_encrypted_for_a_later_announcement");
                        Outcome::new("ok", "file encrypted, upload pending")
                    }
                    Err(o) => o,
                }
            }
            Op::AddMembers { g, who } => {
                let Some(gid) = self.gid(*g) else { return Outcome::new("skipped", "no group") };
                let kps = match self.kp_events_for(who) {
                    Ok(k) => k,
                    Err(e) => return Outcome::new("skipped", e),
                };
                let r = with_mdk!(self.nodes[node].mdk(), m => m.add_members(&gid, &kps));
                match r {
                    Ok(u) => {
                        let c = self.register_commit(step, 0, node, *g, u.evolution_event, format!("add{who:?}"), &pre_state.get(g).cloned());
                        if let Some(ws) = u.welcome_rumors {
                            self.register_welcomes(step, 1, node, *g, ws, who, Some(c));
                        }
                        let mut o = Outcome::new("ok", "add commit created");
                        o.created = vec![c];
                        o
                    }
                    Err(e) => Outcome::new("err", format!("Err({e})")),
                }
            }
            Op::RemoveMembers { g, who } => {
                let Some(gid) = self.gid(*g) else { return Outcome::new("skipped", "no group") };
                let pks: Vec<_> = who.iter().filter_map(|w| self.nodes.get(*w).map(|n| n.pubkey())).collect();
                let r = with_mdk!(self.nodes[node].mdk(), m => m.remove_members(&gid, &pks));
                match r {
                    Ok(u) => {
                        let c = self.register_commit(step, 0, node, *g, u.evolution_event, format!("remove{who:?}"), &pre_state.get(g).cloned());
                        let mut o = Outcome::new("ok", "remove commit created");
                        o.created = vec![c];
                        o
                    }
                    Err(e) => Outcome::new("err", format!("Err({e})")),
                }
            }
            Op::UpdateData { g, variant, arg } => {
                let Some(gid) = self.gid(*g) else { return Outcome::new("skipped", "no group") };
                let mut up = NostrGroupDataUpdate::new();
                match variant {
                    0 => up = up.name(format!("name-{arg}")),
                    1 => up = up.description(format!("description-{arg}")),
                    2 => {
                        let mut rs = vec![relay()];
                        for i in 0..(*arg % 3) {
                            rs.push(nostr::RelayUrl::parse(&format!("wss://r{}-{}.sim.example", arg, i)).unwrap());
                        }
                        up = up.relays(rs);
                    }
                    3 => {
                        let members = self.members_of(node, *g);
                        let mut adm: Vec<nostr::PublicKey> = members
                            .iter()
                            .filter(|m| (arg >> (**m as u32 % 16)) & 1 == 1)
                            .map(|m| self.nodes[*m].pubkey())
                            .collect();
                        if adm.is_empty() {
                            adm.push(self.nodes[node].pubkey());
                        }
                        up = up.admins(adm);
                    }
                    4 => {
                        let id = sha2_32(format!("nostr-id:{}:{}:{}", self.seed, step.id, arg).as_bytes());
                        self.sensitive.insert(hex::encode(id));
                        self.rotations.push((*g, id));
                        up = up.nostr_group_id(id);
                    }
                    5 => {
                        let h = sha2_32(format!("img-h:{}:{}", self.seed, step.id).as_bytes());
                        let k = sha2_32(format!("img-k:{}:{}", self.seed, step.id).as_bytes());
                        let n = sha2_32(format!("img-n:{}:{}", self.seed, step.id).as_bytes());
                        let mut n12 = [0u8; 12];
                        n12.copy_from_slice(&n[..12]);
                        self.sensitive.insert(hex::encode(k));
                        up = up.image_hash(Some(h)).image_key(Some(k)).image_nonce(Some(n12));
                    }
                    7 => up = up.name(format!("name-{arg}-{}", "n".repeat(256 + (*arg as usize % 150)))),
                    8 => up = up.description(format!("description-{arg}-{}", "d".repeat(2001 + (*arg as usize % 600)))),
                    _ => up = up.image_hash(None),
                }
                let r = with_mdk!(self.nodes[node].mdk(), m => m.update_group_data(&gid, up));
                match r {
                    Ok(u) => {
                        let c = self.register_commit(step, 0, node, *g, u.evolution_event, format!("update{variant}"), &pre_state.get(g).cloned());
                        let mut o = Outcome::new("ok", "update commit created");
                        o.created = vec![c];
                        o
                    }
                    Err(e) => Outcome::new("err", format!("Err({e})")),
                }
            }
            Op::SelfUpdate { g } => {
                let Some(gid) = self.gid(*g) else { return Outcome::new("skipped", "no group") };
                let r = with_mdk!(self.nodes[node].mdk(), m => m.self_update(&gid));
                match r {
                    Ok(u) => {
                        let c = self.register_commit(step, 0, node, *g, u.evolution_event, "selfupdate".into(), &pre_state.get(g).cloned());
                        let mut o = Outcome::new("ok", "self-update commit created");
                        o.created = vec![c];
                        o
                    }
                    Err(e) => Outcome::new("err", format!("Err({e})")),
                }
            }
            Op::Leave { g } => {
                let Some(gid) = self.gid(*g) else { return Outcome::new("skipped", "no group") };
                let r = with_mdk!(self.nodes[node].mdk(), m => m.leave_group(&gid));
                match r {
                    Ok(u) => {
                        let (epoch, st) = pre_state.get(g).cloned().unwrap_or((0, String::new()));
                        let origin = EvRef(step.id, 0);
                        self.publish_event(PubEvent {
                            origin,
                            event: u.evolution_event,
                            kind: EvKind::Proposal,
                            creator: node,
                            g: *g,
                            epoch,
                            parent_state: st,
                            result_state: None,
                            desc: "leave".into(),
                            msg: None,
                            refs_proposals: false,
                        });
                        let mut o = Outcome::new("ok", "leave proposal created");
                        o.created = vec![origin];
                        o
                    }
                    Err(e) => Outcome::new("err", format!("Err({e})")),
                }
            }
            Op::MergePending { g } => {
                let Some(gid) = self.gid(*g) else { return Outcome::new("skipped", "no group") };
                let r = with_mdk!(self.nodes[node].mdk(), m => m.merge_pending_commit(&gid));
                match r {
                    Ok(()) => {
                        if let Some(c) = self.pending_own.remove(&(node, *g)) {
                            let st = pre_state.get(g).map(|s| s.1.clone()).unwrap_or_default();
                            self.merged_direct[node].push((*g, st, c));
                            self.effective[node].insert(c);
                        }
                        Outcome::new("ok", "merged pending commit")
                    }
                    Err(e) => Outcome::new("err", format!("Err({e})")),
                }
            }
            Op::ClearPending { g } => {
                let Some(gid) = self.gid(*g) else { return Outcome::new("skipped", "no group") };
                let r = with_mdk!(self.nodes[node].mdk(), m => m.clear_pending_commit(&gid));
                match r {
                    Ok(()) => {
                        self.pending_own.remove(&(node, *g));
                        Outcome::new("ok", "cleared pending commit")
                    }
                    Err(e) => Outcome::new("err", format!("Err({e})")),
                }
            }
            Op::Deliver { ev } => {
                let Some(pe) = self.ev(*ev).cloned() else { return Outcome::new("skipped", "no such event") };
                self.deliver_event(step, node, &pe.event, Some(&pe))
            }
            Op::Restart => match self.nodes[node].restart() {
                Ok(true) => {
                    self.fault("restart");
                    Outcome::new("ok", "restarted")
                }
                Ok(false) => Outcome::new("skipped", "memory backend: restart not applicable"),
                Err(e) => Outcome::new("err", format!("restart failed: {e}")),
            },
            Op::SetGroupImage { g, seed, format } => {
                let Some(gid) = self.gid(*g) else { return Outcome::new("skipped", "no group") };
                let mut r = crate::rng::Rng::new(*seed as u64 ^ self.seed);
                let mime = ["image/png", "image/jpeg", "image/webp", "image/gif"][r.below(4) as usize];
                let img = sim_image(&mut r, mime);
                let up = match mdk_core::extension::group_image::prepare_group_image_for_upload(&img, mime) {
                    Ok(u) => u,
                    Err(e) => return Outcome::new("err", format!("Err(group image: {e})")),
                };
                let (enc, hash, key, nonce, upload_key): (Vec<u8>, [u8; 32], [u8; 32], [u8; 12], Option<[u8; 32]>) = if *format == 1 {
                    // legacy format: the published key is the cipher key itself
                    use chacha20poly1305::aead::{Aead, KeyInit};
                    let plain = match mdk_core::extension::group_image::decrypt_group_image(up.encrypted_data.as_ref(), Some(&up.encrypted_hash), &up.image_key, &up.image_nonce) {
                        Ok(p) => p,
                        Err(e) => return Outcome::new("err", format!("Err(group image: uploader cannot decrypt: {e})")),
                    };
                    let key: [u8; 32] = r.bytes(32).try_into().unwrap();
                    let nonce: [u8; 12] = r.bytes(12).try_into().unwrap();
                    let c = chacha20poly1305::ChaCha20Poly1305::new_from_slice(&key).unwrap();
                    let enc = c.encrypt(chacha20poly1305::Nonce::from_slice(&nonce), plain.as_slice()).unwrap();
                    let hash = sha2_32(&enc);
                    (enc, hash, key, nonce, None)
                } else {
                    (up.encrypted_data.as_ref().clone(), up.encrypted_hash, *up.image_key.as_ref(), *up.image_nonce.as_ref(), Some(*up.image_upload_key.as_ref()))
                };
                let reference = match mdk_core::extension::group_image::decrypt_group_image(&enc, Some(&hash), &mdk_storage_traits::Secret::new(key), &mdk_storage_traits::Secret::new(nonce)) {
                    Ok(p) => p,
                    Err(e) => return Outcome::new("err", format!("Err(group image: uploader cannot decrypt: {e})")),
                };
                self.sensitive.insert(hex::encode(key));
                let mut upd = NostrGroupDataUpdate::new().image_hash(Some(hash)).image_key(Some(key)).image_nonce(Some(nonce));
                if let Some(uk) = upload_key {
                    self.sensitive.insert(hex::encode(uk));
                    upd = upd.image_upload_key(Some(uk));
                }
                let res = with_mdk!(self.nodes[node].mdk(), m => m.update_group_data(&gid, upd));
                match res {
                    Ok(u) => {
                        self.group_blobs.insert(hex::encode(hash), (enc, reference));
                        self.probe(if *format == 1 { "group_image_set_v1" } else { "group_image_set_v2" });
                        let c = self.register_commit(step, 0, node, *g, u.evolution_event, format!("group-image-v{format}"), &pre_state.get(g).cloned());
                        let mut o = Outcome::new("ok", "group image commit created");
                        o.created = vec![c];
                        o
                    }
                    Err(e) => Outcome::new("err", format!("Err({e})")),
                }
            }
            Op::GroupImageDownload { g, tamper, seed } => {
                let Some(gid) = self.gid(*g) else { return Outcome::new("skipped", "no group") };
                let rec = with_mdk!(self.nodes[node].mdk(), m => m.get_group(&gid));
                let Ok(Some(rec)) = rec else { return Outcome::new("skipped", "group not held") };
                let (Some(hash), Some(key), Some(nonce)) = (rec.image_hash, rec.image_key.clone(), rec.image_nonce.clone()) else { return Outcome::new("skipped", "no image in the record") };
                let Some((mut enc, reference)) = self.group_blobs.get(&hex::encode(hash)).cloned() else { return Outcome::new("skipped", "no such blob") };
                let mut r = crate::rng::Rng::new(*seed as u64 ^ self.seed);
                let mut key = *key.as_ref();
                let mut nonce = *nonce.as_ref();
                let mut expect = Some(hash);
                match tamper {
                    1 | 5 if !enc.is_empty() => {
                        let i = r.below(enc.len() as u64) as usize;
                        enc[i] ^= 1 << r.below(8);
                        if *tamper == 5 {
                            expect = None;
                        }
                    }
                    2 if !enc.is_empty() => {
                        let n = r.below(enc.len() as u64) as usize;
                        enc.truncate(n);
                        expect = None;
                    }
                    3 => nonce[r.below(12) as usize] ^= 1 << r.below(8),
                    4 => key[r.below(32) as usize] ^= 1 << r.below(8),
                    _ => {}
                }
                let res = mdk_core::extension::group_image::decrypt_group_image(&enc, expect.as_ref(), &mdk_storage_traits::Secret::new(key), &mdk_storage_traits::Secret::new(nonce));
                match res {
                    Ok(b) => Outcome::new("gimage_ok", format!("group image ok equal={} tamper={tamper} state={}", b == reference, rec.state)),
                    Err(e) => Outcome::new("gimage_err", format!("group image err tamper={tamper} state={}: {}", rec.state, e.to_string().chars().take(80).collect::<String>())),
                }
            }
            Op::MediaDownload { msg, tamper, seed } => {
                let Some(l) = self.ledger.iter().find(|l| l.origin == *msg).cloned() else { return Outcome::new("skipped", "no such message") };
                let Some((mut enc, orig)) = self.blobs.get(msg).cloned() else { return Outcome::new("skipped", "no blob") };
                let Some(gid) = self.gid(l.g) else { return Outcome::new("skipped", "no group") };
                let mut r = crate::rng::Rng::new(*seed as u64 ^ self.seed);
                // the reference: from the client's own stored copy, else out of band from the author
                let own = with_mdk!(self.nodes[node].mdk(), m => all_messages(m, &gid).into_iter().find(|x| x.id.to_hex() == l.rumor_id));
                let from_author = with_mdk!(self.nodes[l.author].mdk(), m => all_messages(m, &gid).into_iter().find(|x| x.id.to_hex() == l.rumor_id));
                let holder = own.clone().or(from_author);
                let Some(holder) = holder else { return Outcome::new("skipped", "nobody stores the announcing message") };
                let Some(tag) = holder.tags.iter().find(|t| t.kind() == TagKind::Custom("imeta".into())).cloned() else { return Outcome::new("skipped", "no imeta tag") };
                match tamper {
                    6 if !enc.is_empty() => {
                        let i = r.below(enc.len() as u64) as usize;
                        enc[i] ^= 1 << r.below(8);
                    }
                    7 if !enc.is_empty() => {
                        let n = r.below(enc.len() as u64) as usize;
                        enc.truncate(n);
                    }
                    _ => {}
                }
                let res: Result<Vec<u8>, String> = with_mdk!(self.nodes[node].mdk(), m => (|| {
                    let mm = m.media_manager(gid.clone());
                    let mut rf = mm.parse_imeta_tag(&tag).map_err(|e| format!("parse: {e}"))?;
                    match tamper {
                        1 => rf.nonce[(r.below(12)) as usize] ^= 1 << r.below(8),
                        2 => rf.filename = format!("x{}", rf.filename),
                        3 => rf.mime_type = if rf.mime_type == "text/plain" { "application/pdf".into() } else { "text/plain".into() },
                        4 => rf.original_hash[(r.below(32)) as usize] ^= 1 << r.below(8),
                        5 => rf.scheme_version = format!("{}x", rf.scheme_version),
                        8 => {
                            rf.filename = rf.filename.chars().map(|c| if c.is_ascii_lowercase() { c.to_ascii_uppercase() } else { c.to_ascii_lowercase() }).collect();
                        }
                        9 => rf.filename.push(' '),
                        _ => {}
                    }
                    mm.decrypt_from_download(&enc, &rf).map_err(|e| format!("{e}"))
                })());
                let stored = own.map(|m| m.state.as_str().to_string()).unwrap_or_else(|| "absent".into());
                match res {
                    Ok(b) => Outcome::new("media_ok", format!("media ok equal={} stored={stored} tamper={tamper}", b == orig)),
                    Err(e) => Outcome::new("media_err", format!("media err stored={stored} tamper={tamper}: {}", e.chars().take(80).collect::<String>())),
                }
            }
            Op::Hostile(h) => {
                // a hostile participant / damaged event is a fault kind of its own
                self.fault(&format!("hostile:{}", crate::hostile::short(h)));
                crate::hostile::exec(self, step, h.clone())
            }
        }
    }

    /// Hand `event` to `node`'s process_message and play the application layer on the result.
    pub fn deliver_event(&mut self, step: &Step, node: usize, event: &Event, pe: Option<&PubEvent>) -> Outcome {
        let r = with_mdk!(self.nodes[node].mdk(), m => m.process_message(event));
        if self.capture_logs {
            self.last_debug = match &r {
                Ok(v) => format!("{v:?}"),
                Err(e) => format!("{e:?} || {e}"),
            };
        }
        let (class, text) = result_class(&r);
        let mut o = Outcome::new(class, text);
        if let Some(pe) = pe {
            let e = self.delivered[node].entry(pe.origin).or_insert((step.id, 0));
            e.1 += 1;
            if e.1 > 1 {
                self.fault("duplicate_delivery");
            }
        }
        if let Ok(MessageProcessingResult::Proposal(u)) = r {
            // admin auto-committed a leave proposal: the app publishes the commit
            if let Some(pe) = pe {
                let pre = self.node_state(node, pe.g);
                let c = self.register_commit(step, 0, node, pe.g, u.evolution_event, "autocommit-leave".into(), &pre);
                o.created.push(c);
                self.probe("auto_commit");
            }
        }
        if let Some(pe) = pe {
            if !is_refusal(class) {
                self.effective[node].insert(pe.origin);
            }
            if class == "commit" && self.pending_own.get(&(node, pe.g)) == Some(&pe.origin) {
                self.pending_own.remove(&(node, pe.g));
            }
        }
        o
    }

    /// the id the next step will get
    pub fn peek_step_id(&self) -> u32 {
        self.next_step_id
    }
    pub fn step_id(&mut self) -> u32 {
        let s = self.next_step_id;
        self.next_step_id += 1;
        s
    }
}

pub fn sha2_32(b: &[u8]) -> [u8; 32] {
    use sha2::{Digest, Sha256};
    let d = Sha256::digest(b);
    let mut o = [0u8; 32];
    o.copy_from_slice(&d);
    o
}

/// Marker payload of the unwinding that simulates process death.
pub struct SimulatedCrash;

pub fn copy_dir(from: &std::path::Path, to: &std::path::Path) {
    let _ = std::fs::create_dir_all(to);
    if let Ok(rd) = std::fs::read_dir(from) {
        for e in rd.flatten() {
            let p = e.path();
            if p.is_file() {
                let _ = std::fs::copy(&p, to.join(e.file_name()));
            }
        }
    }
}


/// A small valid image of the given MIME family (seeded pixels and dimensions).
pub fn sim_image(r: &mut crate::rng::Rng, mime: &str) -> Vec<u8> {
    let (w, h) = (1 + r.below(24) as u32, 1 + r.below(24) as u32);
    let px = r.bytes((w * h * 3) as usize);
    let img = image::RgbImage::from_raw(w, h, px).expect("image buffer");
    let fmt = match mime {
        "image/png" => image::ImageFormat::Png,
        "image/jpeg" => image::ImageFormat::Jpeg,
        "image/gif" => image::ImageFormat::Gif,
        _ => image::ImageFormat::WebP,
    };
    let mut out = std::io::Cursor::new(Vec::new());
    let dynimg = image::DynamicImage::ImageRgb8(img);
    if fmt == image::ImageFormat::Gif {
        dynimg.to_rgba8().write_to(&mut out, fmt).expect("encode");
    } else {
        dynimg.write_to(&mut out, fmt).expect("encode");
    }
    out.into_inner()
}
