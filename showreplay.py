#!/usr/bin/env python3
import json,sys
for f in sys.argv[1:]:
    r=json.load(open(f))
    print('=====',f); print(r['violation']['clause'], r['violation']['detail'][:400])
    c=r['cfg']
    print('variant',r['variant'],'nodes',[(n['backend'],n['epoch_snapshot_retention']) for n in c['nodes']],'policies',c['policies'],'members',c['initial_members'],'admins',c['initial_admins'],'regime',c['regime'])
    for l in r['log']: print('  ',l[:230])
