#!/bin/sh
# usage: reverify_seeded.sh [ids...] : apply every stored seeded change to /repo in turn, run the checks
# named in its meta.json (quick tier), undo it, and report whether it is still reported.
cd /verif || exit 2
[ -z "$(git -C /repo status --porcelain)" ] || { echo "/repo has uncommitted changes: refusing"; exit 2; }
IDS="$@"; [ -z "$IDS" ] && IDS=$(ls seeded)
for id in $IDS; do
  P=/verif/seeded/$id/patch.diff
  CHECKS=$(python3 -c "import json;print(json.load(open('/verif/seeded/$id/meta.json')).get('checks_run','').replace(' quick',''))")
  SUP=$(python3 -c "import json;print('yes' if json.load(open('/verif/seeded/$id/meta.json')).get('superseded') else 'no')")
  [ "$SUP" = yes ] && { echo "$id: superseded (see meta.json), skipped"; continue; }
  git -C /repo apply "$P" 2>/dev/null || { echo "$id: PATCH DOES NOT APPLY"; continue; }
  hit=no
  for c in $CHECKS; do
    if /verif/check $c --tier quick 2>&1 | grep -q "^VIOLATION property="; then hit="$c"; break; fi
  done
  git -C /repo checkout -- .
  echo "$id: checks [$CHECKS] -> ${hit}"
done
# leave clean evidence behind
echo "re-run the quick checks on the unchanged tree to regenerate evidence"
