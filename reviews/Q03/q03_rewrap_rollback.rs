//! Q03 demonstration: an already applied commit, re-published by ANYBODY (no key needed) under a
//! new wrapper event with an earlier `created_at`, makes every member that still holds the
//! snapshot of that epoch roll back behind the commit that removed bob. The removal commit is
//! refused when it is delivered again, bob is a member again in everybody's state, and what
//! the admin sends afterwards is handed to bob as plaintext.
//!
//! History (alice = admin, bob, carol):
//!   create_group(alice; bob, carol)                      epoch 1
//!   K  = carol.self_update, applied by all               epoch 2
//!   R  = alice.remove_members([bob]), applied by alice and carol   epoch 3   (bob is out)
//!   M1 = alice.create_message                             -> bob cannot read (correct)
//!   K' = the content and tags of K signed again with created_at = K.created_at - 5
//!   alice.process_message(K'), carol.process_message(K')  -> both roll back to epoch 1
//!   alice.process_message(R), carol.process_message(R)    -> Unprocessable
//!   M2 = alice.create_message                             -> bob.process_message(M2) = plaintext

use mdk_core::prelude::*;
use mdk_memory_storage::MdkMemoryStorage;
use mdk_sqlite_storage::MdkSqliteStorage;
use nostr::{Event, EventBuilder, EventId, Keys, Kind, RelayUrl, Timestamp, UnsignedEvent};

fn fresh_id() -> EventId {
    EventId::from_slice(Keys::generate().public_key().as_bytes()).unwrap()
}

fn key_package<S: MdkStorageProvider>(mdk: &MDK<S>, keys: &Keys) -> Event {
    let relays = vec![RelayUrl::parse("wss://test.relay").unwrap()];
    let (hex, tags, _) = mdk
        .create_key_package_for_event(&keys.public_key(), relays)
        .unwrap();
    EventBuilder::new(Kind::MlsKeyPackage, hex)
        .tags(tags)
        .sign_with_keys(keys)
        .unwrap()
}

fn join<S: MdkStorageProvider>(mdk: &MDK<S>, rumor: &UnsignedEvent) {
    let w = mdk.process_welcome(&fresh_id(), rumor).unwrap();
    mdk.accept_welcome(&w).unwrap();
}

fn send<S: MdkStorageProvider>(mdk: &MDK<S>, keys: &Keys, gid: &GroupId, text: &str) -> Event {
    let rumor = EventBuilder::new(Kind::TextNote, text).build(keys.public_key());
    mdk.create_message(gid, rumor).unwrap()
}

fn plaintext(r: Result<MessageProcessingResult, Error>) -> Option<String> {
    match r {
        Ok(MessageProcessingResult::ApplicationMessage(m)) => Some(m.content),
        _ => None,
    }
}

/// The same ciphertext and tags under a new wrapper event: needs no secret whatsoever.
fn rewrap(ev: &Event, created_at: u64) -> Event {
    EventBuilder::new(ev.kind, ev.content.clone())
        .tags(ev.tags.clone())
        .custom_created_at(Timestamp::from(created_at))
        .sign_with_keys(&Keys::generate())
        .unwrap()
}

fn scenario<S: MdkStorageProvider>(alice: MDK<S>, bob: MDK<S>, carol: MDK<S>) {
    let (ak, bk, ck) = (Keys::generate(), Keys::generate(), Keys::generate());
    let cfg = NostrGroupConfigData::new(
        "g".into(),
        "d".into(),
        None,
        None,
        None,
        vec![RelayUrl::parse("wss://test.relay").unwrap()],
        vec![ak.public_key()],
    );
    let res = alice
        .create_group(
            &ak.public_key(),
            vec![key_package(&bob, &bk), key_package(&carol, &ck)],
            cfg,
        )
        .unwrap();
    let gid = res.group.mls_group_id.clone();
    alice.merge_pending_commit(&gid).unwrap();
    join(&bob, &res.welcome_rumors[0]);
    join(&carol, &res.welcome_rumors[1]);

    // K: carol's self-update (epoch 1 -> 2), applied by everybody
    let k = carol.self_update(&gid).unwrap().evolution_event;
    carol.process_message(&k).unwrap();
    carol.merge_pending_commit(&gid).unwrap();
    alice.process_message(&k).unwrap();
    bob.process_message(&k).unwrap();

    // R: alice removes bob (epoch 2 -> 3), applied by alice and carol
    let r = alice
        .remove_members(&gid, &[bk.public_key()])
        .unwrap()
        .evolution_event;
    alice.process_message(&r).unwrap();
    alice.merge_pending_commit(&gid).unwrap();
    carol.process_message(&r).unwrap();
    for (n, m) in [("alice", &alice), ("carol", &carol)] {
        assert_eq!(m.get_group(&gid).unwrap().unwrap().epoch, 3, "{n}");
        assert!(!m.get_members(&gid).unwrap().contains(&bk.public_key()), "{n}");
    }

    // control: what is sent now is closed to bob (who has not seen R yet, or never will)
    let m1 = send(&alice, &ak, &gid, "M1 after the removal");
    assert!(plaintext(carol.process_message(&m1)).is_some());
    assert!(plaintext(bob.process_message(&m1)).is_none());

    // anybody re-publishes K under a new wrapper with an earlier timestamp
    let k2 = rewrap(&k, k.created_at.as_secs() - 5);
    let ra = alice.process_message(&k2);
    let rc = carol.process_message(&k2);
    println!("alice on K': {ra:?}\ncarol on K': {rc:?}");
    // the relays deliver R again
    let ra = alice.process_message(&r);
    let rc = carol.process_message(&r);
    println!("alice on R again: {ra:?}\ncarol on R again: {rc:?}");
    for (n, m) in [("alice", &alice), ("carol", &carol)] {
        println!(
            "{n}: epoch {} bob is a member: {}",
            m.get_group(&gid).unwrap().unwrap().epoch,
            m.get_members(&gid).unwrap().contains(&bk.public_key())
        );
    }

    // alice, who removed bob and saw him gone, writes to the group
    let m2 = send(&alice, &ak, &gid, "M2 after the removal and the replay");
    let got = plaintext(bob.process_message(&m2));
    println!("bob is handed: {got:?}");
    let stored: Vec<String> = bob
        .get_messages(&gid, None)
        .unwrap()
        .into_iter()
        .map(|m| m.content)
        .collect();
    println!("bob stores: {stored:?}");

    assert!(
        !alice.get_members(&gid).unwrap().contains(&bk.public_key()),
        "alice had applied bob's removal; a re-wrapped old commit made her forget it"
    );
    assert!(
        got.is_none() && !stored.iter().any(|c| c.starts_with("M2")),
        "bob reads what alice sent after she (and carol) had applied his removal"
    );
}

#[test]
fn rewrapped_commit_undoes_removal_memory() {
    scenario(
        MDK::new(MdkMemoryStorage::default()),
        MDK::new(MdkMemoryStorage::default()),
        MDK::new(MdkMemoryStorage::default()),
    );
}

#[test]
fn rewrapped_commit_undoes_removal_sqlite() {
    let dir = tempfile::tempdir().unwrap();
    let open = |n: &str| MDK::new(MdkSqliteStorage::new_unencrypted(dir.path().join(n)).unwrap());
    scenario(open("a.sqlite"), open("b.sqlite"), open("c.sqlite"));
}
