//! Q03 / property C03: only members of the sending epoch ever obtain a message's plaintext.
//!
//! Each test builds a history, feeds every wrapper event / welcome to an observer in several
//! orders and checks what the observer stores or is handed back.

#![allow(dead_code)]

use mdk_core::prelude::*;
use mdk_memory_storage::MdkMemoryStorage;
use nostr::{Event, EventBuilder, EventId, Keys, Kind, PublicKey, RelayUrl, UnsignedEvent};

pub struct Client {
    pub keys: Keys,
    pub mdk: MDK<MdkMemoryStorage>,
    pub name: &'static str,
}

impl Client {
    pub fn new(name: &'static str) -> Self {
        Self {
            keys: Keys::generate(),
            mdk: MDK::new(MdkMemoryStorage::default()),
            name,
        }
    }
    /// a second device of the same user
    pub fn device_of(other: &Client, name: &'static str) -> Self {
        Self {
            keys: other.keys.clone(),
            mdk: MDK::new(MdkMemoryStorage::default()),
            name,
        }
    }
    pub fn pk(&self) -> PublicKey {
        self.keys.public_key()
    }
    pub fn key_package(&self) -> Event {
        let relays = vec![RelayUrl::parse("wss://test.relay").unwrap()];
        let (hex, tags, _) = self
            .mdk
            .create_key_package_for_event(&self.pk(), relays)
            .expect("key package");
        EventBuilder::new(Kind::MlsKeyPackage, hex)
            .tags(tags)
            .sign_with_keys(&self.keys)
            .unwrap()
    }
    pub fn rumor(&self, content: &str) -> UnsignedEvent {
        EventBuilder::new(Kind::TextNote, content).build(self.pk())
    }
    pub fn send(&self, gid: &GroupId, content: &str) -> Event {
        self.mdk
            .create_message(gid, self.rumor(content))
            .unwrap_or_else(|e| panic!("{} cannot send {content}: {e:?}", self.name))
    }
    pub fn try_send(&self, gid: &GroupId, content: &str) -> Result<Event, Error> {
        self.mdk.create_message(gid, self.rumor(content))
    }
    /// process_welcome + accept_welcome
    pub fn join(&self, rumor: &UnsignedEvent) {
        let w = self
            .mdk
            .process_welcome(&fresh_id(), rumor)
            .unwrap_or_else(|e| panic!("{} process_welcome: {e:?}", self.name));
        assert_eq!(Some(w.id), rumor.id, "{}: another welcome was answered", self.name);
        self.mdk
            .accept_welcome(&w)
            .unwrap_or_else(|e| panic!("{} accept_welcome: {e:?}", self.name));
    }
    pub fn feed(&self, ev: &Event) -> Result<MessageProcessingResult, Error> {
        self.mdk.process_message(ev)
    }
    /// process, panic unless it is Ok
    pub fn must(&self, ev: &Event) -> MessageProcessingResult {
        self.feed(ev)
            .unwrap_or_else(|e| panic!("{} failed to process: {e:?}", self.name))
    }
    pub fn contents(&self, gid: &GroupId) -> Vec<String> {
        match self.mdk.get_messages(gid, None) {
            Ok(v) => v.into_iter().map(|m| m.content).collect(),
            Err(_) => vec![],
        }
    }
    pub fn epoch(&self, gid: &GroupId) -> u64 {
        self.mdk.get_group(gid).unwrap().unwrap().epoch
    }
    pub fn state(&self, gid: &GroupId) -> Option<group_types::GroupState> {
        self.mdk.get_group(gid).unwrap().map(|g| g.state)
    }
}

/// a fresh wrapper event id (each gift wrap has its own)
pub fn fresh_id() -> EventId {
    EventId::from_slice(Keys::generate().public_key().as_bytes()).unwrap()
}

pub fn config(admins: Vec<PublicKey>) -> NostrGroupConfigData {
    NostrGroupConfigData::new(
        "g".into(),
        "d".into(),
        None,
        None,
        None,
        vec![RelayUrl::parse("wss://test.relay").unwrap()],
        admins,
    )
}

/// creator creates a group with the given members; all of them join. Returns the group id
/// and the welcome rumors (same order as `members`).
pub fn make_group(
    creator: &Client,
    members: &[&Client],
    admins: Vec<PublicKey>,
) -> (GroupId, Vec<UnsignedEvent>) {
    let kps: Vec<Event> = members.iter().map(|m| m.key_package()).collect();
    let res = creator
        .mdk
        .create_group(&creator.pk(), kps, config(admins))
        .expect("create_group");
    let gid = res.group.mls_group_id.clone();
    creator.mdk.merge_pending_commit(&gid).unwrap();
    for (m, w) in members.iter().zip(res.welcome_rumors.iter()) {
        m.join(w);
    }
    (gid, res.welcome_rumors)
}

/// what did the feed hand back as plaintext?
pub fn plaintext_of(r: &Result<MessageProcessingResult, Error>) -> Option<String> {
    match r {
        Ok(MessageProcessingResult::ApplicationMessage(m)) => Some(m.content.clone()),
        _ => None,
    }
}

/// Feed all events in several orders (forward, reverse, forward again, rotated) and collect
/// every plaintext handed back by process_message.
pub fn replay_all(obs: &Client, events: &[Event]) -> Vec<String> {
    let mut got = vec![];
    let n = events.len();
    let mut orders: Vec<Vec<usize>> = vec![
        (0..n).collect(),
        (0..n).rev().collect(),
        (0..n).collect(),
    ];
    for shift in 1..n.min(4) {
        orders.push((0..n).map(|i| (i + shift) % n).collect());
    }
    // commits first then the rest, and the reverse
    for order in orders {
        for i in order {
            let r = obs.feed(&events[i]);
            if let Some(p) = plaintext_of(&r) {
                got.push(p);
            }
        }
    }
    got
}

fn assert_none_secret(who: &str, seen: &[String], secret_prefix: &str) {
    let leaked: Vec<&String> = seen.iter().filter(|c| c.contains(secret_prefix)).collect();
    assert!(
        leaked.is_empty(),
        "{who} obtained plaintext of messages it must not read: {leaked:?}"
    );
}

// ---------------------------------------------------------------------------------------------
// H1: a client with a PENDING invitation, fed the group's events
// H2: a client that DECLINED the invitation, fed the group's events
// ---------------------------------------------------------------------------------------------
#[test]
fn h1_h2_pending_and_declined_invitation_learn_nothing() {
    let a = Client::new("alice");
    let b = Client::new("bob");
    let p = Client::new("pending");
    let d = Client::new("declined");
    let (gid, _) = make_group(&a, &[&b], vec![a.pk()]);

    let mut log = vec![];
    log.push(a.send(&gid, "SECRET before add"));

    let add = a
        .mdk
        .add_members(&gid, &[p.key_package(), d.key_package()])
        .unwrap();
    a.mdk.merge_pending_commit(&gid).unwrap();
    b.must(&add.evolution_event);
    log.push(add.evolution_event.clone());
    let ws = add.welcome_rumors.unwrap();

    let wp = p.mdk.process_welcome(&fresh_id(), &ws[0]).unwrap();
    let wd = d.mdk.process_welcome(&fresh_id(), &ws[1]).unwrap();
    d.mdk.decline_welcome(&wd).unwrap();
    assert_eq!(p.state(&gid), Some(group_types::GroupState::Pending));
    assert_eq!(d.state(&gid), Some(group_types::GroupState::Inactive));

    // messages in the epoch in which both are (MLS) members but have not consented
    log.push(a.send(&gid, "SECRET after add 1"));
    log.push(b.send(&gid, "SECRET after add 2"));
    let su = b.mdk.self_update(&gid).unwrap();
    b.mdk.merge_pending_commit(&gid).unwrap();
    a.must(&su.evolution_event);
    log.push(su.evolution_event.clone());
    log.push(a.send(&gid, "SECRET after add 3"));

    for obs in [&p, &d] {
        let seen = replay_all(obs, &log);
        assert!(seen.is_empty(), "{} was handed {:?}", obs.name, seen);
        assert!(obs.contents(&gid).is_empty(), "{} stores {:?}", obs.name, obs.contents(&gid));
        assert!(obs.try_send(&gid, "x").is_err(), "{} can send", obs.name);
    }
    // the pending one may still accept and then read what was sent since it was added
    p.mdk.accept_welcome(&wp).unwrap();
    let seen = replay_all(&p, &log);
    assert_none_secret("pending->accepted", &seen, "SECRET before add");
}

// ---------------------------------------------------------------------------------------------
// H3: removal processed -> group closed: cannot read later epochs, cannot send, no API works
// H4: removal NOT processed, later-epoch messages fed first
// ---------------------------------------------------------------------------------------------
#[test]
fn h3_h4_removed_member() {
    let a = Client::new("alice");
    let b = Client::new("bob");
    let c = Client::new("carol");
    let b2 = Client::new("bob-lazy");
    let (gid, _) = make_group(&a, &[&b, &c, &b2], vec![a.pk()]);

    let mut log = vec![];
    let m_old = a.send(&gid, "old epoch message (allowed)");
    log.push(m_old.clone());
    let b_pending_su = b.mdk.self_update(&gid).unwrap(); // b holds a pending own commit
    let _ = b_pending_su;

    let rm = a.mdk.remove_members(&gid, &[b.pk(), b2.pk()]).unwrap();
    a.mdk.merge_pending_commit(&gid).unwrap();
    c.must(&rm.evolution_event);
    log.push(rm.evolution_event.clone());

    log.push(a.send(&gid, "SECRET after removal 1"));
    log.push(c.send(&gid, "SECRET after removal 2"));
    let su = c.mdk.self_update(&gid).unwrap();
    c.mdk.merge_pending_commit(&gid).unwrap();
    a.must(&su.evolution_event);
    log.push(su.evolution_event.clone());
    log.push(a.send(&gid, "SECRET after removal 3"));

    // b2 has not processed its removal: fed later messages first, then everything
    let seen = replay_all(&b2, &log);
    assert_none_secret("bob-lazy", &seen, "SECRET");
    assert_none_secret("bob-lazy store", &b2.contents(&gid), "SECRET");

    // b processes removal first (with an own pending commit)
    let r = b.feed(&rm.evolution_event);
    assert!(r.is_ok(), "removal: {r:?}");
    assert_eq!(b.state(&gid), Some(group_types::GroupState::Inactive));
    // the application now merges its pending commit
    let _ = b.mdk.merge_pending_commit(&gid);
    assert_eq!(b.state(&gid), Some(group_types::GroupState::Inactive));
    let seen = replay_all(&b, &log);
    assert_none_secret("bob", &seen, "SECRET");
    assert_none_secret("bob store", &b.contents(&gid), "SECRET");

    for x in [&b, &b2] {
        assert_eq!(x.state(&gid), Some(group_types::GroupState::Inactive), "{}", x.name);
        assert!(x.try_send(&gid, "after eviction").is_err(), "{} can send", x.name);
        assert!(x.mdk.self_update(&gid).is_err(), "{} can self_update", x.name);
        assert!(x.mdk.leave_group(&gid).is_err(), "{} can leave", x.name);
        assert!(
            x.mdk.add_members(&gid, &[Client::new("z").key_package()]).is_err(),
            "{} can add",
            x.name
        );
        assert!(x.mdk.remove_members(&gid, &[c.pk()]).is_err());
        assert!(
            x.mdk
                .update_group_data(&gid, NostrGroupDataUpdate::new().name("n"))
                .is_err()
        );
    }
}

// ---------------------------------------------------------------------------------------------
// H5: removed then re-added: messages between removal and re-join stay unreadable
//     (a) removal processed before the new invitation
//     (b) re-invited and accepted BEFORE processing the removal commit
//     (c) a leaver (leave proposal, committed by the admin)
// ---------------------------------------------------------------------------------------------
#[test]
fn h5_readded_member_cannot_read_the_gap() {
    let a = Client::new("alice");
    let ba = Client::new("bob-a");
    let bb = Client::new("bob-b");
    let bc = Client::new("bob-c-leaver");
    let c = Client::new("carol");
    let (gid, _) = make_group(&a, &[&ba, &bb, &bc, &c], vec![a.pk()]);

    let mut log = vec![];
    log.push(a.send(&gid, "before (allowed)"));

    // leave proposal of bc; alice (admin) auto-commits it
    let leave = bc.mdk.leave_group(&gid).unwrap();
    log.push(leave.evolution_event.clone());
    let r = a.must(&leave.evolution_event);
    let leave_commit = match r {
        MessageProcessingResult::Proposal(u) => u.evolution_event,
        other => panic!("expected auto-commit, got {other:?}"),
    };
    a.mdk.merge_pending_commit(&gid).unwrap();
    c.must(&leave.evolution_event);
    c.must(&leave_commit);
    ba.must(&leave.evolution_event);
    ba.must(&leave_commit);
    bb.must(&leave.evolution_event);
    bb.must(&leave_commit);
    log.push(leave_commit.clone());

    let rm = a.mdk.remove_members(&gid, &[ba.pk(), bb.pk()]).unwrap();
    a.mdk.merge_pending_commit(&gid).unwrap();
    c.must(&rm.evolution_event);
    log.push(rm.evolution_event.clone());
    // (a) processes its removal now
    ba.must(&rm.evolution_event);
    assert_eq!(ba.state(&gid), Some(group_types::GroupState::Inactive));
    // (c) processes the commit of its leave now
    bc.must(&leave_commit);
    assert_eq!(bc.state(&gid), Some(group_types::GroupState::Inactive));

    log.push(a.send(&gid, "GAP 1"));
    log.push(c.send(&gid, "GAP 2"));
    let su = c.mdk.self_update(&gid).unwrap();
    c.mdk.merge_pending_commit(&gid).unwrap();
    a.must(&su.evolution_event);
    log.push(su.evolution_event.clone());
    log.push(a.send(&gid, "GAP 3"));

    // re-add all three
    let add = a
        .mdk
        .add_members(&gid, &[ba.key_package(), bb.key_package(), bc.key_package()])
        .unwrap();
    a.mdk.merge_pending_commit(&gid).unwrap();
    c.must(&add.evolution_event);
    log.push(add.evolution_event.clone());
    let ws = add.welcome_rumors.unwrap();
    ba.join(&ws[0]);
    bb.join(&ws[1]); // (b): still has the old active state
    bc.join(&ws[2]);

    log.push(a.send(&gid, "after rejoin (allowed)"));

    for x in [&ba, &bb, &bc] {
        let seen = replay_all(x, &log);
        println!("{} saw {:?}; state {:?} epoch {}", x.name, seen, x.state(&gid), x.epoch(&gid));
        assert_none_secret(x.name, &seen, "GAP");
        assert_none_secret(x.name, &x.contents(&gid), "GAP");
        assert!(seen.iter().any(|s| s.contains("after rejoin")), "{} did not rejoin", x.name);
    }
}

// ---------------------------------------------------------------------------------------------
// H6: a new member cannot read what was sent before it joined, outsiders learn nothing
// ---------------------------------------------------------------------------------------------
#[test]
fn h6_new_member_and_outsider() {
    let a = Client::new("alice");
    let b = Client::new("bob");
    let n = Client::new("newbie");
    let o = Client::new("outsider");
    let (gid, ws0) = make_group(&a, &[&b], vec![a.pk()]);

    let mut log = vec![];
    log.push(a.send(&gid, "EARLY 1"));
    let su = b.mdk.self_update(&gid).unwrap();
    b.mdk.merge_pending_commit(&gid).unwrap();
    a.must(&su.evolution_event);
    log.push(su.evolution_event.clone());
    log.push(b.send(&gid, "EARLY 2"));

    let add = a.mdk.add_members(&gid, &[n.key_package()]).unwrap();
    a.mdk.merge_pending_commit(&gid).unwrap();
    b.must(&add.evolution_event);
    log.push(add.evolution_event.clone());
    let ws = add.welcome_rumors.unwrap();
    n.join(&ws[0]);
    log.push(a.send(&gid, "late (allowed)"));

    let seen = replay_all(&n, &log);
    assert_none_secret("newbie", &seen, "EARLY");
    assert_none_secret("newbie", &n.contents(&gid), "EARLY");
    assert!(seen.iter().any(|s| s.contains("late")));

    // the outsider is fed all welcomes and all events
    for w in ws0.iter().chain(ws.iter()) {
        assert!(o.mdk.process_welcome(&fresh_id(), w).is_err());
    }
    let seen = replay_all(&o, &log);
    assert!(seen.is_empty());
    assert!(o.mdk.get_groups().unwrap().is_empty());
}

// ---------------------------------------------------------------------------------------------
// H7: several devices under one identity: remove_members(pubkey) evicts every leaf;
//     a leave of one device leaves the other one in.
// ---------------------------------------------------------------------------------------------
#[test]
fn h7_multi_device() {
    let a = Client::new("alice");
    let u1 = Client::new("u-dev1");
    let u2 = Client::device_of(&u1, "u-dev2");
    let c = Client::new("carol");
    let (gid, _) = make_group(&a, &[&u1, &c], vec![a.pk()]);

    let add = a.mdk.add_members(&gid, &[u2.key_package()]).unwrap();
    a.mdk.merge_pending_commit(&gid).unwrap();
    u1.must(&add.evolution_event);
    c.must(&add.evolution_event);
    u2.join(&add.welcome_rumors.as_ref().unwrap()[0]);

    let mut log = vec![add.evolution_event.clone()];
    log.push(a.send(&gid, "both devices in (allowed)"));

    let rm = a.mdk.remove_members(&gid, &[u1.pk()]).unwrap();
    a.mdk.merge_pending_commit(&gid).unwrap();
    c.must(&rm.evolution_event);
    log.push(rm.evolution_event.clone());
    assert!(
        !a.mdk.get_members(&gid).unwrap().contains(&u1.pk()),
        "user still a member after remove_members"
    );
    log.push(a.send(&gid, "SECRET after user removal"));
    log.push(c.send(&gid, "SECRET after user removal 2"));

    for x in [&u1, &u2] {
        let seen = replay_all(x, &log);
        assert_none_secret(x.name, &seen, "SECRET");
        assert_none_secret(x.name, &x.contents(&gid), "SECRET");
        assert_eq!(x.state(&gid), Some(group_types::GroupState::Inactive));
        assert!(x.try_send(&gid, "x").is_err());
    }
}

// ---------------------------------------------------------------------------------------------
// H8: commit race: the member applied a losing commit X, the winning commit R removes it.
// ---------------------------------------------------------------------------------------------
#[test]
fn h8_race_removal_wins() {
    for _ in 0..6 {
        let a = Client::new("alice");
        let a2 = Client::new("admin2");
        let b = Client::new("bob");
        let c = Client::new("carol");
        let (gid, _) = make_group(&a, &[&a2, &b, &c], vec![a.pk(), a2.pk()]);

        // two commits for the same epoch
        let x = a2
            .mdk
            .update_group_data(&gid, NostrGroupDataUpdate::new().name("x"))
            .unwrap()
            .evolution_event;
        let r = a.mdk.remove_members(&gid, &[b.pk()]).unwrap().evolution_event;
        let r_wins = (r.created_at, r.id.to_hex()) < (x.created_at, x.id.to_hex());
        if !r_wins {
            continue; // the other outcome is the known liveness problem
        }
        // bob applies X first
        b.must(&x);
        a2.mdk.merge_pending_commit(&gid).unwrap();
        let on_x = a2.send(&gid, "branch-x message (allowed: bob is a member on this branch)");
        let _ = b.feed(&on_x);
        // now R arrives at bob and at a2
        let _ = b.feed(&r);
        a.mdk.merge_pending_commit(&gid).unwrap();
        c.must(&r);
        let _ = a2.feed(&r);
        assert_eq!(b.state(&gid), Some(group_types::GroupState::Inactive), "bob after R");

        let mut log = vec![x.clone(), r.clone(), on_x.clone()];
        log.push(a.send(&gid, "SECRET after R"));
        log.push(c.send(&gid, "SECRET after R 2"));
        let seen = replay_all(&b, &log);
        assert_none_secret("bob", &seen, "SECRET");
        assert_none_secret("bob", &b.contents(&gid), "SECRET");
        assert_eq!(b.state(&gid), Some(group_types::GroupState::Inactive));
        assert!(b.try_send(&gid, "x").is_err());
        return;
    }
}

// ---------------------------------------------------------------------------------------------
// H9: Nostr group id rotation: ex-member fed events under the new id; and a group of the
//     ex-member that squats the new id.
// ---------------------------------------------------------------------------------------------
#[test]
fn h9_group_id_rotation_and_squatting() {
    let a = Client::new("alice");
    let b = Client::new("bob");
    let c = Client::new("carol");
    let (gid, _) = make_group(&a, &[&b, &c], vec![a.pk()]);

    let mut log = vec![];
    let rm = a.mdk.remove_members(&gid, &[b.pk()]).unwrap();
    a.mdk.merge_pending_commit(&gid).unwrap();
    c.must(&rm.evolution_event);
    log.push(rm.evolution_event.clone());

    let new_id = [7u8; 32];
    let rot = a
        .mdk
        .update_group_data(&gid, NostrGroupDataUpdate::new().nostr_group_id(new_id))
        .unwrap();
    a.mdk.merge_pending_commit(&gid).unwrap();
    c.must(&rot.evolution_event);
    log.push(rot.evolution_event.clone());
    log.push(a.send(&gid, "SECRET under new id"));
    log.push(c.send(&gid, "SECRET under new id 2"));

    // bob owns another group which he gives the new id (squatting), carol is in it too
    let (gid2, _) = make_group(&b, &[&c], vec![b.pk()]);
    let squat = b
        .mdk
        .update_group_data(&gid2, NostrGroupDataUpdate::new().nostr_group_id(new_id));
    if let Ok(s) = squat {
        let _ = b.mdk.merge_pending_commit(&gid2);
        let _ = c.feed(&s.evolution_event);
    }
    let seen = replay_all(&b, &log);
    assert_none_secret("bob", &seen, "SECRET");
    assert_none_secret("bob", &b.contents(&gid), "SECRET");
    assert_none_secret("bob", &b.contents(&gid2), "SECRET");
    // carol still reads her group
    let m = a.send(&gid, "carol can read");
    let r = c.feed(&m);
    assert!(plaintext_of(&r).is_some(), "carol lost the group: {r:?}");
    assert_none_secret("carol g2", &c.contents(&gid2), "carol can read");
}

// ---------------------------------------------------------------------------------------------
// H10: a stale rollback snapshot after a re-join: a "better" commit for an old epoch
//      makes the re-joined member roll back. Does it read anything of the gap then?
// ---------------------------------------------------------------------------------------------
#[test]
fn h10_rollback_after_rejoin() {
    for _ in 0..8 {
        let a = Client::new("alice");
        let a2 = Client::new("admin2");
        let b = Client::new("bob");
        let c = Client::new("carol");
        let (gid, _) = make_group(&a, &[&a2, &b, &c], vec![a.pk(), a2.pk()]);

        // race at epoch E: R (alice removes bob) vs Q (admin2 renames)
        let q = a2
            .mdk
            .update_group_data(&gid, NostrGroupDataUpdate::new().name("q"))
            .unwrap()
            .evolution_event;
        let r = a.mdk.remove_members(&gid, &[b.pk()]).unwrap().evolution_event;
        let q_better = (q.created_at, q.id.to_hex()) < (r.created_at, r.id.to_hex());
        if !q_better {
            continue;
        }
        // everybody (wrongly, they have not seen Q) applies R; admin2 drops Q
        a.mdk.merge_pending_commit(&gid).unwrap();
        a2.mdk.clear_pending_commit(&gid).unwrap();
        a2.must(&r);
        c.must(&r);
        b.must(&r);
        assert_eq!(b.state(&gid), Some(group_types::GroupState::Inactive));

        let mut log = vec![r.clone()];
        log.push(a.send(&gid, "GAP 1"));
        log.push(c.send(&gid, "GAP 2"));

        let add = a.mdk.add_members(&gid, &[b.key_package()]).unwrap();
        a.mdk.merge_pending_commit(&gid).unwrap();
        c.must(&add.evolution_event);
        a2.must(&add.evolution_event);
        log.push(add.evolution_event.clone());
        b.join(&add.welcome_rumors.as_ref().unwrap()[0]);
        log.push(a.send(&gid, "after rejoin (allowed)"));

        // now Q shows up at bob
        log.push(q.clone());
        let seen = replay_all(&b, &log);
        assert_none_secret("bob", &seen, "GAP");
        assert_none_secret("bob", &b.contents(&gid), "GAP");
        println!(
            "bob after Q: state {:?} epoch {}",
            b.state(&gid),
            b.epoch(&gid)
        );
        return;
    }
}

// ---------------------------------------------------------------------------------------------
// H11: an old, never accepted invitation accepted after the member processed its removal
// ---------------------------------------------------------------------------------------------
#[test]
fn h11_stale_invitation_after_eviction() {
    let a = Client::new("alice");
    let b = Client::new("bob");
    let c = Client::new("carol");
    let (gid, _) = make_group(&a, &[&c], vec![a.pk()]);
    let mut log = vec![];

    // first invitation (never looked at)
    let add1 = a.mdk.add_members(&gid, &[b.key_package()]).unwrap();
    a.mdk.merge_pending_commit(&gid).unwrap();
    c.must(&add1.evolution_event);
    log.push(add1.evolution_event.clone());
    let w1 = add1.welcome_rumors.unwrap()[0].clone();
    log.push(a.send(&gid, "first membership (allowed)"));
    let rm1 = a.mdk.remove_members(&gid, &[b.pk()]).unwrap();
    a.mdk.merge_pending_commit(&gid).unwrap();
    c.must(&rm1.evolution_event);
    log.push(rm1.evolution_event.clone());
    log.push(a.send(&gid, "GAP one"));

    // second invitation, accepted
    let add2 = a.mdk.add_members(&gid, &[b.key_package()]).unwrap();
    a.mdk.merge_pending_commit(&gid).unwrap();
    c.must(&add2.evolution_event);
    log.push(add2.evolution_event.clone());
    b.join(&add2.welcome_rumors.as_ref().unwrap()[0]);
    log.push(a.send(&gid, "second membership (allowed)"));
    let rm2 = a.mdk.remove_members(&gid, &[b.pk()]).unwrap();
    a.mdk.merge_pending_commit(&gid).unwrap();
    c.must(&rm2.evolution_event);
    log.push(rm2.evolution_event.clone());
    b.must(&rm2.evolution_event);
    assert_eq!(b.state(&gid), Some(group_types::GroupState::Inactive));
    log.push(a.send(&gid, "GAP two"));

    // now the first invitation arrives
    let w = b.mdk.process_welcome(&fresh_id(), &w1);
    println!("stale welcome: {:?}", w.as_ref().map(|w| w.state));
    if let Ok(w) = w {
        let acc = b.mdk.accept_welcome(&w);
        println!("accept stale: {acc:?}, state {:?} epoch {}", b.state(&gid), b.epoch(&gid));
    }
    let seen = replay_all(&b, &log);
    println!("bob saw {seen:?}; state {:?}", b.state(&gid));
    assert_none_secret("bob", &seen, "GAP");
    assert_none_secret("bob", &b.contents(&gid), "GAP");
}

#[test]
fn h10_trace() {
    for _ in 0..8 {
        let a = Client::new("alice");
        let a2 = Client::new("admin2");
        let b = Client::new("bob");
        let c = Client::new("carol");
        let (gid, _) = make_group(&a, &[&a2, &b, &c], vec![a.pk(), a2.pk()]);
        let q = a2
            .mdk
            .update_group_data(&gid, NostrGroupDataUpdate::new().name("q"))
            .unwrap()
            .evolution_event;
        let r = a.mdk.remove_members(&gid, &[b.pk()]).unwrap().evolution_event;
        let q_better = (q.created_at, q.id.to_hex()) < (r.created_at, r.id.to_hex());
        if !q_better {
            continue;
        }
        a.mdk.merge_pending_commit(&gid).unwrap();
        a2.mdk.clear_pending_commit(&gid).unwrap();
        a2.must(&r);
        c.must(&r);
        b.must(&r);
        let g1 = a.send(&gid, "GAP 1");
        let add = a.mdk.add_members(&gid, &[b.key_package()]).unwrap();
        a.mdk.merge_pending_commit(&gid).unwrap();
        b.join(&add.welcome_rumors.as_ref().unwrap()[0]);
        println!("rejoined: state {:?} epoch {}", b.state(&gid), b.epoch(&gid));
        let after = a.send(&gid, "after rejoin (allowed)");
        println!("after: {:?}", b.feed(&after));
        println!("Q: {:?}", b.feed(&q));
        println!("state {:?} epoch {} members {:?}", b.state(&gid), b.epoch(&gid), b.mdk.get_members(&gid).map(|m| m.len()));
        println!("send: {:?}", b.try_send(&gid, "x").map(|_| ()));
        println!("R again: {:?}", b.feed(&r));
        println!("state {:?} epoch {}", b.state(&gid), b.epoch(&gid));
        println!("gap: {:?}", b.feed(&g1));
        println!("stored: {:?}", b.contents(&gid));
        return;
    }
}

// ---------------------------------------------------------------------------------------------
// H12/H13: removed member with an own commit for the removal epoch (merged directly, or
//          merged through the echo path) against the winning removal commit R
// ---------------------------------------------------------------------------------------------
#[test]
fn h12_h13_own_commit_vs_removal() {
    let mut done = [false, false];
    for round in 0..60 {
        let via_echo = round % 2 == 1;
        if done[via_echo as usize] {
            continue;
        }
        let a = Client::new("alice");
        let b = Client::new("bob");
        let c = Client::new("carol");
        let (gid, _) = make_group(&a, &[&b, &c], vec![a.pk()]);

        let qb = b.mdk.self_update(&gid).unwrap().evolution_event;
        let r = a.mdk.remove_members(&gid, &[b.pk()]).unwrap().evolution_event;
        let r_wins = (r.created_at, r.id.to_hex()) < (qb.created_at, qb.id.to_hex());
        if !r_wins {
            continue;
        }
        done[via_echo as usize] = true;
        if via_echo {
            b.must(&qb);
        } else {
            b.mdk.merge_pending_commit(&gid).unwrap();
        }
        a.mdk.merge_pending_commit(&gid).unwrap();
        c.must(&r);
        let rr = b.feed(&r);
        println!(
            "via_echo={via_echo}: R at bob -> {rr:?}; state {:?} epoch {}",
            b.state(&gid),
            b.epoch(&gid)
        );
        let mut log = vec![qb.clone(), r.clone()];
        log.push(a.send(&gid, "SECRET after R"));
        log.push(c.send(&gid, "SECRET after R 2"));
        let seen = replay_all(&b, &log);
        assert_none_secret("bob", &seen, "SECRET");
        assert_none_secret("bob", &b.contents(&gid), "SECRET");
        println!(
            "   final state {:?} epoch {} can send: {}",
            b.state(&gid),
            b.epoch(&gid),
            b.try_send(&gid, "x").is_ok()
        );
        if via_echo {
            assert_eq!(b.state(&gid), Some(group_types::GroupState::Inactive));
        }
    }
}

// ---------------------------------------------------------------------------------------------
// H14: media of an evicted client / media announced after the removal
// ---------------------------------------------------------------------------------------------
#[cfg(feature = "mip04")]
#[test]
fn h14_media() {
    let a = Client::new("alice");
    let b = Client::new("bob");
    let c = Client::new("carol");
    let (gid, _) = make_group(&a, &[&b, &c], vec![a.pk()]);
    let rm = a.mdk.remove_members(&gid, &[b.pk()]).unwrap();
    a.mdk.merge_pending_commit(&gid).unwrap();
    c.must(&rm.evolution_event);

    // file encrypted and announced after the removal
    let am = a.mdk.media_manager(gid.clone());
    let up = am.encrypt_for_upload(b"SECRET file", "text/plain", "f.txt").unwrap();
    let mref = am.create_media_reference(&up, "https://example.com/f".to_string());
    let tag = am.create_imeta_tag(&up, "https://example.com/f");
    let rumor = EventBuilder::new(Kind::TextNote, "SECRET announce")
        .tag(tag)
        .build(a.pk());
    let ann = a.mdk.create_message(&gid, rumor).unwrap();
    c.must(&ann);
    assert_eq!(
        c.mdk
            .media_manager(gid.clone())
            .decrypt_from_download(&up.encrypted_data, &mref)
            .unwrap(),
        b"SECRET file"
    );

    // bob: before and after processing the removal
    let bm = b.mdk.media_manager(gid.clone());
    assert!(bm.decrypt_from_download(&up.encrypted_data, &mref).is_err());
    let _ = b.feed(&ann);
    assert!(bm.decrypt_from_download(&up.encrypted_data, &mref).is_err());
    b.must(&rm.evolution_event);
    let _ = b.feed(&ann);
    assert!(bm.decrypt_from_download(&up.encrypted_data, &mref).is_err());
    assert!(bm.encrypt_for_upload(b"x", "text/plain", "g.txt").is_err(), "evicted client encrypts media");
    assert_none_secret("bob", &b.contents(&gid), "SECRET");
}

// ---------------------------------------------------------------------------------------------
// H15: sqlite: eviction survives a restart
// ---------------------------------------------------------------------------------------------
#[test]
fn h15_eviction_survives_restart() {
    use mdk_sqlite_storage::MdkSqliteStorage;
    let dir = tempfile::tempdir().unwrap();
    let path = dir.path().join("bob.sqlite");
    let a = Client::new("alice");
    let c = Client::new("carol");
    let bkeys = Keys::generate();
    let bob = MDK::new(MdkSqliteStorage::new_unencrypted(&path).unwrap());
    let relays = vec![RelayUrl::parse("wss://test.relay").unwrap()];
    let (hex, tags, _) = bob.create_key_package_for_event(&bkeys.public_key(), relays).unwrap();
    let kp = EventBuilder::new(Kind::MlsKeyPackage, hex).tags(tags).sign_with_keys(&bkeys).unwrap();
    let res = a.mdk.create_group(&a.pk(), vec![kp, c.key_package()], config(vec![a.pk()])).unwrap();
    let gid = res.group.mls_group_id.clone();
    a.mdk.merge_pending_commit(&gid).unwrap();
    let w = bob.process_welcome(&fresh_id(), &res.welcome_rumors[0]).unwrap();
    bob.accept_welcome(&w).unwrap();
    c.join(&res.welcome_rumors[1]);

    let su = c.mdk.self_update(&gid).unwrap();
    c.mdk.merge_pending_commit(&gid).unwrap();
    a.must(&su.evolution_event);
    bob.process_message(&su.evolution_event).unwrap();

    let rm = a.mdk.remove_members(&gid, &[bkeys.public_key()]).unwrap();
    a.mdk.merge_pending_commit(&gid).unwrap();
    c.must(&rm.evolution_event);
    bob.process_message(&rm.evolution_event).unwrap();
    let m = a.send(&gid, "SECRET after removal");
    drop(bob);
    let bob = MDK::new(MdkSqliteStorage::new_unencrypted(&path).unwrap());
    assert_eq!(bob.get_group(&gid).unwrap().unwrap().state, group_types::GroupState::Inactive);
    let r = bob.process_message(&m);
    assert!(plaintext_of(&r).is_none());
    let _ = bob.process_message(&su.evolution_event);
    let _ = bob.process_message(&rm.evolution_event);
    let r = bob.process_message(&m);
    assert!(plaintext_of(&r).is_none());
    assert!(bob.get_messages(&gid, None).unwrap().is_empty());
    let rumor = EventBuilder::new(Kind::TextNote, "x").build(bkeys.public_key());
    assert!(bob.create_message(&gid, rumor).is_err());
}

/// the same ciphertext under a new wrapper with another timestamp (needs no key at all)
pub fn rewrap(ev: &Event, created_at: u64) -> Event {
    EventBuilder::new(ev.kind, ev.content.clone())
        .tags(ev.tags.clone())
        .custom_created_at(nostr::Timestamp::from(created_at))
        .sign_with_keys(&Keys::generate())
        .unwrap()
}

// ---------------------------------------------------------------------------------------------
// H16: an observer re-publishes an OLD, already applied commit under a new wrapper with an
//      earlier timestamp. Do the members roll back behind the removal of bob, and can the
//      removal be applied again?
// ---------------------------------------------------------------------------------------------
#[test]
fn h16_rewrapped_old_commit_undoes_removal() {
    let a = Client::new("alice");
    let b = Client::new("bob");
    let c = Client::new("carol");
    let (gid, _) = make_group(&a, &[&b, &c], vec![a.pk()]);

    // K: carol's self-update, epoch 1 -> 2, applied by everybody
    let k = c.mdk.self_update(&gid).unwrap().evolution_event;
    c.must(&k);
    let _ = c.mdk.merge_pending_commit(&gid);
    a.must(&k);
    b.must(&k);

    // R: alice removes bob, epoch 2 -> 3
    let r = a.mdk.remove_members(&gid, &[b.pk()]).unwrap().evolution_event;
    a.must(&r);
    let _ = a.mdk.merge_pending_commit(&gid);
    c.must(&r);
    assert!(!a.mdk.get_members(&gid).unwrap().contains(&b.pk()));
    assert!(!c.mdk.get_members(&gid).unwrap().contains(&b.pk()));
    let m1 = a.send(&gid, "SECRET 1 after removal");
    c.must(&m1);
    assert!(plaintext_of(&b.feed(&m1)).is_none());

    // the observer re-wraps K
    let k2 = rewrap(&k, k.created_at.as_secs() - 5);
    println!("alice K': {:?}", a.feed(&k2));
    println!("carol K': {:?}", c.feed(&k2));
    println!(
        "alice epoch {} members {}, carol epoch {} members {}",
        a.epoch(&gid),
        a.mdk.get_members(&gid).unwrap().len(),
        c.epoch(&gid),
        c.mdk.get_members(&gid).unwrap().len()
    );
    // the relay delivers R again
    println!("alice R again: {:?}", a.feed(&r));
    println!("carol R again: {:?}", c.feed(&r));
    println!(
        "alice epoch {} bob member: {}, carol epoch {} bob member: {}",
        a.epoch(&gid),
        a.mdk.get_members(&gid).unwrap().contains(&b.pk()),
        c.epoch(&gid),
        c.mdk.get_members(&gid).unwrap().contains(&b.pk())
    );
    let m2 = a.try_send(&gid, "SECRET 2 after removal and replay");
    println!("alice sends: {:?}", m2.as_ref().map(|_| ()));
    if let Ok(m2) = m2 {
        let rb = b.feed(&m2);
        println!("bob (never processed R) reads: {:?}", plaintext_of(&rb));
        println!("carol reads: {:?}", plaintext_of(&c.feed(&m2)));
        assert!(
            plaintext_of(&rb).is_none(),
            "bob, removed by R which alice and carol had applied, reads a message alice sent afterwards"
        );
    }
}
