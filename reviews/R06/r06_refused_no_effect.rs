//! R06 / C06: whenever process_message reports failure, nothing observable changes.

mod r06_common;

use mdk_core::groups::NostrGroupDataUpdate;
use nostr::{EventBuilder, JsonUtil, Keys, Kind, Timestamp};
use openmls::prelude::*;
use r06_common::*;
use tls_codec::Serialize as _;

struct World {
    alice: mdk_core::MDK<mdk_memory_storage::MdkMemoryStorage>,
    bob: mdk_core::MDK<mdk_memory_storage::MdkMemoryStorage>,
    carol: mdk_core::MDK<mdk_memory_storage::MdkMemoryStorage>,
    ak: Keys,
    bk: Keys,
    ck: Keys,
    gid: mdk_storage_traits::GroupId,
}

fn world() -> World {
    let (alice, bob, carol) = (memory(), memory(), memory());
    let (ak, bk, ck) = (Keys::generate(), Keys::generate(), Keys::generate());
    let gid = make_group(&alice, &ak, &bob, &bk, &carol, &ck, vec![ak.public_key()]);
    World {
        alice,
        bob,
        carol,
        ak,
        bk,
        ck,
        gid,
    }
}

/// Feeds `event` to `receiver`; when the outcome is a failure, asserts that nothing changed.
fn check<S: mdk_storage_traits::MdkStorageProvider>(
    label: &str,
    receiver: &mdk_core::MDK<S>,
    event: &nostr::Event,
    problems: &mut Vec<String>,
) -> bool {
    let before = observe_all(receiver);
    let r = receiver.process_message(event);
    let after = observe_all(receiver);
    let d = diff(&before, &after);
    println!("[{label}] -> {}", short(&r));
    if is_failure(&r) && !d.is_empty() {
        problems.push(format!(
            "[{label}] reported {} but changed:\n  {}",
            short(&r),
            d.join("\n  ")
        ));
    }
    is_failure(&r)
}

#[test]
fn hostile_application_payloads() {
    let w = world();
    let mut problems = Vec::new();

    // Some honest traffic first so that there is something to lose
    let m = w.alice.create_message(&w.gid, rumor(&w.ak, "hello")).unwrap();
    w.bob.process_message(&m).unwrap();

    // A: not JSON
    let e = raw_app_message(&w.carol, &w.gid, b"\xff\xfe not json");
    assert!(check("app: not json", &w.bob, &e, &mut problems));
    // B: JSON, not an event
    let e = raw_app_message(&w.carol, &w.gid, b"{\"a\":1}");
    assert!(check("app: json not event", &w.bob, &e, &mut problems));
    // C: a rumor in Alice's name sent by Carol
    let mut forged = rumor(&w.ak, "I am Alice");
    forged.ensure_id();
    let e = raw_app_message(&w.carol, &w.gid, forged.as_json().as_bytes());
    assert!(check("app: author mismatch", &w.bob, &e, &mut problems));
    // D: a rumor whose id is somebody else's message id
    let stored = w.bob.get_messages(&w.gid, None).unwrap()[0].clone();
    let mut stolen = rumor(&w.ck, "overwrite");
    stolen.id = Some(stored.id);
    let e = raw_app_message(&w.carol, &w.gid, stolen.as_json().as_bytes());
    assert!(check("app: stolen id", &w.bob, &e, &mut problems));
    // E: huge timestamps / kinds inside the rumor
    let mut odd = EventBuilder::new(Kind::Custom(65535), "x")
        .custom_created_at(Timestamp::from_secs(u64::MAX))
        .build(w.ck.public_key());
    odd.ensure_id();
    let e = raw_app_message(&w.carol, &w.gid, odd.as_json().as_bytes());
    check("app: created_at u64::MAX", &w.bob, &e, &mut problems);
    // F: empty payload
    let e = raw_app_message(&w.carol, &w.gid, b"");
    assert!(check("app: empty", &w.bob, &e, &mut problems));

    // Carol's honest message after all that is still readable
    let m = w.carol.create_message(&w.gid, rumor(&w.ck, "honest")).unwrap();
    let r = w.bob.process_message(&m);
    println!("honest after hostile -> {}", short(&r));
    assert!(!is_failure(&r), "honest message after hostile ones is lost");

    // Replays of the refused events
    let e = raw_app_message(&w.carol, &w.gid, b"again");
    check("first", &w.bob, &e, &mut problems);
    check("replay", &w.bob, &e, &mut problems);

    assert!(problems.is_empty(), "\n{}", problems.join("\n"));
}

#[test]
fn refused_commit_keeps_pending_commit_and_proposals() {
    let w = world();
    let mut problems = Vec::new();

    // Carol proposes to remove Alice (stored as pending at Bob, non-admin)
    let leave = w.carol.leave_group(&w.gid).unwrap();
    let r = w.bob.process_message(&leave.evolution_event);
    println!("carol leave at bob -> {}", short(&r));

    // Bob has an own pending commit (self update)
    let _bob_update = w.bob.self_update(&w.gid).unwrap();
    assert!(load_group(&w.bob, &w.gid).pending_commit().is_some());

    // Carol (non-admin) commits an Add: refused at Bob
    let dave = memory();
    let dk = Keys::generate();
    let dave_kp_event = key_package_event(&dave, &dk);
    let kp = w.carol.parse_key_package(&dave_kp_event).unwrap();
    let mut cg = load_group(&w.carol, &w.gid);
    let cs = signer(&w.carol, &cg);
    cg.clear_pending_proposals(w.carol.provider.storage()).unwrap();
    let (commit, _welcome, _) = cg.add_members(&w.carol.provider, &cs, &[kp]).unwrap();
    let bytes = commit.tls_serialize_detached().unwrap();
    // wrap under the exporter secret of the epoch the commit was made in
    let cg_before = load_group(&w.carol, &w.gid);
    let e = wrap(&w.carol, &w.gid, &cg_before, &bytes);
    assert!(check("non-admin commit", &w.bob, &e, &mut problems));

    // Bob can still merge his own pending commit
    assert!(load_group(&w.bob, &w.gid).pending_commit().is_some());
    w.bob.merge_pending_commit(&w.gid).unwrap();

    assert!(problems.is_empty(), "\n{}", problems.join("\n"));
}

#[test]
fn ignored_proposals_change_nothing() {
    let w = world();
    let mut problems = Vec::new();

    // Update proposal from Carol
    let mut cg = load_group(&w.carol, &w.gid);
    let cs = signer(&w.carol, &cg);
    let (msg, _) = cg
        .propose_self_update(&w.carol.provider, &cs, LeafNodeParameters::default())
        .unwrap();
    let e = wrap(
        &w.carol,
        &w.gid,
        &cg,
        &msg.tls_serialize_detached().unwrap(),
    );
    assert!(check("update proposal @bob", &w.bob, &e, &mut problems));
    assert!(check("update proposal @alice", &w.alice, &e, &mut problems));

    // GroupContextExtensions proposal from Carol (required capabilities only: drops the
    // group data extension)
    let mut cg = load_group(&w.carol, &w.gid);
    let ext = cg.extensions().clone();
    let r = cg.propose_group_context_extensions(&w.carol.provider, ext, &cs);
    if let Ok((msg, _)) = r {
        let e = wrap(
            &w.carol,
            &w.gid,
            &cg,
            &msg.tls_serialize_detached().unwrap(),
        );
        assert!(check("gce proposal @bob", &w.bob, &e, &mut problems));
        assert!(check("gce proposal @alice", &w.alice, &e, &mut problems));
    } else {
        println!("could not build GCE proposal: {:?}", r.err().map(|e| e.to_string()));
    }

    // The next honest commit from Alice still applies at Bob
    let upd = w
        .alice
        .update_group_data(&w.gid, NostrGroupDataUpdate::new().name("after"))
        .unwrap();
    w.alice.merge_pending_commit(&w.gid).unwrap();
    let r = w.bob.process_message(&upd.evolution_event);
    println!("honest commit after ignored proposals -> {}", short(&r));
    assert!(!is_failure(&r));

    assert!(problems.is_empty(), "\n{}", problems.join("\n"));
}

#[test]
fn commit_that_cannot_be_stored_is_fully_undone() {
    // Bob on SQLite (name limit 255 bytes); Alice, admin, commits a 300-byte name.
    let (alice, carol) = (memory(), memory());
    let (bob, _dir) = sqlite();
    let (ak, bk, ck) = (Keys::generate(), Keys::generate(), Keys::generate());
    let gid = make_group(&alice, &ak, &bob, &bk, &carol, &ck, vec![ak.public_key()]);
    let mut problems = Vec::new();

    // a second, unrelated group at Bob
    let other_gid = {
        let (x, xk) = (memory(), Keys::generate());
        let kp = key_package_event(&bob, &bk);
        let created = x
            .create_group(&xk.public_key(), vec![kp], config(vec![xk.public_key()]))
            .unwrap();
        let w = bob
            .process_welcome(
                &nostr::EventId::from_slice(&[0xdd; 32]).unwrap(),
                &created.welcome_rumors[0],
            )
            .unwrap();
        bob.accept_welcome(&w).unwrap();
        created.group.mls_group_id
    };
    let _ = other_gid;

    let m = alice.create_message(&gid, rumor(&ak, "one")).unwrap();
    bob.process_message(&m).unwrap();
    // pending proposal + own pending commit at Bob
    let leave = carol.leave_group(&gid).unwrap();
    println!(
        "leave at bob -> {}",
        short(&bob.process_message(&leave.evolution_event))
    );
    bob.self_update(&gid).unwrap();

    let upd = alice
        .update_group_data(&gid, NostrGroupDataUpdate::new().name("n".repeat(300)))
        .unwrap();
    assert!(check("unstorable commit", &bob, &upd.evolution_event, &mut problems));
    assert!(check("unstorable commit again", &bob, &upd.evolution_event, &mut problems));

    // Alice's earlier-epoch message is still readable at Bob
    let m2 = alice.create_message(&gid, rumor(&ak, "two")).unwrap();
    let r = bob.process_message(&m2);
    println!("same-epoch message after refused commit -> {}", short(&r));
    assert!(!is_failure(&r));

    assert!(problems.is_empty(), "\n{}", problems.join("\n"));
}

#[test]
fn inactive_group_and_wrapper_level_garbage() {
    let w = world();
    let mut problems = Vec::new();

    let m = w.alice.create_message(&w.gid, rumor(&w.ak, "hello")).unwrap();
    w.bob.process_message(&m).unwrap();

    let group = load_group(&w.alice, &w.gid);
    let nostr_gid = w.alice.get_group(&w.gid).unwrap().unwrap().nostr_group_id;
    let exp = exporter_keys(&w.alice, &group);

    // outer-event garbage
    let now = Timestamp::now().as_secs();
    for (label, ts) in [
        ("ts=0", 0u64),
        ("ts=u64::MAX", u64::MAX),
        ("ts=i64::MAX", i64::MAX as u64),
        ("ts=future", now + 10_000),
    ] {
        let e = wrap_with(&exp, &nostr_gid, b"junk", Some(Timestamp::from_secs(ts)));
        assert!(check(label, &w.bob, &e, &mut problems));
    }
    for payload in [&b"\x00"[..], &b"\x00\x01\x00\x02"[..], &[0xffu8; 60000][..]] {
        let e = wrap_with(&exp, &nostr_gid, payload, None);
        assert!(check("junk mls bytes", &w.bob, &e, &mut problems));
    }
    // raw content strings
    for content in [
        "".to_string(),
        "A".to_string(),
        "AA==".to_string(),
        "Ag==".to_string(),
        "#".repeat(100),
        "A".repeat(131),
        "A".repeat(132),
        "Ag".to_string() + &"A".repeat(200),
        "é".repeat(50),
    ] {
        let e = EventBuilder::new(Kind::MlsGroupMessage, content)
            .tag(nostr::Tag::custom(
                nostr::TagKind::h(),
                [hex::encode(nostr_gid)],
            ))
            .sign_with_keys(&Keys::generate())
            .unwrap();
        assert!(check("raw content", &w.bob, &e, &mut problems));
    }
    // h tag garbage
    for tags in [
        vec![],
        vec![vec!["h".to_string()]],
        vec![vec!["h".to_string(), "zz".repeat(32)]],
        vec![vec!["h".to_string(), "é".repeat(32)]],
        vec![vec!["h".to_string(), hex::encode(nostr_gid), "x".to_string()]],
        vec![
            vec!["h".to_string(), hex::encode(nostr_gid)],
            vec!["h".to_string(), hex::encode(nostr_gid)],
        ],
    ] {
        let tags: Vec<nostr::Tag> = tags
            .into_iter()
            .filter_map(|t| nostr::Tag::parse(t).ok())
            .collect();
        let e = EventBuilder::new(Kind::MlsGroupMessage, "x")
            .tags(tags)
            .sign_with_keys(&Keys::generate())
            .unwrap();
        check("h tag garbage", &w.bob, &e, &mut problems);
    }

    // Bob is removed; later traffic for the inactive group
    let removal = w
        .alice
        .remove_members(&w.gid, &[w.bk.public_key()])
        .unwrap();
    w.alice.merge_pending_commit(&w.gid).unwrap();
    println!(
        "removal at bob -> {}",
        short(&w.bob.process_message(&removal.evolution_event))
    );
    w.carol.process_message(&removal.evolution_event).unwrap();
    // a message of the old epoch that Bob could still decrypt
    let e = raw_app_message(&w.carol, &w.gid, b"x");
    check("message of new epoch for removed member", &w.bob, &e, &mut problems);
    let e = wrap_with(&exp, &nostr_gid, b"junk", None);
    assert!(check("old-epoch junk for inactive group", &w.bob, &e, &mut problems));
    // A commit of the OLD epoch, validly encrypted, after the eviction
    let mut cg = MlsGroup::load(w.carol.provider.storage(), w.gid.inner())
        .unwrap()
        .unwrap();
    let cs = signer(&w.carol, &cg);
    let (msg, _) = cg
        .propose_self_update(&w.carol.provider, &cs, LeafNodeParameters::default())
        .unwrap();
    let e = wrap(&w.carol, &w.gid, &cg, &msg.tls_serialize_detached().unwrap());
    check("proposal for inactive group", &w.bob, &e, &mut problems);

    assert!(problems.is_empty(), "\n{}", problems.join("\n"));
}
