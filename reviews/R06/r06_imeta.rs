//! R06 / C06: malformed imeta tags and media inputs (feature mip04) never panic.
#![cfg(feature = "mip04")]

mod r06_common;

use std::panic::{AssertUnwindSafe, catch_unwind};

use nostr::{Keys, Tag};
use r06_common::*;

#[test]
fn malformed_imeta_tags_and_media() {
    let alice = memory();
    let ak = Keys::generate();
    let gid = alice
        .create_group(&ak.public_key(), vec![], config(vec![ak.public_key()]))
        .unwrap()
        .group
        .mls_group_id;
    let mgr = alice.media_manager(gid.clone());
    let mut panics = Vec::new();

    let x = "00".repeat(32);
    let n = "00".repeat(12);
    let base = vec![
        "imeta".to_string(),
        "url https://x/y".to_string(),
        "m image/png".to_string(),
        "filename a.png".to_string(),
        format!("x {x}"),
        format!("n {n}"),
        "v mip04-v2".to_string(),
    ];
    let mut variants: Vec<Vec<String>> = vec![base.clone(), vec!["imeta".into()], vec![]];
    let fields = [
        "", " ", "x", "x ", "x  ", "x é", "n é", "dim", "dim x", "dim 1x", "dim x1", "dim 4294967296x1",
        "dim -1x-1", "dim 1x1x1", "dim 0x0", "m", "m /", "m ;", "m image/png;;;", "m \u{0}",
        "filename ", "filename ../x", "filename \u{0}", "v", "v mip04-v1", "v \u{feff}", "url",
        "url  ", "blurhash", "x zz", "n 00", "x 0", "é é",
    ];
    for f in fields {
        for pos in 1..base.len() {
            let mut v = base.clone();
            v[pos] = f.to_string();
            variants.push(v);
        }
        let mut v = base.clone();
        v.push(f.to_string());
        variants.push(v);
    }
    let long = "a".repeat(200_000);
    variants.push(vec!["imeta".into(), format!("filename {long}"), format!("m {long}"), format!("url {long}"), format!("x {long}"), format!("n {long}"), format!("v {long}")]);

    for v in variants {
        let Ok(tag) = Tag::parse(v.clone()) else { continue };
        let r = catch_unwind(AssertUnwindSafe(|| {
            if let Ok(reference) = mgr.parse_imeta_tag(&tag) {
                for data in [&b""[..], &[0u8; 15][..], &[0u8; 16][..], &[0u8; 17][..]] {
                    let _ = mgr.decrypt_from_download(data, &reference);
                }
            }
        }));
        if r.is_err() {
            panics.push(format!("{:?}", v.iter().map(|s| s.chars().take(30).collect::<String>()).collect::<Vec<_>>()));
        }
    }

    for (data, mime, name) in [
        (&b""[..], "", ""),
        (&b""[..], "image/png", "a.png"),
        (&b"\x89PNG\r\n\x1a\n"[..], "image/png", "a.png"),
        (&b"x"[..], "application/octet-stream", "a"),
        (&b"x"[..], "text/plain", "\u{0}"),
        (&b"x"[..], "text/plain; charset=\u{feff}", "é".repeat(300).leak() as &str),
        (&b"x"[..], "TEXT/PLAIN ;;", "a/b"),
        (&b"GIF89a"[..], "image/gif", "a.gif"),
    ] {
        let r = catch_unwind(AssertUnwindSafe(|| {
            if let Ok(up) = mgr.encrypt_for_upload(data, mime, name) {
                let tag = mgr.create_imeta_tag(&up, "https://x/y");
                let reference = mgr.parse_imeta_tag(&tag).unwrap();
                let _ = mgr.decrypt_from_download(&up.encrypted_data, &reference);
            }
        }));
        if r.is_err() {
            panics.push(format!("encrypt_for_upload {mime:?} {name:?}"));
        }
    }
    assert!(panics.is_empty(), "panics:\n{}", panics.join("\n"));
}
