//! R06 / C06: group-image preparation must return a result for any bytes, never panic.

use std::io::Cursor;
use std::panic::{AssertUnwindSafe, catch_unwind};

use image::{DynamicImage, ImageFormat};
use mdk_core::extension::group_image::{decrypt_group_image, prepare_group_image_for_upload};

struct Rng(u64);
impl Rng {
    fn next(&mut self) -> u64 {
        let mut x = self.0;
        x ^= x << 13;
        x ^= x >> 7;
        x ^= x << 17;
        self.0 = x;
        x
    }
    fn below(&mut self, n: usize) -> usize {
        (self.next() % n as u64) as usize
    }
}

fn encode(img: &DynamicImage, fmt: ImageFormat) -> Option<Vec<u8>> {
    let mut out = Cursor::new(Vec::new());
    img.write_to(&mut out, fmt).ok()?;
    Some(out.into_inner())
}

fn mime(fmt: ImageFormat) -> &'static str {
    match fmt {
        ImageFormat::Png => "image/png",
        ImageFormat::Jpeg => "image/jpeg",
        ImageFormat::Gif => "image/gif",
        ImageFormat::WebP => "image/webp",
        _ => unreachable!(),
    }
}

fn try_one(label: &str, data: &[u8], mime: &str, panics: &mut Vec<String>) {
    let r = catch_unwind(AssertUnwindSafe(|| {
        let _ = prepare_group_image_for_upload(data, mime);
    }));
    if r.is_err() {
        let head: Vec<u8> = data.iter().take(48).cloned().collect();
        panics.push(format!(
            "{label} mime={mime} len={} head={}",
            data.len(),
            hex::encode(head)
        ));
    }
}

fn seeds() -> Vec<(String, Vec<u8>, &'static str)> {
    let mut out = Vec::new();
    let dims: &[(u32, u32)] = &[
        (1, 1),
        (1, 2),
        (2, 1),
        (3, 3),
        (1, 3000),
        (3000, 1),
        (33, 1),
        (31, 65),
        (64, 64),
    ];
    for &(w, h) in dims {
        let variants: Vec<(&str, DynamicImage)> = vec![
            ("l8", DynamicImage::new_luma8(w, h)),
            ("la8", DynamicImage::new_luma_a8(w, h)),
            ("rgb8", DynamicImage::new_rgb8(w, h)),
            ("rgba8", DynamicImage::new_rgba8(w, h)),
            ("l16", DynamicImage::new_luma16(w, h)),
            ("la16", DynamicImage::new_luma_a16(w, h)),
            ("rgb16", DynamicImage::new_rgb16(w, h)),
            ("rgba16", DynamicImage::new_rgba16(w, h)),
        ];
        for (name, img) in variants {
            for fmt in [
                ImageFormat::Png,
                ImageFormat::Jpeg,
                ImageFormat::Gif,
                ImageFormat::WebP,
            ] {
                if let Some(bytes) = encode(&img, fmt) {
                    out.push((format!("{name}-{w}x{h}-{fmt:?}"), bytes, mime(fmt)));
                }
            }
        }
    }
    out
}

#[test]
fn valid_odd_images_do_not_panic() {
    let mut panics = Vec::new();
    for (label, bytes, m) in seeds() {
        try_one(&label, &bytes, m, &mut panics);
    }
    assert!(panics.is_empty(), "panics:\n{}", panics.join("\n"));
}

#[test]
fn handcrafted_headers_do_not_panic() {
    let mut panics = Vec::new();

    // GIF with a 0x0 logical screen and a 0x0 frame
    let mut gif = Vec::new();
    gif.extend_from_slice(b"GIF89a");
    gif.extend_from_slice(&[0, 0, 0, 0, 0x80, 0, 0]); // 0x0 screen, global table of 2
    gif.extend_from_slice(&[0, 0, 0, 255, 255, 255]);
    gif.extend_from_slice(&[0x2c, 0, 0, 0, 0, 0, 0, 0, 0, 0]); // image descriptor 0x0
    gif.extend_from_slice(&[2, 2, 0x4c, 0x01, 0, 0x3b]);
    try_one("gif-0x0", &gif, "image/gif", &mut panics);

    // GIF 65535x65535 screen, 1x1 frame
    let mut gif2 = Vec::new();
    gif2.extend_from_slice(b"GIF89a");
    gif2.extend_from_slice(&[0xff, 0xff, 0xff, 0xff, 0x80, 0, 0]);
    gif2.extend_from_slice(&[0, 0, 0, 255, 255, 255]);
    gif2.extend_from_slice(&[0x2c, 0, 0, 0, 0, 1, 0, 1, 0, 0]);
    gif2.extend_from_slice(&[2, 2, 0x4c, 0x01, 0, 0x3b]);
    try_one("gif-huge-screen", &gif2, "image/gif", &mut panics);

    // PNG with IHDR 0x0 / huge / odd bit depth
    fn png_with_ihdr(w: u32, h: u32, depth: u8, color: u8) -> Vec<u8> {
        let mut v = vec![0x89, b'P', b'N', b'G', 0x0d, 0x0a, 0x1a, 0x0a];
        let mut ihdr = Vec::new();
        ihdr.extend_from_slice(b"IHDR");
        ihdr.extend_from_slice(&w.to_be_bytes());
        ihdr.extend_from_slice(&h.to_be_bytes());
        ihdr.extend_from_slice(&[depth, color, 0, 0, 0]);
        v.extend_from_slice(&13u32.to_be_bytes());
        v.extend_from_slice(&ihdr);
        v.extend_from_slice(&crc32(&ihdr).to_be_bytes());
        // empty IDAT + IEND
        let idat = b"IDAT".to_vec();
        v.extend_from_slice(&0u32.to_be_bytes());
        v.extend_from_slice(&idat);
        v.extend_from_slice(&crc32(&idat).to_be_bytes());
        let iend = b"IEND".to_vec();
        v.extend_from_slice(&0u32.to_be_bytes());
        v.extend_from_slice(&iend);
        v.extend_from_slice(&crc32(&iend).to_be_bytes());
        v
    }
    fn crc32(data: &[u8]) -> u32 {
        let mut crc = 0xffff_ffffu32;
        for &b in data {
            crc ^= b as u32;
            for _ in 0..8 {
                crc = if crc & 1 != 0 {
                    (crc >> 1) ^ 0xedb8_8320
                } else {
                    crc >> 1
                };
            }
        }
        !crc
    }
    for (w, h, d, c) in [
        (0u32, 0u32, 8u8, 2u8),
        (0, 1, 8, 2),
        (1, 0, 8, 2),
        (u32::MAX, u32::MAX, 8, 6),
        (0x7fff_ffff, 1, 16, 6),
        (1, 1, 1, 0),
        (1, 1, 3, 3),
        (16384, 16384, 8, 6),
        (16384, 3000, 8, 6),
    ] {
        try_one(
            &format!("png-ihdr-{w}x{h}-d{d}c{c}"),
            &png_with_ihdr(w, h, d, c),
            "image/png",
            &mut panics,
        );
    }

    // WebP: RIFF header with VP8X canvas 0/huge and no frames
    for (cw, ch) in [(0u32, 0u32), (0xff_ffff, 0xff_ffff), (1, 1)] {
        let mut w = Vec::new();
        w.extend_from_slice(b"RIFF");
        w.extend_from_slice(&22u32.to_le_bytes());
        w.extend_from_slice(b"WEBPVP8X");
        w.extend_from_slice(&10u32.to_le_bytes());
        w.extend_from_slice(&[0, 0, 0, 0]);
        w.extend_from_slice(&cw.to_le_bytes()[..3]);
        w.extend_from_slice(&ch.to_le_bytes()[..3]);
        try_one(&format!("webp-vp8x-{cw}x{ch}"), &w, "image/webp", &mut panics);
    }

    // Tiny / empty inputs with every accepted MIME type
    for m in [
        "image/png",
        "image/jpeg",
        "image/gif",
        "image/webp",
        "image/bmp",
        "image/x-icon",
        "image/tiff",
        "image/x-farbfeld",
        "image/avif",
        "image/qoi",
        "",
        "/",
        "image/png;",
        ";image/png",
        "IMAGE/PNG ; q=\u{0}",
        "\u{feff}image/png",
    ] {
        for data in [
            &b""[..],
            &b"\x89PNG\r\n\x1a\n"[..],
            &b"\xff\xd8\xff"[..],
            &b"GIF89a"[..],
            &b"RIFF\0\0\0\0WEBP"[..],
            &b"BM"[..],
            &b"farbfeld\0\0\0\0\0\0\0\0"[..],
            &b"qoif\0\0\0\0\0\0\0\0\x04\x00"[..],
            &b"II*\0\x08\0\0\0"[..],
            &b"\0\0\x01\0\x01\0"[..],
        ] {
            try_one("tiny", data, m, &mut panics);
        }
    }

    assert!(panics.is_empty(), "panics:\n{}", panics.join("\n"));
}

#[test]
fn mutated_images_do_not_panic() {
    let seeds = seeds();
    let mut rng = Rng(0x5eed_c0de_1234_5678);
    let mut panics = Vec::new();
    let started = std::time::Instant::now();
    let mut n = 0usize;
    'outer: for round in 0..40 {
        for (label, bytes, m) in &seeds {
            if bytes.len() > 20_000 {
                continue;
            }
            let mut data = bytes.clone();
            match rng.below(4) {
                0 => {
                    let cut = rng.below(data.len().max(1));
                    data.truncate(cut);
                }
                1 => {
                    for _ in 0..1 + rng.below(4) {
                        let i = rng.below(data.len());
                        data[i] = rng.next() as u8;
                    }
                }
                2 => {
                    // header area only
                    for _ in 0..1 + rng.below(3) {
                        let i = rng.below(data.len().min(64));
                        data[i] ^= 1 << rng.below(8);
                    }
                }
                _ => {
                    let i = rng.below(data.len());
                    let extra: Vec<u8> = (0..rng.below(32)).map(|_| rng.next() as u8).collect();
                    data.splice(i..i, extra);
                }
            }
            try_one(&format!("mut{round}-{label}"), &data, m, &mut panics);
            n += 1;
            if started.elapsed().as_secs() > 240 || panics.len() > 5 {
                break 'outer;
            }
        }
    }
    println!("mutated inputs tried: {n}");
    assert!(panics.is_empty(), "panics:\n{}", panics.join("\n"));
}

#[test]
fn decrypt_group_image_odd_lengths() {
    use mdk_storage_traits::Secret;
    for len in [0usize, 1, 15, 16, 17, 31] {
        let data = vec![0u8; len];
        let r = catch_unwind(|| {
            let _ = decrypt_group_image(&data, None, &Secret::new([1u8; 32]), &Secret::new([2u8; 12]));
        });
        assert!(r.is_ok(), "decrypt_group_image panicked for length {len}");
    }
}
