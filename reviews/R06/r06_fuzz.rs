//! R06 / C06: structure-aware mutation of valid inputs: no panic, no effect on failure.

mod r06_common;

use std::panic::{AssertUnwindSafe, catch_unwind};

use mdk_core::groups::NostrGroupDataUpdate;
use nostr::base64::Engine;
use nostr::base64::engine::general_purpose::STANDARD as BASE64;
use nostr::{EventBuilder, EventId, Keys, Tag, UnsignedEvent};
use openmls::prelude::*;
use r06_common::*;
use tls_codec::Serialize as _;

fn mutate(rng: &mut Rng, src: &[u8]) -> Vec<u8> {
    let mut data = src.to_vec();
    match rng.below(6) {
        0 => {
            let cut = rng.below(data.len());
            data.truncate(cut);
        }
        1 => {
            for _ in 0..1 + rng.below(3) {
                let i = rng.below(data.len());
                data[i] = rng.next() as u8;
            }
        }
        2 => {
            // header area
            for _ in 0..1 + rng.below(3) {
                let i = rng.below(data.len().min(80));
                data[i] ^= 1 << rng.below(8);
            }
        }
        3 => {
            let i = rng.below(data.len());
            let extra: Vec<u8> = (0..rng.below(16)).map(|_| rng.next() as u8).collect();
            data.splice(i..i, extra);
        }
        4 => {
            // length-prefix abuse: set a byte to 0xff / 0x7f / 0x40 / 0x80
            let i = rng.below(data.len().min(120));
            data[i] = [0xff, 0x7f, 0x40, 0x80, 0xbf, 0xc0][rng.below(6)];
        }
        _ => {
            let i = rng.below(data.len());
            let j = (i + 1 + rng.below(8)).min(data.len());
            data.drain(i..j);
        }
    }
    data
}

#[test]
fn mutated_mls_payloads_under_the_right_exporter_secret() {
    let (alice, bob, carol) = (memory(), memory(), memory());
    let (ak, bk, ck) = (Keys::generate(), Keys::generate(), Keys::generate());
    let gid = make_group(&alice, &ak, &bob, &bk, &carol, &ck, vec![ak.public_key()]);
    let nostr_gid = alice.get_group(&gid).unwrap().unwrap().nostr_group_id;

    // valid payloads of the current epoch (never delivered unmodified)
    let mut payloads: Vec<(String, Vec<u8>)> = Vec::new();
    let exp = exporter_keys(&carol, &load_group(&carol, &gid));
    {
        let mut g = load_group(&carol, &gid);
        let s = signer(&carol, &g);
        let mut r = rumor(&ck, "hi");
        r.ensure_id();
        let m = g
            .create_message(&carol.provider, &s, nostr::JsonUtil::as_json(&r).as_bytes())
            .unwrap();
        payloads.push(("app".into(), m.tls_serialize_detached().unwrap()));
        let (m, _) = g
            .propose_self_update(&carol.provider, &s, LeafNodeParameters::default())
            .unwrap();
        payloads.push(("update-proposal".into(), m.tls_serialize_detached().unwrap()));
        let (m, _) = g
            .propose_remove_member(&carol.provider, &s, LeafNodeIndex::new(1))
            .unwrap();
        payloads.push(("remove-proposal".into(), m.tls_serialize_detached().unwrap()));
        let dave = memory();
        let dk = Keys::generate();
        let kp = carol
            .parse_key_package(&key_package_event(&dave, &dk))
            .unwrap();
        let (m, _) = g.propose_add_member(&carol.provider, &s, &kp).unwrap();
        payloads.push(("add-proposal".into(), m.tls_serialize_detached().unwrap()));
        g.clear_pending_proposals(carol.provider.storage()).unwrap();
        let bundle = g
            .self_update(&carol.provider, &s, LeafNodeParameters::default())
            .unwrap();
        payloads.push((
            "self-update-commit".into(),
            bundle.commit().tls_serialize_detached().unwrap(),
        ));
    }
    {
        let mut g = load_group(&alice, &gid);
        let s = signer(&alice, &g);
        let dave = memory();
        let dk = Keys::generate();
        let kp = alice
            .parse_key_package(&key_package_event(&dave, &dk))
            .unwrap();
        let (m, _, _) = g.add_members(&alice.provider, &s, &[kp]).unwrap();
        payloads.push(("admin-add-commit".into(), m.tls_serialize_detached().unwrap()));
    }

    let mut rng = Rng(0x0bad_5eed_0bad_5eed);
    let mut problems = Vec::new();
    let mut tried = 0usize;
    let mut accepted = 0usize;
    for round in 0..60 {
        for (label, bytes) in &payloads {
            let mutated = mutate(&mut rng, bytes);
            if mutated.is_empty() || mutated.len() > 65000 {
                continue;
            }
            let event = wrap_with(&exp, &nostr_gid, &mutated, None);
            let before = observe_all(&bob);
            let r = catch_unwind(AssertUnwindSafe(|| bob.process_message(&event)));
            tried += 1;
            match r {
                Err(_) => problems.push(format!(
                    "PANIC round {round} {label}: {}",
                    hex::encode(&mutated[..mutated.len().min(64)])
                )),
                Ok(r) => {
                    let after = observe_all(&bob);
                    let d = diff(&before, &after);
                    if is_failure(&r) {
                        if !d.is_empty() {
                            problems.push(format!(
                                "round {round} {label}: {} but changed:\n  {}",
                                short(&r),
                                d.join("\n  ")
                            ));
                        }
                    } else {
                        accepted += 1;
                        println!("round {round} {label}: accepted {}", short(&r));
                    }
                }
            }
            if problems.len() > 5 {
                break;
            }
        }
    }
    println!("tried {tried}, accepted {accepted}");
    assert!(problems.is_empty(), "\n{}", problems.join("\n"));
}

fn rebuild_rumor(src: &UnsignedEvent, content: String, tags: Vec<Tag>) -> UnsignedEvent {
    let mut r = EventBuilder::new(src.kind, content)
        .tags(tags)
        .custom_created_at(src.created_at)
        .build(src.pubkey);
    r.ensure_id();
    r
}

#[test]
fn mutated_welcomes() {
    let alice = memory();
    let ak = Keys::generate();
    let bob = memory();
    let bk = Keys::generate();
    let created = alice
        .create_group(
            &ak.public_key(),
            vec![key_package_event(&bob, &bk)],
            config(vec![ak.public_key()]),
        )
        .unwrap();
    let good = created.welcome_rumors[0].clone();
    let raw = BASE64.decode(&good.content).unwrap();
    let good_tags: Vec<Tag> = good.tags.iter().cloned().collect();

    let mut rng = Rng(0x77e1_c0de_77e1_c0de);
    let mut problems = Vec::new();
    let mut n = 0u8;
    let mut wrapper = || {
        n = n.wrapping_add(1);
        let mut id = [0u8; 32];
        id[0] = n;
        id[1] = rng_byte();
        EventId::from_slice(&id).unwrap()
    };
    fn rng_byte() -> u8 {
        use std::sync::atomic::{AtomicU8, Ordering};
        static C: AtomicU8 = AtomicU8::new(0);
        C.fetch_add(1, Ordering::Relaxed)
    }

    // byte-level mutations of the MLS welcome
    for i in 0..400 {
        let m = mutate(&mut rng, &raw);
        let rumor = rebuild_rumor(&good, BASE64.encode(&m), good_tags.clone());
        let mut wid = [0u8; 32];
        wid[..8].copy_from_slice(&(i as u64 + 1).to_be_bytes());
        let wid = EventId::from_slice(&wid).unwrap();
        let before = observe_all(&bob);
        let r = catch_unwind(AssertUnwindSafe(|| bob.process_welcome(&wid, &rumor)));
        match r {
            Err(_) => problems.push(format!("PANIC welcome mutation {i}")),
            Ok(Err(_)) => {
                let after = observe_all(&bob);
                let d = diff(&before, &after);
                let pending = bob.get_pending_welcomes(None).unwrap().len();
                if !d.is_empty() || pending != 0 {
                    problems.push(format!(
                        "welcome mutation {i}: Err but changed (pending welcomes {pending}):\n  {}",
                        d.join("\n  ")
                    ));
                }
            }
            Ok(Ok(w)) => {
                println!("welcome mutation {i} accepted: group {:?}", w.group_name);
                // undo, to keep the baseline empty
                let _ = bob.decline_welcome(&w);
            }
        }
        if problems.len() > 3 {
            break;
        }
    }
    let _ = &mut wrapper;

    // tag-level mutations
    let tag_sets: Vec<Vec<Vec<String>>> = vec![
        vec![],
        vec![vec!["relays".into()], vec!["e".into(), "x".into()], vec!["encoding".into(), "base64".into()]],
        vec![vec!["relays".into(), "not a url".into()], vec!["e".into(), "x".into()], vec!["encoding".into(), "base64".into()]],
        vec![vec!["relays".into(), "wss://a".into()], vec!["e".into(), "".into()], vec!["encoding".into(), "base64".into()]],
        vec![vec!["relays".into(), "wss://a".into()], vec!["e".into(), "zz".into()], vec!["encoding".into(), "BASE64".into()]],
        vec![vec!["relays".into(), "wss://a".into()], vec!["e".into(), "zz".into()], vec!["encoding".into(), "hex".into()]],
        vec![vec!["relays".into(), "wss://a".into()], vec!["e".into(), "zz".into()], vec!["encoding".into()]],
        vec![vec!["relays".into(), "wss://a".into()], vec!["e".into(), "zz".into()], vec!["encoding".into(), "base64".into()], vec!["client".into()]],
        vec![vec!["relays".into(), "wss://a".into()], vec!["e".into(), "zz".into()], vec!["encoding".into(), "base64".into()], vec!["client".into(), "".into()]],
        vec![vec!["relays".into(), "wss://".to_string() + &"a".repeat(70000)], vec!["e".into(), "zz".into()], vec!["encoding".into(), "base64".into()]],
        vec![vec!["relays".into(), "wss://a".into()], vec!["e".into(), "\u{0}".into()], vec!["encoding".into(), "base64".into()], vec!["encoding".into(), "base64".into()]],
    ];
    for (i, set) in tag_sets.into_iter().enumerate() {
        let tags: Vec<Tag> = set.into_iter().filter_map(|t| Tag::parse(t).ok()).collect();
        for content in [good.content.clone(), String::new(), "!!!".into(), "AAAA".into()] {
            let rumor = rebuild_rumor(&good, content, tags.clone());
            let mut wid = [0xeeu8; 32];
            wid[1] = i as u8;
            wid[2] = rng.next() as u8;
            wid[3] = rng.next() as u8;
            let wid = EventId::from_slice(&wid).unwrap();
            let before = observe_all(&bob);
            let r = catch_unwind(AssertUnwindSafe(|| bob.process_welcome(&wid, &rumor)));
            match r {
                Err(_) => problems.push(format!("PANIC welcome tag set {i}")),
                Ok(Err(_)) => {
                    let d = diff(&before, &observe_all(&bob));
                    if !d.is_empty() {
                        problems.push(format!("welcome tag set {i}: Err but changed: {d:?}"));
                    }
                }
                Ok(Ok(w)) => {
                    println!("welcome tag set {i} accepted");
                    let _ = bob.decline_welcome(&w);
                }
            }
        }
    }
    // rumor without id, wrong kind
    let mut no_id = good.clone();
    no_id.id = None;
    assert!(
        bob.process_welcome(&EventId::from_slice(&[0xabu8; 32]).unwrap(), &no_id)
            .is_err()
    );

    // After all the hostile attempts the honest invitation still works
    let w = bob
        .process_welcome(&EventId::from_slice(&[0xacu8; 32]).unwrap(), &good)
        .expect("honest welcome after hostile ones");
    bob.accept_welcome(&w).expect("accept honest welcome");

    assert!(problems.is_empty(), "\n{}", problems.join("\n"));
}

#[test]
fn mutated_key_package_events() {
    let bob = memory();
    let bk = Keys::generate();
    let alice = memory();
    let good = key_package_event(&bob, &bk);
    let raw = BASE64.decode(&good.content).unwrap();
    let good_tags: Vec<Tag> = good.tags.iter().cloned().collect();
    let mut rng = Rng(0x1234_5678_9abc_def1);
    let mut panics = Vec::new();

    for i in 0..600 {
        let m = mutate(&mut rng, &raw);
        let ev = EventBuilder::new(good.kind, BASE64.encode(&m))
            .tags(good_tags.clone())
            .sign_with_keys(&bk)
            .unwrap();
        if catch_unwind(AssertUnwindSafe(|| {
            let _ = alice.parse_key_package(&ev);
        }))
        .is_err()
        {
            panics.push(format!("content mutation {i}"));
        }
    }
    // tag mutations
    for i in 0..600 {
        let mut tags: Vec<Vec<String>> = good_tags.iter().map(|t| t.clone().to_vec()).collect();
        let ti = rng.below(tags.len());
        match rng.below(6) {
            0 => {
                tags.remove(ti);
            }
            1 => {
                tags[ti].truncate(1);
            }
            2 => {
                let vi = rng.below(tags[ti].len());
                tags[ti][vi] = ["", "0x", "0xZZZZ", "0x00010", "é0x001", "ééé", "0X0001", "\u{0}"]
                    [rng.below(8)]
                .to_string();
            }
            3 => {
                let dup = tags[ti].clone();
                tags.insert(0, dup);
            }
            4 => {
                tags[ti].push("x".repeat(rng.below(100_000)));
            }
            _ => {
                let vi = rng.below(tags[ti].len());
                let mut s: Vec<char> = tags[ti][vi].chars().collect();
                if !s.is_empty() {
                    let ci = rng.below(s.len());
                    s[ci] = ['é', 'x', '0', '\u{0}', 'Z', ' '][rng.below(6)];
                }
                tags[ti][vi] = s.into_iter().collect();
            }
        }
        let tags: Vec<Tag> = tags.into_iter().filter_map(|t| Tag::parse(t).ok()).collect();
        let ev = EventBuilder::new(good.kind, good.content.clone())
            .tags(tags)
            .sign_with_keys(&bk)
            .unwrap();
        if catch_unwind(AssertUnwindSafe(|| {
            let _ = alice.parse_key_package(&ev);
            let _ = alice.create_group(
                &Keys::generate().public_key(),
                vec![ev.clone()],
                config(vec![]),
            );
        }))
        .is_err()
        {
            panics.push(format!("tag mutation {i}"));
        }
    }
    // A key package event of a different signer
    let other = Keys::generate();
    let ev = EventBuilder::new(good.kind, good.content.clone())
        .tags(good_tags.clone())
        .sign_with_keys(&other)
        .unwrap();
    assert!(alice.parse_key_package(&ev).is_err());

    // add_members with hostile events does not change the group
    let ak = Keys::generate();
    let carol = memory();
    let ck = Keys::generate();
    let gid = make_group(&alice, &ak, &bob, &bk, &carol, &ck, vec![ak.public_key()]);
    let before = observe_all(&alice);
    assert!(alice.add_members(&gid, &[ev]).is_err());
    assert!(diff(&before, &observe_all(&alice)).is_empty());
    let _ = NostrGroupDataUpdate::new();

    assert!(panics.is_empty(), "panics: {panics:?}");
}
