//! R06 / C06: a refused welcome must have no effect.
//!
//! process_welcome writes the pending group record (and its relays, and the processed-welcome
//! record) BEFORE the welcome record itself. When a later write is refused by the storage
//! layer, process_welcome returns Err - but the earlier writes stay.

use mdk_core::MDK;
use mdk_core::groups::NostrGroupConfigData;
use mdk_memory_storage::MdkMemoryStorage;
use mdk_sqlite_storage::MdkSqliteStorage;
use mdk_storage_traits::MdkStorageProvider;
use mdk_storage_traits::groups::types::GroupState;
use nostr::{Event, EventBuilder, EventId, Keys, Kind, RelayUrl, Tag, TagKind, UnsignedEvent};

fn key_package_event<S: MdkStorageProvider>(mdk: &MDK<S>, keys: &Keys) -> Event {
    let relays = vec![RelayUrl::parse("wss://test.relay").unwrap()];
    let (content, tags, _) = mdk
        .create_key_package_for_event(&keys.public_key(), relays)
        .unwrap();
    EventBuilder::new(Kind::MlsKeyPackage, content)
        .tags(tags)
        .sign_with_keys(keys)
        .unwrap()
}

fn sqlite() -> (MDK<MdkSqliteStorage>, tempfile::TempDir) {
    let dir = tempfile::tempdir().unwrap();
    let storage = MdkSqliteStorage::new_unencrypted(dir.path().join("db.sqlite")).unwrap();
    (MDK::new(storage), dir)
}

/// Adds a large, meaningless tag to the (unsigned, inviter-authored) welcome rumor and
/// recomputes its id.
fn pad_rumor(rumor: &UnsignedEvent, bytes: usize) -> UnsignedEvent {
    let mut tags: Vec<Tag> = rumor.tags.iter().cloned().collect();
    tags.push(Tag::custom(
        TagKind::Custom("padding".into()),
        ["x".repeat(bytes)],
    ));
    let mut padded = EventBuilder::new(rumor.kind, rumor.content.clone())
        .tags(tags)
        .custom_created_at(rumor.created_at)
        .build(rumor.pubkey);
    padded.ensure_id();
    padded
}

/// SQLite receiver, hostile inviter pads the rumor above the 100 KB event-JSON limit of the
/// welcomes table. process_welcome fails, yet a Pending group appears.
#[test]
fn refused_welcome_leaves_pending_group_sqlite() {
    let alice_keys = Keys::generate();
    let bob_keys = Keys::generate();
    let alice = MDK::new(MdkMemoryStorage::default());
    let (bob, _dir) = sqlite();

    let bob_kp = key_package_event(&bob, &bob_keys);
    let config = NostrGroupConfigData::new(
        "G".to_string(),
        "d".to_string(),
        None,
        None,
        None,
        vec![RelayUrl::parse("wss://test.relay").unwrap()],
        vec![alice_keys.public_key()],
    );
    let created = alice
        .create_group(&alice_keys.public_key(), vec![bob_kp], config)
        .unwrap();
    let rumor = pad_rumor(&created.welcome_rumors[0], 120 * 1024);

    let groups_before = bob.get_groups().unwrap();
    assert!(groups_before.is_empty());

    let wrapper_id = EventId::from_slice(&[7u8; 32]).unwrap();
    let result = bob.process_welcome(&wrapper_id, &rumor);
    println!("process_welcome -> {:?}", result.as_ref().map(|w| w.id));
    assert!(result.is_err(), "the padded welcome is expected to be refused");

    let groups_after = bob.get_groups().unwrap();
    let pending = bob.get_pending_welcomes(None).unwrap();
    println!(
        "groups after refused welcome: {:?}",
        groups_after
            .iter()
            .map(|g| (g.name.clone(), g.state))
            .collect::<Vec<_>>()
    );
    println!("pending welcomes after refused welcome: {}", pending.len());
    // A second delivery of the very same wrapper
    let again = bob.process_welcome(&wrapper_id, &rumor);
    println!("second delivery -> {:?}", again.as_ref().map(|w| w.id));

    assert!(
        groups_after.is_empty(),
        "C06 violated: process_welcome returned Err but stored {} group(s): {:?}",
        groups_after.len(),
        groups_after
            .iter()
            .map(|g| (g.name.clone(), g.state))
            .collect::<Vec<_>>()
    );
}

/// Memory receiver, hostile inviter puts 101 relays in the group data. save_group accepts the
/// record, replace_group_relays refuses the relays: Err, yet the Pending group stays.
#[test]
fn refused_welcome_leaves_pending_group_memory() {
    let alice_keys = Keys::generate();
    let bob_keys = Keys::generate();
    let (alice, _dir) = sqlite(); // no relay-count limit on the inviter's side
    let bob = MDK::new(MdkMemoryStorage::default());

    let bob_kp = key_package_event(&bob, &bob_keys);
    let relays: Vec<RelayUrl> = (0..101)
        .map(|i| RelayUrl::parse(&format!("wss://r{i}.example.com")).unwrap())
        .collect();
    let config = NostrGroupConfigData::new(
        "G".to_string(),
        "d".to_string(),
        None,
        None,
        None,
        relays,
        vec![alice_keys.public_key()],
    );
    let created = alice
        .create_group(&alice_keys.public_key(), vec![bob_kp], config)
        .unwrap();
    let rumor = created.welcome_rumors[0].clone();

    assert!(bob.get_groups().unwrap().is_empty());
    let wrapper_id = EventId::from_slice(&[8u8; 32]).unwrap();
    let result = bob.process_welcome(&wrapper_id, &rumor);
    println!("process_welcome -> {:?}", result.as_ref().map(|w| w.id));
    assert!(result.is_err(), "the 101-relay welcome is expected to be refused");

    let groups_after = bob.get_groups().unwrap();
    assert!(
        groups_after.is_empty(),
        "C06 violated: process_welcome returned Err but stored {} group(s): {:?}",
        groups_after.len(),
        groups_after
            .iter()
            .map(|g| (g.name.clone(), g.state))
            .collect::<Vec<_>>()
    );
}

/// The refused welcome rewrites the record of a group the receiver already holds (here: a
/// group Bob was removed from, state Inactive, with its stored history).
#[test]
fn refused_welcome_rewrites_existing_inactive_group_sqlite() {
    let alice_keys = Keys::generate();
    let bob_keys = Keys::generate();
    let alice = MDK::new(MdkMemoryStorage::default());
    let (bob, _dir) = sqlite();

    let bob_kp = key_package_event(&bob, &bob_keys);
    let config = NostrGroupConfigData::new(
        "Original name".to_string(),
        "d".to_string(),
        None,
        None,
        None,
        vec![RelayUrl::parse("wss://test.relay").unwrap()],
        vec![alice_keys.public_key()],
    );
    let created = alice
        .create_group(&alice_keys.public_key(), vec![bob_kp], config)
        .unwrap();
    let gid = created.group.mls_group_id.clone();
    let w = bob
        .process_welcome(
            &EventId::from_slice(&[1u8; 32]).unwrap(),
            &created.welcome_rumors[0],
        )
        .unwrap();
    bob.accept_welcome(&w).unwrap();

    // Alice removes Bob; Bob processes the removal and the group becomes Inactive.
    let removal = alice.remove_members(&gid, &[bob_keys.public_key()]).unwrap();
    alice.merge_pending_commit(&gid).unwrap();
    bob.process_message(&removal.evolution_event).unwrap();
    let before = bob.get_group(&gid).unwrap().unwrap();
    assert_eq!(before.state, GroupState::Inactive);

    // Alice renames the group and re-invites Bob with a padded rumor.
    let rename = alice
        .update_group_data(
            &gid,
            mdk_core::groups::NostrGroupDataUpdate::new().name("Renamed by inviter"),
        )
        .unwrap();
    let _ = rename;
    alice.merge_pending_commit(&gid).unwrap();
    let bob_kp2 = key_package_event(&bob, &bob_keys);
    let readd = alice.add_members(&gid, &[bob_kp2]).unwrap();
    alice.merge_pending_commit(&gid).unwrap();
    let rumor = pad_rumor(&readd.welcome_rumors.unwrap()[0], 120 * 1024);

    let result = bob.process_welcome(&EventId::from_slice(&[2u8; 32]).unwrap(), &rumor);
    assert!(result.is_err(), "the padded welcome is expected to be refused");

    let after = bob.get_group(&gid).unwrap().unwrap();
    println!(
        "before: name={:?} state={:?} epoch={}",
        before.name, before.state, before.epoch
    );
    println!(
        "after : name={:?} state={:?} epoch={}",
        after.name, after.state, after.epoch
    );
    assert_eq!(
        (before.name.clone(), before.state, before.epoch),
        (after.name.clone(), after.state, after.epoch),
        "C06 violated: a refused welcome changed the record of an existing group"
    );
}
