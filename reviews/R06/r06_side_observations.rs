//! R06 side observations (not C06 itself): inputs that are ACCEPTED and then break read APIs.

mod r06_common;

use nostr::Keys;
use openmls::prelude::*;
use openmls_basic_credential::SignatureKeyPair;
use openmls_traits::OpenMlsProvider;
use r06_common::*;
use tls_codec::Serialize as _;

/// Any member can queue an Add proposal whose credential identity is not a 32-byte key.
/// Every receiver stores it as pending; afterwards pending_member_changes() fails for the group.
#[test]
fn add_proposal_with_short_identity_breaks_pending_member_changes() {
    let (alice, bob, carol) = (memory(), memory(), memory());
    let (ak, bk, ck) = (Keys::generate(), Keys::generate(), Keys::generate());
    let gid = make_group(&alice, &ak, &bob, &bk, &carol, &ck, vec![ak.public_key()]);

    let mut g = load_group(&carol, &gid);
    let s = signer(&carol, &g);
    let ciphersuite = g.ciphersuite();
    let kp_signer = SignatureKeyPair::new(ciphersuite.signature_algorithm()).unwrap();
    kp_signer.store(carol.provider.storage()).unwrap();
    let credential = BasicCredential::new(vec![1, 2, 3]);
    let capabilities = Capabilities::new(
        None,
        Some(&[ciphersuite]),
        Some(&[ExtensionType::LastResort, ExtensionType::Unknown(0xf2ee)]),
        None,
        None,
    );
    let bundle = KeyPackage::builder()
        .leaf_node_capabilities(capabilities)
        .build(
            ciphersuite,
            &carol.provider,
            &kp_signer,
            CredentialWithKey {
                credential: credential.into(),
                signature_key: kp_signer.public().into(),
            },
        )
        .unwrap();
    let (msg, _) = g
        .propose_add_member(&carol.provider, &s, bundle.key_package())
        .unwrap();
    let e = wrap(&carol, &gid, &g, &msg.tls_serialize_detached().unwrap());

    println!("before: {:?}", bob.pending_member_changes(&gid).map(|c| c.additions.len()));
    let r = bob.process_message(&e);
    println!("add proposal with 3-byte identity -> {}", short(&r));
    let after = bob.pending_member_changes(&gid);
    println!("after: {:?}", after.as_ref().map(|c| c.additions.len()).map_err(|e| e.to_string()));
    let r = alice.process_message(&e);
    println!("at admin -> {}", short(&r));
    println!(
        "admin pending_member_changes: {:?}",
        alice
            .pending_member_changes(&gid)
            .map(|c| c.additions.len())
            .map_err(|e| e.to_string())
    );
}
