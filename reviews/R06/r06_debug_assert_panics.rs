//! R06 / C06, second finding: with debug assertions enabled (every `cargo build` / `cargo test`
//! without `--release`), one hostile byte makes the public entry points PANIC instead of
//! returning an error. The panics come from `debug_assert!`s in the dependencies
//! (tls_codec-0.4.2 quic_vec.rs:53, openmls-0.8.1 private_message_in.rs:136) that are reached
//! with attacker-controlled bytes; mdk-core does not shield its callers from them.
//! In a release build (debug assertions off) the same inputs are refused with an error.

mod r06_common;

use std::panic::{AssertUnwindSafe, catch_unwind};

use nostr::base64::Engine;
use nostr::base64::engine::general_purpose::STANDARD as BASE64;
use nostr::{EventBuilder, EventId, Keys, Tag};
use r06_common::*;
use tls_codec::Serialize as _;

#[test]
fn key_package_event_with_8_byte_length_prefix() {
    let bob = memory();
    let bk = Keys::generate();
    let alice = memory();
    let good = key_package_event(&bob, &bk);
    let mut raw = BASE64.decode(&good.content).unwrap();
    // KeyPackage: version(2) cipher_suite(2) init_key<V>: byte 4 is a length prefix
    raw[4] = 0xc0;
    let tags: Vec<Tag> = good.tags.iter().cloned().collect();
    // the event is properly signed by its author: any Nostr user can publish it
    let ev = EventBuilder::new(good.kind, BASE64.encode(&raw))
        .tags(tags)
        .sign_with_keys(&bk)
        .unwrap();
    let r = catch_unwind(AssertUnwindSafe(|| alice.parse_key_package(&ev).is_ok()));
    assert!(
        r.is_ok(),
        "C06 violated: parse_key_package panicked on a hostile key-package event"
    );
}

#[test]
fn welcome_with_8_byte_length_prefix() {
    let alice = memory();
    let ak = Keys::generate();
    let bob = memory();
    let bk = Keys::generate();
    let created = alice
        .create_group(
            &ak.public_key(),
            vec![key_package_event(&bob, &bk)],
            config(vec![ak.public_key()]),
        )
        .unwrap();
    let good = created.welcome_rumors[0].clone();
    let mut raw = BASE64.decode(&good.content).unwrap();
    // MlsMessage: version(2) wire_format(2) Welcome: cipher_suite(2) secrets<V>
    raw[6] = 0xc0;
    let mut rumor = EventBuilder::new(good.kind, BASE64.encode(&raw))
        .tags(good.tags.iter().cloned().collect::<Vec<Tag>>())
        .build(good.pubkey);
    rumor.ensure_id();
    let wid = EventId::from_slice(&[9u8; 32]).unwrap();
    let r = catch_unwind(AssertUnwindSafe(|| bob.process_welcome(&wid, &rumor).is_ok()));
    assert!(
        r.is_ok(),
        "C06 violated: process_welcome panicked on a hostile welcome rumor"
    );
}

#[test]
fn group_message_with_8_byte_length_prefix_or_bad_ciphertext() {
    let (alice, bob, carol) = (memory(), memory(), memory());
    let (ak, bk, ck) = (Keys::generate(), Keys::generate(), Keys::generate());
    let gid = make_group(&alice, &ak, &bob, &bk, &carol, &ck, vec![ak.public_key()]);
    let nostr_gid = alice.get_group(&gid).unwrap().unwrap().nostr_group_id;
    let mut g = load_group(&carol, &gid);
    let s = signer(&carol, &g);
    let exp = exporter_keys(&carol, &g);

    // (1) length prefix of the group id
    let msg = g.create_message(&carol.provider, &s, b"x").unwrap();
    let mut raw = msg.tls_serialize_detached().unwrap();
    raw[4] = 0xc0;
    let e = wrap_with(&exp, &nostr_gid, &raw, None);
    let r1 = catch_unwind(AssertUnwindSafe(|| bob.process_message(&e).is_ok()));

    // (2) last byte of the ciphertext flipped: sender data decrypts, content AEAD fails
    let msg = g.create_message(&carol.provider, &s, b"y").unwrap();
    let mut raw = msg.tls_serialize_detached().unwrap();
    let last = raw.len() - 1;
    raw[last] ^= 1;
    let e = wrap_with(&exp, &nostr_gid, &raw, None);
    let r2 = catch_unwind(AssertUnwindSafe(|| bob.process_message(&e).is_ok()));

    assert!(
        r1.is_ok() && r2.is_ok(),
        "C06 violated: process_message panicked (length prefix: {}, bad ciphertext: {})",
        r1.is_err(),
        r2.is_err()
    );
}
