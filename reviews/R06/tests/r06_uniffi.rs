//! R06 / C06: the binding layer returns errors for malformed strings / extreme integers,
//! it never panics.

use std::panic::{AssertUnwindSafe, catch_unwind};

use mdk_uniffi::*;
use nostr::{EventBuilder, JsonUtil, Keys, Kind, Tag};

fn fresh(config: Option<MdkConfig>) -> (Mdk, tempfile::TempDir) {
    let dir = tempfile::tempdir().unwrap();
    let path = dir.path().join("db.sqlite").to_string_lossy().to_string();
    (new_mdk_unencrypted(path, config).unwrap(), dir)
}

fn kp_event(mdk: &Mdk, keys: &Keys) -> String {
    let r = mdk
        .create_key_package_for_event(
            keys.public_key().to_hex(),
            vec!["wss://test.relay".to_string()],
        )
        .unwrap();
    let tags: Vec<Tag> = r
        .tags
        .into_iter()
        .map(|t| Tag::parse(t).unwrap())
        .collect();
    EventBuilder::new(Kind::MlsKeyPackage, r.key_package)
        .tags(tags)
        .sign_with_keys(keys)
        .unwrap()
        .as_json()
}

fn guard<T>(label: &str, panics: &mut Vec<String>, f: impl FnOnce() -> T) -> Option<T> {
    match catch_unwind(AssertUnwindSafe(f)) {
        Ok(v) => Some(v),
        Err(_) => {
            panics.push(label.to_string());
            None
        }
    }
}

fn nasty_strings() -> Vec<String> {
    vec![
        "".into(),
        " ".into(),
        "z".into(),
        "0".into(),
        "00".into(),
        "zz".into(),
        "é".into(),
        "éé".into(),
        "\u{0}".into(),
        "0x00".into(),
        "00".repeat(31),
        "00".repeat(32),
        "ff".repeat(32),
        "00".repeat(33),
        "é".repeat(32),
        "é".repeat(64),
        "0".repeat(63) + "é",
        "a".repeat(1_000_000),
        "{}".into(),
        "null".into(),
        "[]".into(),
        "\"x\"".into(),
        "[".repeat(100_000),
        "{\"id\":1}".into(),
        "{\"id\":\"".to_string() + &"0".repeat(64) + "\",\"pubkey\":\"" + &"0".repeat(64)
            + "\",\"created_at\":1e400,\"kind\":-1,\"tags\":[[1]],\"content\":null,\"sig\":\"\"}",
        "{\"id\":\"".to_string() + &"0".repeat(64) + "\",\"pubkey\":\"" + &"0".repeat(64)
            + "\",\"created_at\":18446744073709551615,\"kind\":65535,\"tags\":[[]],\"content\":\"\",\"sig\":\""
            + &"0".repeat(128) + "\"}",
        "npub1xxxxxxxxxxxxxxxxxxxxxxxxxxxxxxxxxxxxxxxxxxxxxxxxxxxxxxxxxxxxxx".into(),
        "wss://".into(),
        "created_at_first ".into(),
    ]
}

#[test]
fn string_arguments_never_panic() {
    let (mdk, _d) = fresh(None);
    let keys = Keys::generate();
    let other = Keys::generate();
    let (other_mdk, _d2) = fresh(None);
    let created = mdk
        .create_group(
            keys.public_key().to_hex(),
            vec![kp_event(&other_mdk, &other)],
            "g".into(),
            "d".into(),
            vec!["wss://test.relay".into()],
            vec![keys.public_key().to_hex()],
        )
        .unwrap();
    let gid = created.group.mls_group_id.clone();
    mdk.merge_pending_commit(gid.clone()).unwrap();
    let pk = keys.public_key().to_hex();
    let mut panics = Vec::new();

    for s in nasty_strings() {
        let l = if s.len() > 40 { format!("{}..({})", &s.chars().take(20).collect::<String>(), s.len()) } else { s.clone() };
        guard(&format!("get_group {l}"), &mut panics, || mdk.get_group(s.clone()).is_ok());
        guard(&format!("get_members {l}"), &mut panics, || mdk.get_members(s.clone()).is_ok());
        guard(&format!("get_relays {l}"), &mut panics, || mdk.get_relays(s.clone()).is_ok());
        guard(&format!("get_messages {l}"), &mut panics, || {
            mdk.get_messages(s.clone(), Some(1), Some(0), Some(s.clone())).is_ok()
        });
        guard(&format!("get_messages sort {l}"), &mut panics, || {
            mdk.get_messages(gid.clone(), None, None, Some(s.clone())).is_ok()
        });
        guard(&format!("get_message {l}"), &mut panics, || {
            mdk.get_message(gid.clone(), s.clone()).is_ok() | mdk.get_message(s.clone(), s.clone()).is_ok()
        });
        guard(&format!("get_last_message {l}"), &mut panics, || {
            mdk.get_last_message(gid.clone(), s.clone()).is_ok()
        });
        guard(&format!("get_welcome {l}"), &mut panics, || mdk.get_welcome(s.clone()).is_ok());
        guard(&format!("process_welcome {l}"), &mut panics, || {
            mdk.process_welcome(s.clone(), s.clone()).is_ok()
                | mdk.process_welcome("00".repeat(32), s.clone()).is_ok()
        });
        guard(&format!("accept_welcome_json {l}"), &mut panics, || {
            mdk.accept_welcome_json(s.clone()).is_ok() | mdk.decline_welcome_json(s.clone()).is_ok()
        });
        guard(&format!("parse_key_package {l}"), &mut panics, || mdk.parse_key_package(s.clone()).is_ok());
        guard(&format!("process_message {l}"), &mut panics, || mdk.process_message(s.clone()).is_ok());
        guard(&format!("create_key_package {l}"), &mut panics, || {
            mdk.create_key_package_for_event(s.clone(), vec![s.clone()]).is_ok()
                | mdk.create_key_package_for_event_with_options(pk.clone(), vec![s.clone()], true).is_ok()
        });
        guard(&format!("create_group {l}"), &mut panics, || {
            mdk.create_group(s.clone(), vec![s.clone()], s.clone(), s.clone(), vec![s.clone()], vec![s.clone()]).is_ok()
                | mdk.create_group(pk.clone(), vec![s.clone()], s.clone(), s.clone(), vec![], vec![pk.clone()]).is_ok()
        });
        guard(&format!("add_members {l}"), &mut panics, || {
            mdk.add_members(gid.clone(), vec![s.clone()]).is_ok() | mdk.add_members(s.clone(), vec![]).is_ok()
        });
        guard(&format!("remove_members {l}"), &mut panics, || {
            mdk.remove_members(gid.clone(), vec![s.clone()]).is_ok() | mdk.remove_members(s.clone(), vec![]).is_ok()
        });
        guard(&format!("misc group id {l}"), &mut panics, || {
            mdk.merge_pending_commit(s.clone()).is_ok()
                | mdk.clear_pending_commit(s.clone()).is_ok()
                | mdk.sync_group_metadata_from_mls(s.clone()).is_ok()
                | mdk.self_update(s.clone()).is_ok()
                | mdk.leave_group(s.clone()).is_ok()
        });
        guard(&format!("create_message {l}"), &mut panics, || {
            mdk.create_message(s.clone(), s.clone(), s.clone(), 0, None).is_ok()
                | mdk.create_message(gid.clone(), s.clone(), s.clone(), 65535, None).is_ok()
                | mdk
                    .create_message(
                        gid.clone(),
                        pk.clone(),
                        s.clone(),
                        65535,
                        Some(vec![vec![], vec![s.clone()], vec![s.clone(), s.clone()], vec!["e".into(), s.clone()], vec!["p".into(), s.clone()], vec!["imeta".into(), s.clone()]]),
                    )
                    .is_ok()
        });
        guard(&format!("update_group_data {l}"), &mut panics, || {
            mdk.update_group_data(
                gid.clone(),
                GroupDataUpdate {
                    name: Some(s.clone()),
                    description: Some(s.clone()),
                    image_hash: Some(Some(s.clone().into_bytes())),
                    image_key: None,
                    image_nonce: None,
                    relays: Some(vec![s.clone()]),
                    admins: Some(vec![s.clone()]),
                },
            )
            .is_ok()
        });
        guard(&format!("image fns {l}"), &mut panics, || {
            prepare_group_image_for_upload(s.clone().into_bytes(), s.clone()).is_ok()
                | decrypt_group_image(s.clone().into_bytes(), Some(s.clone().into_bytes()), s.clone().into_bytes(), s.clone().into_bytes()).is_ok()
                | decrypt_group_image(s.clone().into_bytes(), None, vec![0; 32], vec![0; 12]).is_ok()
                | derive_upload_keypair(s.clone().into_bytes(), 2).is_ok()
        });
        guard(&format!("accept_welcome record {l}"), &mut panics, || {
            let w = Welcome {
                id: s.clone(),
                event_json: s.clone(),
                mls_group_id: s.clone(),
                nostr_group_id: s.clone(),
                group_name: s.clone(),
                group_description: s.clone(),
                group_image_hash: Some(s.clone().into_bytes()),
                group_image_key: Some(s.clone().into_bytes()),
                group_image_nonce: Some(s.clone().into_bytes()),
                group_admin_pubkeys: vec![s.clone()],
                group_relays: vec![s.clone()],
                welcomer: s.clone(),
                member_count: u32::MAX,
                state: s.clone(),
                wrapper_event_id: s.clone(),
            };
            mdk.accept_welcome(w).is_ok()
        });
    }

    // integers
    for (limit, offset) in [
        (Some(0u32), Some(0u32)),
        (Some(u32::MAX), Some(u32::MAX)),
        (None, Some(u32::MAX)),
        (Some(1), Some(u32::MAX)),
        (Some(u32::MAX), None),
    ] {
        guard("get_messages ints", &mut panics, || mdk.get_messages(gid.clone(), limit, offset, None).is_ok());
        guard("get_pending_welcomes ints", &mut panics, || mdk.get_pending_welcomes(limit, offset).is_ok());
    }
    for t in [0u64, 1, u64::MAX, i64::MAX as u64, i64::MAX as u64 + 1] {
        guard("groups_needing_self_update", &mut panics, || mdk.groups_needing_self_update(t).is_ok());
    }
    for v in [0u16, 1, 2, 3, u16::MAX] {
        guard("derive_upload_keypair", &mut panics, || derive_upload_keypair(vec![0xff; 32], v).is_ok());
    }

    // the instance still works afterwards (mutex not poisoned)
    assert!(mdk.get_groups().is_ok(), "instance unusable after hostile input");
    assert!(panics.is_empty(), "panics:\n{}", panics.join("\n"));
}

#[test]
fn extreme_config_values_never_panic() {
    let configs = vec![
        MdkConfig {
            max_event_age_secs: Some(u64::MAX),
            max_future_skew_secs: Some(u64::MAX),
            out_of_order_tolerance: Some(u32::MAX),
            maximum_forward_distance: Some(u32::MAX),
            max_past_epochs: Some(u32::MAX),
            epoch_snapshot_retention: Some(u32::MAX),
            snapshot_ttl_seconds: Some(u64::MAX),
        },
        MdkConfig {
            max_event_age_secs: Some(0),
            max_future_skew_secs: Some(0),
            out_of_order_tolerance: Some(0),
            maximum_forward_distance: Some(0),
            max_past_epochs: Some(0),
            epoch_snapshot_retention: Some(0),
            snapshot_ttl_seconds: Some(0),
        },
    ];
    let mut panics = Vec::new();
    for (i, c) in configs.into_iter().enumerate() {
        let c2 = MdkConfig {
            max_event_age_secs: c.max_event_age_secs,
            max_future_skew_secs: c.max_future_skew_secs,
            out_of_order_tolerance: c.out_of_order_tolerance,
            maximum_forward_distance: c.maximum_forward_distance,
            max_past_epochs: c.max_past_epochs,
            epoch_snapshot_retention: c.epoch_snapshot_retention,
            snapshot_ttl_seconds: c.snapshot_ttl_seconds,
        };
        guard(&format!("config {i}"), &mut panics, || {
            let (alice, _d1) = fresh(Some(c));
            let (bob, _d2) = fresh(Some(c2));
            let ak = Keys::generate();
            let bk = Keys::generate();
            let created = alice
                .create_group(
                    ak.public_key().to_hex(),
                    vec![kp_event(&bob, &bk)],
                    "g".into(),
                    "d".into(),
                    vec!["wss://test.relay".into()],
                    vec![ak.public_key().to_hex()],
                )
                .unwrap();
            let gid = created.group.mls_group_id.clone();
            let w = bob
                .process_welcome("11".repeat(32), created.welcome_rumors_json[0].clone())
                .unwrap();
            bob.accept_welcome(w).unwrap();
            // a few messages, delivered out of order
            let msgs: Vec<String> = (0..4)
                .map(|n| {
                    alice
                        .create_message(gid.clone(), ak.public_key().to_hex(), format!("m{n}"), 9, None)
                        .unwrap()
                })
                .collect();
            for m in msgs.iter().rev() {
                let _ = bob.process_message(m.clone());
            }
            // two commits
            for _ in 0..2 {
                let up = alice.self_update(gid.clone()).unwrap();
                alice.merge_pending_commit(gid.clone()).unwrap();
                let _ = bob.process_message(up.evolution_event_json);
            }
            let m = alice
                .create_message(gid.clone(), ak.public_key().to_hex(), "after".into(), 9, None)
                .unwrap();
            let _ = bob.process_message(m);
            let _ = bob.groups_needing_self_update(u64::MAX);
        });
    }
    assert!(panics.is_empty(), "panics:\n{}", panics.join("\n"));
}
