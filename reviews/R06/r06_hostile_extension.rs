//! R06 / C06: hostile NostrGroupData extension bytes, in a commit (hostile admin) and in a
//! welcome (hostile inviter): no panic, refused input has no effect.

mod r06_common;

use std::panic::{AssertUnwindSafe, catch_unwind};

use nostr::base64::Engine;
use nostr::base64::engine::general_purpose::STANDARD as BASE64;
use nostr::{EventBuilder, EventId, Keys, Kind, RelayUrl, Tag, TagKind, UnsignedEvent};
use openmls::prelude::*;
use r06_common::*;
use tls_codec::Serialize as _;

fn valid_bytes(g: &MlsGroup) -> Vec<u8> {
    for e in g.extensions().iter() {
        if let Extension::Unknown(0xf2ee, UnknownExtension(b)) = e {
            return b.clone();
        }
    }
    panic!("no group data extension");
}

fn hostile_variants(valid: &[u8], with_debug_assert_triggers: bool) -> Vec<(String, Vec<u8>)> {
    let mut v: Vec<(String, Vec<u8>)> = Vec::new();
    v.push(("empty".into(), vec![]));
    let mut b = valid.to_vec();
    b[0] = 0;
    b[1] = 0;
    v.push(("version 0".into(), b));
    let mut b = valid.to_vec();
    b[0] = 0xff;
    b[1] = 0xff;
    v.push(("version 65535".into(), b));
    for cut in [1usize, 2, 33, 34, 35, 36, 40, valid.len() - 1] {
        if cut < valid.len() {
            v.push((format!("truncated at {cut}"), valid[..cut].to_vec()));
        }
    }
    let mut b = valid.to_vec();
    b.extend_from_slice(&[0, 0, 0]);
    v.push(("trailing bytes".into(), b));
    // name length prefix abuse (offset 34 is the first length byte: 2 version + 32 id)
    for (label, prefix) in [
        ("len 0x3f", vec![0x3fu8]),
        ("len 2-byte max", vec![0x7f, 0xff]),
        ("len 4-byte max", vec![0xbf, 0xff, 0xff, 0xff]),
        ("len 4-byte non-minimal", vec![0x80, 0x00, 0x00, 0x01]),
    ] {
        let mut b = valid[..34].to_vec();
        b.extend_from_slice(&prefix);
        b.extend_from_slice(&valid[35..]);
        v.push((format!("name {label}"), b));
    }
    if with_debug_assert_triggers {
        let mut b = valid[..34].to_vec();
        b.extend_from_slice(&[0xc0, 0, 0, 0, 0, 0, 0, 1]);
        b.extend_from_slice(&valid[35..]);
        v.push(("name len 8-byte form".into(), b));
    }
    // hand-built bodies
    let id = [7u8; 32];
    let build = |name: &[u8], desc: &[u8], admins: &[u8], relays: &[u8], tail: &[u8]| {
        let mut b = vec![0u8, 2];
        b.extend_from_slice(&id);
        b.push(name.len() as u8);
        b.extend_from_slice(name);
        b.push(desc.len() as u8);
        b.extend_from_slice(desc);
        b.extend_from_slice(admins);
        b.extend_from_slice(relays);
        b.extend_from_slice(tail);
        b
    };
    let no_images = [0u8, 0, 0, 0];
    v.push((
        "invalid utf8 name".into(),
        build(&[0xff, 0xfe], b"d", &[0], &[0], &no_images),
    ));
    v.push((
        "relay not a url".into(),
        build(b"n", b"d", &[0], &[4, 3, b'a', b'b', b'c'], &no_images),
    ));
    v.push((
        "relay empty".into(),
        build(b"n", b"d", &[0], &[1, 0], &no_images),
    ));
    v.push((
        "relay invalid utf8".into(),
        build(b"n", b"d", &[0], &[3, 2, 0xff, 0xff], &no_images),
    ));
    v.push((
        "admins 31 bytes".into(),
        build(b"n", b"d", &[31], &[0], &no_images),
    ));
    v.push((
        "no admins at all".into(),
        build(b"n", b"d", &[0], &[0], &no_images),
    ));
    v.push((
        "image hash 1 byte".into(),
        build(b"n", b"d", &[0], &[0], &[1, 9, 0, 0, 0]),
    ));
    v.push((
        "image nonce 13 bytes".into(),
        build(b"n", b"d", &[0], &[0], &[0, 0, 13, 1, 2, 3, 4, 5, 6, 7, 8, 9, 10, 11, 12, 13, 0]),
    ));
    v.push((
        "v1 layout without upload key".into(),
        build(b"n", b"d", &[0], &[0], &[0, 0, 0]),
    ));
    v
}

fn gce_commit_with(
    admin: &mdk_core::MDK<mdk_memory_storage::MdkMemoryStorage>,
    gid: &mdk_storage_traits::GroupId,
    bytes: Vec<u8>,
    drop_extension: bool,
) -> Option<(MlsGroup, Vec<u8>)> {
    let mut g = load_group(admin, gid);
    let s = signer(admin, &g);
    let mut exts = g.extensions().clone();
    if drop_extension {
        exts.remove(ExtensionType::Unknown(0xf2ee));
    } else {
        exts.add_or_replace(Extension::Unknown(0xf2ee, UnknownExtension(bytes)))
            .ok()?;
    }
    let before = load_group(admin, gid);
    let (commit, _, _) = g
        .update_group_context_extensions(&admin.provider, exts, &s)
        .ok()?;
    let out = commit.tls_serialize_detached().unwrap();
    // keep the admin on the old epoch for the next variant
    g.clear_pending_commit(admin.provider.storage()).unwrap();
    Some((before, out))
}

#[test]
fn hostile_group_data_in_commit() {
    run_commit_cases(|| (memory(), None));
}

#[test]
fn hostile_group_data_in_commit_sqlite_receiver() {
    run_commit_cases(|| {
        let (m, d) = sqlite();
        (m, Some(d))
    });
}

fn run_commit_cases<S: mdk_storage_traits::MdkStorageProvider>(
    mk_bob: impl Fn() -> (mdk_core::MDK<S>, Option<tempfile::TempDir>),
) {
    let probe = {
        let (alice, bob, carol) = (memory(), memory(), memory());
        let (ak, bk, ck) = (Keys::generate(), Keys::generate(), Keys::generate());
        let gid = make_group(&alice, &ak, &bob, &bk, &carol, &ck, vec![ak.public_key()]);
        valid_bytes(&load_group(&alice, &gid))
    };
    let mut problems = Vec::new();
    let mut cases = hostile_variants(&probe, cfg!(not(debug_assertions)));
    cases.push(("extension dropped".into(), vec![]));
    for (label, bytes) in cases {
        // a fresh world per case
        let (alice, carol) = (memory(), memory());
        let (bob, _dir) = mk_bob();
        let (ak, bk, ck) = (Keys::generate(), Keys::generate(), Keys::generate());
        let gid = make_group(&alice, &ak, &bob, &bk, &carol, &ck, vec![ak.public_key()]);
        let m = alice.create_message(&gid, rumor(&ak, "hello")).unwrap();
        bob.process_message(&m).unwrap();
        // Bob holds a pending proposal and an own pending commit
        let leave = carol.leave_group(&gid).unwrap();
        bob.process_message(&leave.evolution_event).unwrap();
        bob.self_update(&gid).unwrap();

        let drop = label == "extension dropped";
        let Some((before_group, commit)) = gce_commit_with(&alice, &gid, bytes, drop) else {
            println!("[{label}] could not be built");
            continue;
        };
        let e = wrap(&alice, &gid, &before_group, &commit);
        let before = observe_all(&bob);
        let r = catch_unwind(AssertUnwindSafe(|| bob.process_message(&e)));
        match r {
            Err(_) => problems.push(format!("[{label}] PANIC")),
            Ok(r) => {
                println!("[{label}] -> {}", short(&r));
                let d = diff(&before, &observe_all(&bob));
                if is_failure(&r) && !d.is_empty() {
                    problems.push(format!(
                        "[{label}] {} but changed:\n  {}",
                        short(&r),
                        d.join("\n  ")
                    ));
                }
                if is_failure(&r) {
                    // The group still works for Bob
                    let m = alice.create_message(&gid, rumor(&ak, "still here")).unwrap();
                    let r = bob.process_message(&m);
                    if is_failure(&r) {
                        problems.push(format!(
                            "[{label}] honest same-epoch message afterwards -> {}",
                            short(&r)
                        ));
                    }
                    if bob.merge_pending_commit(&gid).is_err() {
                        problems.push(format!("[{label}] own pending commit lost"));
                    }
                }
            }
        }
    }
    assert!(problems.is_empty(), "\n{}", problems.join("\n"));
}

#[test]
fn hostile_group_data_in_welcome() {
    let mut problems = Vec::new();
    let probe = {
        let (alice, bob, carol) = (memory(), memory(), memory());
        let (ak, bk, ck) = (Keys::generate(), Keys::generate(), Keys::generate());
        let gid = make_group(&alice, &ak, &bob, &bk, &carol, &ck, vec![ak.public_key()]);
        valid_bytes(&load_group(&alice, &gid))
    };
    let mut cases = hostile_variants(&probe, cfg!(not(debug_assertions)));
    cases.push(("extension dropped".into(), vec![]));

    for (i, (label, bytes)) in cases.into_iter().enumerate() {
        // a fresh hostile inviter per case
        let (alice, carol, x) = (memory(), memory(), memory());
        let (ak, ck, xk) = (Keys::generate(), Keys::generate(), Keys::generate());
        let gid = make_group(&alice, &ak, &carol, &ck, &x, &xk, vec![ak.public_key()]);
        let victim = memory();
        let vk = Keys::generate();
        // the victim already has a group of its own
        let own_gid = victim
            .create_group(&vk.public_key(), vec![], config(vec![vk.public_key()]))
            .unwrap()
            .group
            .mls_group_id;
        let _ = own_gid;

        let mut g = load_group(&alice, &gid);
        let s = signer(&alice, &g);
        let mut exts = g.extensions().clone();
        if label == "extension dropped" {
            exts.remove(ExtensionType::Unknown(0xf2ee));
        } else if exts
            .add_or_replace(Extension::Unknown(0xf2ee, UnknownExtension(bytes)))
            .is_err()
        {
            continue;
        }
        if g.update_group_context_extensions(&alice.provider, exts, &s)
            .is_err()
        {
            println!("[{label}] gce commit could not be built");
            continue;
        }
        g.merge_pending_commit(&alice.provider).unwrap();
        let kp_event = key_package_event(&victim, &vk);
        let kp = alice.parse_key_package(&kp_event).unwrap();
        let (_, welcome, _) = match g.add_members(&alice.provider, &s, &[kp]) {
            Ok(x) => x,
            Err(e) => {
                println!("[{label}] add_members failed: {e}");
                continue;
            }
        };
        let content = BASE64.encode(welcome.tls_serialize_detached().unwrap());
        let mut rumor: UnsignedEvent = EventBuilder::new(Kind::MlsWelcome, content)
            .tags(vec![
                Tag::relays(vec![RelayUrl::parse("wss://test.relay").unwrap()]),
                Tag::event(kp_event.id),
                Tag::custom(TagKind::Custom("encoding".into()), ["base64"]),
            ])
            .build(ak.public_key());
        rumor.ensure_id();
        let mut wid = [0x42u8; 32];
        wid[0] = i as u8;
        let wid = EventId::from_slice(&wid).unwrap();

        let before = observe_all(&victim);
        let r = catch_unwind(AssertUnwindSafe(|| victim.process_welcome(&wid, &rumor)));
        match r {
            Err(_) => problems.push(format!("[{label}] PANIC in process_welcome")),
            Ok(Ok(w)) => println!("[{label}] -> accepted ({:?})", w.group_name),
            Ok(Err(e)) => {
                println!("[{label}] -> Err({e})");
                let d = diff(&before, &observe_all(&victim));
                if !d.is_empty() {
                    problems.push(format!("[{label}] Err but changed:\n  {}", d.join("\n  ")));
                }
            }
        }
    }
    assert!(problems.is_empty(), "\n{}", problems.join("\n"));
}
