//! Shared helpers for the R06 (C06) review tests.
#![allow(dead_code)]

use mdk_core::MDK;
use mdk_core::groups::NostrGroupConfigData;
use mdk_core::messages::MessageProcessingResult;
use mdk_memory_storage::MdkMemoryStorage;
use mdk_sqlite_storage::MdkSqliteStorage;
use mdk_storage_traits::{GroupId, MdkStorageProvider};
use nostr::nips::nip44;
use nostr::{
    Event, EventBuilder, EventId, Keys, Kind, RelayUrl, SecretKey, Tag, TagKind, Timestamp,
    UnsignedEvent,
};
use openmls::prelude::MlsGroup;
use openmls_basic_credential::SignatureKeyPair;
use openmls_traits::OpenMlsProvider;
use sha2::{Digest, Sha256};
use tls_codec::Serialize as _;

pub struct Rng(pub u64);
impl Rng {
    pub fn next(&mut self) -> u64 {
        let mut x = self.0;
        x ^= x << 13;
        x ^= x >> 7;
        x ^= x << 17;
        self.0 = x;
        x
    }
    pub fn below(&mut self, n: usize) -> usize {
        (self.next() % n.max(1) as u64) as usize
    }
}

pub fn memory() -> MDK<MdkMemoryStorage> {
    MDK::new(MdkMemoryStorage::default())
}

pub fn sqlite() -> (MDK<MdkSqliteStorage>, tempfile::TempDir) {
    let dir = tempfile::tempdir().unwrap();
    let storage = MdkSqliteStorage::new_unencrypted(dir.path().join("db.sqlite")).unwrap();
    (MDK::new(storage), dir)
}

pub fn key_package_event<S: MdkStorageProvider>(mdk: &MDK<S>, keys: &Keys) -> Event {
    let relays = vec![RelayUrl::parse("wss://test.relay").unwrap()];
    let (content, tags, _) = mdk
        .create_key_package_for_event(&keys.public_key(), relays)
        .unwrap();
    EventBuilder::new(Kind::MlsKeyPackage, content)
        .tags(tags)
        .sign_with_keys(keys)
        .unwrap()
}

pub fn config(admins: Vec<nostr::PublicKey>) -> NostrGroupConfigData {
    NostrGroupConfigData::new(
        "G".to_string(),
        "d".to_string(),
        None,
        None,
        None,
        vec![RelayUrl::parse("wss://test.relay").unwrap()],
        admins,
    )
}

pub fn rumor(keys: &Keys, text: &str) -> UnsignedEvent {
    EventBuilder::new(Kind::Custom(9), text).build(keys.public_key())
}

/// Alice (creator, admin) creates a group with the given invitees, everybody joins.
/// Returns the MLS group id.
pub fn make_group<A, B, C>(
    alice: &MDK<A>,
    alice_keys: &Keys,
    bob: &MDK<B>,
    bob_keys: &Keys,
    carol: &MDK<C>,
    carol_keys: &Keys,
    admins: Vec<nostr::PublicKey>,
) -> GroupId
where
    A: MdkStorageProvider,
    B: MdkStorageProvider,
    C: MdkStorageProvider,
{
    let bob_kp = key_package_event(bob, bob_keys);
    let carol_kp = key_package_event(carol, carol_keys);
    let created = alice
        .create_group(
            &alice_keys.public_key(),
            vec![bob_kp, carol_kp],
            config(admins),
        )
        .unwrap();
    let gid = created.group.mls_group_id.clone();
    let wb = bob
        .process_welcome(
            &EventId::from_slice(&[0xb0; 32]).unwrap(),
            &created.welcome_rumors[0],
        )
        .unwrap();
    bob.accept_welcome(&wb).unwrap();
    let wc = carol
        .process_welcome(
            &EventId::from_slice(&[0xc0; 32]).unwrap(),
            &created.welcome_rumors[1],
        )
        .unwrap();
    carol.accept_welcome(&wc).unwrap();
    gid
}

pub fn load_group<S: MdkStorageProvider>(mdk: &MDK<S>, gid: &GroupId) -> MlsGroup {
    MlsGroup::load(mdk.provider.storage(), gid.inner())
        .unwrap()
        .unwrap()
}

pub fn signer<S: MdkStorageProvider>(mdk: &MDK<S>, group: &MlsGroup) -> SignatureKeyPair {
    let leaf = group.own_leaf().unwrap();
    SignatureKeyPair::read(
        mdk.provider.storage(),
        leaf.signature_key().as_slice(),
        group.ciphersuite().signature_algorithm(),
    )
    .unwrap()
}

/// Exporter-secret keys of the sender's CURRENT epoch
pub fn exporter_keys<S: MdkStorageProvider>(mdk: &MDK<S>, group: &MlsGroup) -> Keys {
    let secret = group
        .export_secret(mdk.provider.crypto(), "nostr", b"nostr", 32)
        .unwrap();
    Keys::new(SecretKey::from_slice(&secret).unwrap())
}

/// Wraps MLS bytes the way build_message_event does, with full control over the outer event.
pub fn wrap_with(
    exporter: &Keys,
    nostr_group_id: &[u8; 32],
    mls_bytes: &[u8],
    created_at: Option<Timestamp>,
) -> Event {
    let content = nip44::encrypt(
        exporter.secret_key(),
        &exporter.public_key,
        mls_bytes,
        nip44::Version::default(),
    )
    .unwrap();
    let mut b = EventBuilder::new(Kind::MlsGroupMessage, content)
        .tag(Tag::custom(TagKind::h(), [hex::encode(nostr_group_id)]));
    if let Some(ts) = created_at {
        b = b.custom_created_at(ts);
    }
    b.sign_with_keys(&Keys::generate()).unwrap()
}

pub fn wrap<S: MdkStorageProvider>(
    sender: &MDK<S>,
    gid: &GroupId,
    group: &MlsGroup,
    mls_bytes: &[u8],
) -> Event {
    let nostr_group_id = sender.get_group(gid).unwrap().unwrap().nostr_group_id;
    wrap_with(
        &exporter_keys(sender, group),
        &nostr_group_id,
        mls_bytes,
        None,
    )
}

/// A hostile member sends arbitrary bytes as an application message.
pub fn raw_app_message<S: MdkStorageProvider>(
    sender: &MDK<S>,
    gid: &GroupId,
    payload: &[u8],
) -> Event {
    let mut group = load_group(sender, gid);
    let s = signer(sender, &group);
    let out = group.create_message(&sender.provider, &s, payload).unwrap();
    let bytes = out.tls_serialize_detached().unwrap();
    wrap(sender, gid, &group, &bytes)
}

/// Everything the property calls observable, as one comparable string.
pub fn observe<S: MdkStorageProvider>(mdk: &MDK<S>, gid: &GroupId) -> Vec<String> {
    let mut out = Vec::new();
    match mdk.get_group(gid) {
        Ok(Some(g)) => out.push(format!("record: {:?}", g)),
        other => out.push(format!("record: {:?}", other.map(|o| o.is_some()))),
    }
    out.push(format!("members: {:?}", mdk.get_members(gid)));
    out.push(format!(
        "pending_member_changes: {:?}",
        mdk.pending_member_changes(gid)
            .map(|c| (c.additions, c.removals))
    ));
    out.push(format!("relays: {:?}", mdk.get_relays(gid)));
    match mdk.get_messages(gid, None) {
        Ok(msgs) => {
            for m in msgs {
                out.push(format!(
                    "msg: {} state={:?} epoch={:?} wrapper={} content={:?}",
                    m.id, m.state, m.epoch, m.wrapper_event_id, m.content
                ));
            }
        }
        Err(e) => out.push(format!("messages: Err({e})")),
    }
    match MlsGroup::load(mdk.provider.storage(), gid.inner()) {
        Ok(Some(g)) => {
            out.push(format!("mls epoch: {}", g.epoch().as_u64()));
            out.push(format!("mls active: {}", g.is_active()));
            out.push(format!("mls pending commit: {}", g.pending_commit().is_some()));
            out.push(format!(
                "mls pending proposals: {}",
                g.pending_proposals().count()
            ));
            let tree = g.export_ratchet_tree().tls_serialize_detached().unwrap();
            out.push(format!("mls tree: {}", hex::encode(Sha256::digest(&tree))));
            out.push(format!(
                "mls exporter: {:?}",
                g.export_secret(mdk.provider.crypto(), "nostr", b"nostr", 32)
                    .map(hex::encode)
                    .map_err(|e| e.to_string())
            ));
            out.push(format!(
                "mls context ext: {}",
                hex::encode(Sha256::digest(
                    g.extensions().tls_serialize_detached().unwrap()
                ))
            ));
        }
        Ok(None) => out.push("mls: none".to_string()),
        Err(_) => out.push("mls: load error".to_string()),
    }
    out
}

/// All groups of a client (to check that other groups are untouched)
pub fn observe_all<S: MdkStorageProvider>(mdk: &MDK<S>) -> Vec<String> {
    let mut groups = mdk.get_groups().unwrap();
    groups.sort_by(|a, b| a.mls_group_id.cmp(&b.mls_group_id));
    let mut out = Vec::new();
    for g in groups {
        out.push(format!("== group {}", hex::encode(g.mls_group_id.as_slice())));
        out.extend(observe(mdk, &g.mls_group_id));
    }
    out
}

pub fn is_failure(r: &Result<MessageProcessingResult, mdk_core::Error>) -> bool {
    matches!(
        r,
        Err(_)
            | Ok(MessageProcessingResult::Unprocessable { .. })
            | Ok(MessageProcessingResult::PreviouslyFailed)
            | Ok(MessageProcessingResult::IgnoredProposal { .. })
    )
}

pub fn short(r: &Result<MessageProcessingResult, mdk_core::Error>) -> String {
    match r {
        Ok(MessageProcessingResult::ApplicationMessage(m)) => format!("Ok(App {:?})", m.content),
        Ok(MessageProcessingResult::Commit { .. }) => "Ok(Commit)".into(),
        Ok(MessageProcessingResult::Proposal(_)) => "Ok(Proposal auto-committed)".into(),
        Ok(MessageProcessingResult::PendingProposal { .. }) => "Ok(PendingProposal)".into(),
        Ok(MessageProcessingResult::IgnoredProposal { reason, .. }) => {
            format!("Ok(IgnoredProposal {reason})")
        }
        Ok(MessageProcessingResult::ExternalJoinProposal { .. }) => "Ok(ExternalJoin)".into(),
        Ok(MessageProcessingResult::Unprocessable { .. }) => "Ok(Unprocessable)".into(),
        Ok(MessageProcessingResult::PreviouslyFailed) => "Ok(PreviouslyFailed)".into(),
        Err(e) => format!("Err({e})"),
    }
}

pub fn diff(before: &[String], after: &[String]) -> Vec<String> {
    let mut d = Vec::new();
    for l in before {
        if !after.contains(l) {
            d.push(format!("- {l}"));
        }
    }
    for l in after {
        if !before.contains(l) {
            d.push(format!("+ {l}"));
        }
    }
    d
}
