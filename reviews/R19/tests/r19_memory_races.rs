//! R19 / property C19: concurrent calls on ONE `MdkMemoryStorage` must behave as some
//! sequential order of those calls.
//!
//! The memory backend has exactly two locks: `inner` (all tables) and `group_snapshots`
//! (the named group snapshots). Every trait method takes `inner` once, for its whole
//! duration, EXCEPT the snapshot methods, which use both locks one after the other:
//!
//! * `create_group_snapshot`      : inner.read (capture) -> released -> group_snapshots.write (insert)
//! * `rollback_group_to_snapshot` : group_snapshots.write { inner.read (id check) -> released ->
//!   inner.write (restore) }
//!
//! Both have a window between the two `inner`/`group_snapshots` sections. The tests below
//! drive plain public trait calls from two threads (no hooks, no inserted delays) and
//! look for an outcome that neither sequential order of the two (three) calls can produce.

use std::collections::BTreeSet;
use std::sync::Barrier;
use std::sync::atomic::{AtomicUsize, Ordering};

use mdk_memory_storage::MdkMemoryStorage;
use mdk_storage_traits::groups::GroupStorage;
use mdk_storage_traits::groups::types::{Group, GroupState, SelfUpdateState};
use mdk_storage_traits::{GroupId, MdkStorageProvider};

fn iterations() -> usize {
    std::env::var("R19_ITERS")
        .ok()
        .and_then(|s| s.parse().ok())
        .unwrap_or(20_000)
}

fn group(id: u8, nostr: u8, name: &str) -> Group {
    Group {
        mls_group_id: GroupId::from_slice(&[id; 4]),
        nostr_group_id: [nostr; 32],
        name: name.to_string(),
        description: String::new(),
        admin_pubkeys: BTreeSet::new(),
        last_message_id: None,
        last_message_at: None,
        last_message_processed_at: None,
        epoch: 0,
        state: GroupState::Active,
        image_hash: None,
        image_key: None,
        image_nonce: None,
        self_update_state: SelfUpdateState::Required,
    }
}

/// T1 `rollback_group_to_snapshot(g1, "s")`   (snapshot holds g1 with Nostr id N1)
/// T2 `save_group(g2 with Nostr id N1)`       (N1 is free at the start: g1 moved to N2)
///
/// Sequential orders:
///   T1;T2 -> rollback Ok (g1 owns N1 again), save_group Err("nostr_group_id already exists")
///   T2;T1 -> save_group Ok (g2 owns N1),     rollback Err("belongs to a different group")
/// So exactly one of the two calls succeeds and N1 has exactly one owner.
///
/// Concurrent: rollback checks N1 under inner.read, RELEASES it, then restores under
/// inner.write. A save_group queued on inner.write during the check runs in between:
/// both calls return Ok and two groups carry N1 (the by-Nostr-id index points to g1, so
/// g2's accepted record is unreachable by its Nostr id).
#[test]
fn r19_rollback_id_check_and_restore_are_not_one_step() {
    const N1: u8 = 0xA1;
    const N2: u8 = 0xA2;
    let both_ok = AtomicUsize::new(0);
    let mut first_bad: Option<String> = None;
    let iters = iterations();

    for i in 0..iters {
        let storage = MdkMemoryStorage::new();
        let g1 = group(1, N1, "g1");
        let g1_id = g1.mls_group_id.clone();
        storage.save_group(g1.clone()).unwrap();
        storage.create_group_snapshot(&g1_id, "s").unwrap();
        // g1 moves to N2: N1 is free again
        storage.save_group(group(1, N2, "g1-moved")).unwrap();
        assert!(storage.find_group_by_nostr_group_id(&[N1; 32]).unwrap().is_none());

        let g2 = group(2, N1, "g2");
        let g2_id = g2.mls_group_id.clone();
        let barrier = Barrier::new(2);

        let (r_rollback, r_save) = std::thread::scope(|s| {
            let t1 = s.spawn(|| {
                barrier.wait();
                storage.rollback_group_to_snapshot(&g1_id, "s")
            });
            let t2 = s.spawn(|| {
                barrier.wait();
                // vary the arrival time a little
                for _ in 0..(i % 7) {
                    std::hint::spin_loop();
                }
                storage.save_group(g2.clone())
            });
            (t1.join().unwrap(), t2.join().unwrap())
        });

        if r_rollback.is_ok() && r_save.is_ok() {
            both_ok.fetch_add(1, Ordering::Relaxed);
            if first_bad.is_none() {
                let s1 = storage.find_group_by_mls_group_id(&g1_id).unwrap().unwrap();
                let s2 = storage.find_group_by_mls_group_id(&g2_id).unwrap().unwrap();
                let owner = storage
                    .find_group_by_nostr_group_id(&[N1; 32])
                    .unwrap()
                    .map(|g| g.name);
                first_bad = Some(format!(
                    "iteration {i}: rollback=Ok save_group=Ok; g1.nostr={:02x} g2.nostr={:02x} \
                     index[N1]->{owner:?}",
                    s1.nostr_group_id[0], s2.nostr_group_id[0]
                ));
            }
        } else {
            // sanity: the sequential outcomes
            assert!(r_rollback.is_ok() ^ r_save.is_ok(), "exactly one must win");
        }
    }

    let n = both_ok.load(Ordering::Relaxed);
    assert_eq!(
        n, 0,
        "{n}/{iters} runs: rollback_group_to_snapshot and save_group BOTH succeeded on the same \
         Nostr group id (no sequential order allows it). First: {}",
        first_bad.unwrap_or_default()
    );
}

/// Snapshot "x" exists and holds g named "v0"; the live group is named "v1".
/// T1 `create_group_snapshot(g, "x")`     (re-take under the same name)
/// T2 `rollback_group_to_snapshot(g, "x")`
///
/// Sequential orders:
///   T1;T2 -> x := v1, rollback to v1, x consumed      => live "v1", no snapshot x
///   T2;T1 -> rollback to v0, x consumed, x := v0      => live "v0", x holds "v0"
///
/// Concurrent: T1 captures the state ("v1") under inner.read and releases it; only later it
/// takes group_snapshots.write to store it. T2 (which holds group_snapshots.write for its
/// whole duration) restores v0 and removes x in between; then T1 stores its stale capture:
/// live "v0" AND x holds "v1": neither order.
#[test]
fn r19_create_snapshot_capture_and_store_are_not_one_step_vs_rollback() {
    let bad = AtomicUsize::new(0);
    let mut first_bad: Option<String> = None;
    let iters = iterations();

    for i in 0..iters {
        let storage = MdkMemoryStorage::new();
        let g = group(1, 0xB1, "v0");
        let gid = g.mls_group_id.clone();
        storage.save_group(g).unwrap();
        storage.create_group_snapshot(&gid, "x").unwrap();
        storage.save_group(group(1, 0xB1, "v1")).unwrap();

        let barrier = Barrier::new(2);
        let (r_create, r_rollback) = std::thread::scope(|s| {
            let t1 = s.spawn(|| {
                barrier.wait();
                storage.create_group_snapshot(&gid, "x")
            });
            let t2 = s.spawn(|| {
                barrier.wait();
                storage.rollback_group_to_snapshot(&gid, "x")
            });
            (t1.join().unwrap(), t2.join().unwrap())
        });
        r_create.unwrap();
        r_rollback.unwrap(); // x exists in both orders, so the rollback always finds it

        let live = storage.find_group_by_mls_group_id(&gid).unwrap().unwrap().name;
        let x_exists = !storage.list_group_snapshots(&gid).unwrap().is_empty();
        let x_holds = if x_exists {
            storage.rollback_group_to_snapshot(&gid, "x").unwrap();
            Some(storage.find_group_by_mls_group_id(&gid).unwrap().unwrap().name)
        } else {
            None
        };

        let order_create_first = live == "v1" && x_holds.is_none();
        let order_rollback_first = live == "v0" && x_holds.as_deref() == Some("v0");
        if !(order_create_first || order_rollback_first) {
            bad.fetch_add(1, Ordering::Relaxed);
            if first_bad.is_none() {
                first_bad = Some(format!("iteration {i}: live={live:?} snapshot x holds {x_holds:?}"));
            }
        }
    }

    let n = bad.load(Ordering::Relaxed);
    assert_eq!(
        n, 0,
        "{n}/{iters} runs ended in a state no sequential order of create_group_snapshot / \
         rollback_group_to_snapshot produces. First: {}",
        first_bad.unwrap_or_default()
    );
}

/// T1 `create_group_snapshot(g, "x")`
/// T2 `save_group(g renamed "v2")` ; then `list_group_snapshots(g)`
///
/// If T2's listing does not show "x", the snapshot was created after the listing, hence
/// after T2's save_group (program order of T2): it must hold "v2". Concurrently the capture
/// happens before the save and the store after the listing: the snapshot "created later"
/// holds the older "v1".
#[test]
fn r19_create_snapshot_capture_and_store_are_not_one_step_vs_save_and_list() {
    let bad = AtomicUsize::new(0);
    let mut first_bad: Option<String> = None;
    let iters = iterations();

    for i in 0..iters {
        let storage = MdkMemoryStorage::new();
        let g = group(1, 0xC1, "v1");
        let gid = g.mls_group_id.clone();
        storage.save_group(g).unwrap();

        let barrier = Barrier::new(2);
        let listed_x = std::thread::scope(|s| {
            let t1 = s.spawn(|| {
                barrier.wait();
                storage.create_group_snapshot(&gid, "x").unwrap();
            });
            let t2 = s.spawn(|| {
                barrier.wait();
                storage.save_group(group(1, 0xC1, "v2")).unwrap();
                !storage.list_group_snapshots(&gid).unwrap().is_empty()
            });
            t1.join().unwrap();
            t2.join().unwrap()
        });

        storage.rollback_group_to_snapshot(&gid, "x").unwrap();
        let held = storage.find_group_by_mls_group_id(&gid).unwrap().unwrap().name;
        if !listed_x && held != "v2" {
            bad.fetch_add(1, Ordering::Relaxed);
            if first_bad.is_none() {
                first_bad = Some(format!(
                    "iteration {i}: listing after save_group(v2) showed no snapshot, yet the \
                     snapshot holds {held:?}"
                ));
            }
        }
    }

    let n = bad.load(Ordering::Relaxed);
    assert_eq!(n, 0, "{n}/{iters} runs. First: {}", first_bad.unwrap_or_default());
}

/// Control: 12 threads of mixed trait calls on one instance. Checks what the single `inner`
/// lock does guarantee: no half-applied relay replace, a snapshot is the state of one instant
/// (the writer saves name k and THEN relay set k; a snapshot must never hold relay set newer
/// than the name), group B is never disturbed by group A's rollbacks, no deadlock/panic.
#[test]
fn r19_control_single_lock_operations_are_atomic() {
    use nostr::RelayUrl;
    let storage = MdkMemoryStorage::new();
    let ga = group(1, 1, "0");
    let gb = group(2, 2, "B");
    let (ida, idb) = (ga.mls_group_id.clone(), gb.mls_group_id.clone());
    storage.save_group(ga).unwrap();
    storage.save_group(gb).unwrap();
    let set = |k: usize| -> BTreeSet<RelayUrl> {
        (0..4)
            .map(|j| RelayUrl::parse(&format!("wss://r{k}-{j}.example.com")).unwrap())
            .collect()
    };
    let tag = |s: &BTreeSet<RelayUrl>| -> Option<usize> {
        let tags: BTreeSet<usize> = s
            .iter()
            .map(|u| {
                let t = u.as_str().trim_start_matches("wss://r");
                t[..t.find('-').unwrap()].parse().unwrap()
            })
            .collect();
        if s.len() == 4 && tags.len() == 1 { tags.into_iter().next() } else { None }
    };
    storage.replace_group_relays(&ida, set(0)).unwrap();
    storage.replace_group_relays(&idb, set(999_999)).unwrap();
    let rounds = iterations().min(3000);

    std::thread::scope(|s| {
        // writer of group A: name k, then relays k
        s.spawn(|| {
            for k in 1..=rounds {
                storage.save_group(group(1, 1, &k.to_string())).unwrap();
                storage.replace_group_relays(&ida, set(k)).unwrap();
            }
        });
        // snapshotter of group A (own snapshot names: no same-name race here)
        for t in 0..3usize {
            let (storage, ida) = (&storage, &ida);
            s.spawn(move || {
                for r in 0..rounds / 4 {
                    let name = format!("t{t}-{r}");
                    storage.create_group_snapshot(ida, &name).unwrap();
                    storage.release_group_snapshot(ida, &name).unwrap();
                    let _ = storage.list_group_snapshots(ida).unwrap();
                    let _ = storage.prune_expired_snapshots(0).unwrap();
                }
            });
        }
        // readers
        for _ in 0..6 {
            let (storage, ida, idb) = (&storage, &ida, &idb);
            let (set, tag) = (&set, &tag);
            s.spawn(move || {
                for _ in 0..rounds {
                    let name: usize = storage
                        .find_group_by_mls_group_id(ida)
                        .unwrap()
                        .unwrap()
                        .name
                        .parse()
                        .unwrap();
                    let relays: BTreeSet<RelayUrl> = storage
                        .group_relays(ida)
                        .unwrap()
                        .into_iter()
                        .map(|r| r.relay_url)
                        .collect();
                    let k = tag(&relays).expect("half-applied relay replace visible");
                    assert!(k + 1 >= name, "relays older than a name read before them");
                    let b: BTreeSet<RelayUrl> = storage
                        .group_relays(idb)
                        .unwrap()
                        .into_iter()
                        .map(|r| r.relay_url)
                        .collect();
                    assert_eq!(b, set(999_999));
                }
            });
        }
        // rollbacks of a third group C while A is written and B is read
        s.spawn(|| {
            let idc = GroupId::from_slice(&[3; 4]);
            for r in 0..rounds / 4 {
                let name = format!("rb-{r}");
                storage.save_group(group(3, 3, &format!("C{r}"))).unwrap();
                storage.create_group_snapshot(&idc, &name).unwrap();
                storage.save_group(group(3, 3, "C-later")).unwrap();
                storage.rollback_group_to_snapshot(&idc, &name).unwrap();
                assert_eq!(
                    storage.find_group_by_mls_group_id(&idc).unwrap().unwrap().name,
                    format!("C{r}")
                );
                assert_eq!(storage.find_group_by_mls_group_id(&idb).unwrap().unwrap().name, "B");
            }
        });
    });
}
