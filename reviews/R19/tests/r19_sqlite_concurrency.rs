//! R19 / property C19 on the SQLite backend.
//!
//! One `MdkSqliteStorage` = one `Arc<Mutex<Connection>>`; every trait method takes the mutex
//! once or (check-then-act) twice. These tests exercise what the mutex does NOT cover:
//! first-open of the same path from several threads, and two instances on one file.

use std::collections::{BTreeMap, BTreeSet};
use std::sync::{Barrier, OnceLock};

use mdk_sqlite_storage::error::Error;
use mdk_sqlite_storage::{EncryptionConfig, MdkSqliteStorage};
use mdk_storage_traits::groups::GroupStorage;
use mdk_storage_traits::groups::types::{Group, GroupState, SelfUpdateState};
use mdk_storage_traits::{GroupId, MdkStorageProvider};
use nostr::RelayUrl;

fn iterations(default: usize) -> usize {
    std::env::var("R19_ITERS")
        .ok()
        .and_then(|s| s.parse().ok())
        .unwrap_or(default)
}

fn ensure_mock_store() {
    static INIT: OnceLock<()> = OnceLock::new();
    INIT.get_or_init(|| {
        keyring_core::set_default_store(keyring_core::mock::Store::new().unwrap());
    });
}

fn group(id: u8, nostr: u8, name: &str) -> Group {
    Group {
        mls_group_id: GroupId::from_slice(&[id; 4]),
        nostr_group_id: [nostr; 32],
        name: name.to_string(),
        description: String::new(),
        admin_pubkeys: BTreeSet::new(),
        last_message_id: None,
        last_message_at: None,
        last_message_processed_at: None,
        epoch: 0,
        state: GroupState::Active,
        image_hash: None,
        image_key: None,
        image_nonce: None,
        self_update_state: SelfUpdateState::Required,
    }
}

fn classify(e: &Error) -> String {
    let s = e.to_string();
    if s.contains("database is locked") {
        "database is locked".to_string()
    } else {
        s.chars().take(110).collect()
    }
}

/// N threads call `MdkSqliteStorage::new(path, service, key_id)` on a path that does not
/// exist yet. In every sequential order all N calls succeed (the first creates file + key,
/// the others find both). Concurrently a late thread can see "file exists" (the winner has
/// pre-created it) and "no key in the keyring" (the winner has not stored it yet) and
/// reports `UnencryptedDatabaseWithEncryption` for a database nobody created unencrypted.
#[test]
fn r19_first_open_with_keyring_from_several_threads() {
    ensure_mock_store();
    let iters = iterations(100);
    let threads = 4;
    let mut errors: BTreeMap<String, usize> = BTreeMap::new();

    for i in 0..iters {
        let dir = tempfile::tempdir().unwrap();
        let path = dir.path().join("first_open.db");
        let service = "r19.first.open";
        let key_id = format!("r19.key.{i}");
        let barrier = Barrier::new(threads);

        let results: Vec<Result<MdkSqliteStorage, Error>> = std::thread::scope(|s| {
            let hs: Vec<_> = (0..threads)
                .map(|_| {
                    s.spawn(|| {
                        barrier.wait();
                        MdkSqliteStorage::new(&path, service, &key_id)
                    })
                })
                .collect();
            hs.into_iter().map(|h| h.join().unwrap()).collect()
        });

        for r in &results {
            if let Err(e) = r {
                *errors.entry(classify(e)).or_default() += 1;
            }
        }
        drop(results);
        // whatever happened, the path must be usable afterwards
        let reopened = MdkSqliteStorage::new(&path, service, &key_id);
        assert!(reopened.is_ok(), "path unusable after racing first-open: {:?}", reopened.err());
    }

    eprintln!("first-open (keyring) error histogram over {iters}x{threads} calls: {errors:#?}");
    let unacceptable: Vec<_> = errors
        .iter()
        .filter(|(k, _)| k.as_str() != "database is locked")
        .collect();
    assert!(
        unacceptable.is_empty(),
        "first-open calls failed with errors no sequential order produces: {unacceptable:#?}"
    );
}

/// Same, without the keyring: N threads `new_unencrypted(path)` on a fresh path, i.e. N
/// connections running the migrations at once.
#[test]
fn r19_first_open_unencrypted_from_several_threads() {
    let iters = iterations(100);
    let threads = 4;
    let mut errors: BTreeMap<String, usize> = BTreeMap::new();

    for _ in 0..iters {
        let dir = tempfile::tempdir().unwrap();
        let path = dir.path().join("first_open_plain.db");
        let barrier = Barrier::new(threads);

        let results: Vec<Result<MdkSqliteStorage, Error>> = std::thread::scope(|s| {
            let hs: Vec<_> = (0..threads)
                .map(|_| {
                    s.spawn(|| {
                        barrier.wait();
                        MdkSqliteStorage::new_unencrypted(&path)
                    })
                })
                .collect();
            hs.into_iter().map(|h| h.join().unwrap()).collect()
        });
        for r in &results {
            if let Err(e) = r {
                *errors.entry(classify(e)).or_default() += 1;
            }
        }
        drop(results);
        let reopened = MdkSqliteStorage::new_unencrypted(&path).expect("reopen");
        reopened.save_group(group(1, 1, "after")).expect("usable after racing migrations");
    }

    eprintln!("first-open (unencrypted) error histogram over {iters}x{threads}: {errors:#?}");
    let unacceptable: Vec<_> = errors
        .iter()
        .filter(|(k, _)| k.as_str() != "database is locked")
        .collect();
    assert!(unacceptable.is_empty(), "{unacceptable:#?}");
}

/// Same with a caller-provided key.
#[test]
fn r19_first_open_with_key_from_several_threads() {
    let iters = iterations(100);
    let threads = 4;
    let mut errors: BTreeMap<String, usize> = BTreeMap::new();

    for _ in 0..iters {
        let dir = tempfile::tempdir().unwrap();
        let path = dir.path().join("first_open_key.db");
        let key = *EncryptionConfig::generate().unwrap().key();
        let barrier = Barrier::new(threads);

        let results: Vec<Result<MdkSqliteStorage, Error>> = std::thread::scope(|s| {
            let hs: Vec<_> = (0..threads)
                .map(|_| {
                    s.spawn(|| {
                        barrier.wait();
                        MdkSqliteStorage::new_with_key(&path, EncryptionConfig::new(key))
                    })
                })
                .collect();
            hs.into_iter().map(|h| h.join().unwrap()).collect()
        });
        for r in &results {
            if let Err(e) = r {
                *errors.entry(classify(e)).or_default() += 1;
            }
        }
        drop(results);
        let reopened =
            MdkSqliteStorage::new_with_key(&path, EncryptionConfig::new(key)).expect("reopen");
        reopened.save_group(group(1, 1, "after")).expect("usable");
    }

    eprintln!("first-open (with key) error histogram over {iters}x{threads}: {errors:#?}");
    let unacceptable: Vec<_> = errors
        .iter()
        .filter(|(k, _)| k.as_str() != "database is locked")
        .collect();
    assert!(unacceptable.is_empty(), "{unacceptable:#?}");
}

/// Two instances on one file. `restore_group_from_snapshot` reads the snapshot rows (and the
/// group's OTHER snapshots) BEFORE its `BEGIN IMMEDIATE`; the other connection can commit in
/// between.
///
/// I1 `rollback_group_to_snapshot(g, "x")`, I2 `release_group_snapshot(g, "y")`:
/// in both sequential orders "y" is gone afterwards. (Here the group row is kept by the
/// restore, so nothing cascades; "y" can only come back through the re-insert of the rows
/// read before the transaction.)
#[test]
fn r19_two_instances_rollback_vs_release_other_snapshot() {
    let iters = iterations(300);
    let mut resurrected = 0usize;
    let mut errors: BTreeMap<String, usize> = BTreeMap::new();

    let dir = tempfile::tempdir().unwrap();
    for i in 0..iters {
        let path = dir.path().join(format!("two_{i}.db"));
        let i1 = MdkSqliteStorage::new_unencrypted(&path).unwrap();
        let i2 = MdkSqliteStorage::new_unencrypted(&path).unwrap();
        let g = group(1, 1, "v0");
        let gid = g.mls_group_id.clone();
        i1.save_group(g).unwrap();
        i1.create_group_snapshot(&gid, "x").unwrap();
        i1.create_group_snapshot(&gid, "y").unwrap();

        let barrier = Barrier::new(2);
        let (r1, r2) = std::thread::scope(|s| {
            let t1 = s.spawn(|| {
                barrier.wait();
                i1.rollback_group_to_snapshot(&gid, "x")
            });
            let t2 = s.spawn(|| {
                barrier.wait();
                for _ in 0..(i % 50) * 20 {
                    std::hint::spin_loop();
                }
                i2.release_group_snapshot(&gid, "y")
            });
            (t1.join().unwrap(), t2.join().unwrap())
        });
        for r in [&r1, &r2] {
            if let Err(e) = r {
                *errors.entry(e.to_string().chars().take(90).collect()).or_default() += 1;
            }
        }
        if r1.is_ok() && r2.is_ok() {
            let names: Vec<String> = i1
                .list_group_snapshots(&gid)
                .unwrap()
                .into_iter()
                .map(|(n, _)| n)
                .collect();
            if names.iter().any(|n| n == "y") {
                resurrected += 1;
            }
        }
        drop((i1, i2));
        let _ = std::fs::remove_file(&path);
    }
    eprintln!("two-instance rollback/release errors: {errors:#?}");
    assert_eq!(
        resurrected, 0,
        "{resurrected}/{iters}: snapshot \"y\" was released (Ok) and is listed again afterwards"
    );
}

/// ONE instance, 8 threads: relay replacement, exporter-free group saves on two groups,
/// snapshot create/rollback on group A only. Checks: a relay listing is always one of the
/// sets ever written as a whole (no half-applied replace), group B is never disturbed by
/// A's rollbacks, nothing panics or deadlocks.
#[test]
fn r19_single_instance_stress() {
    let dir = tempfile::tempdir().unwrap();
    let storage = MdkSqliteStorage::new_unencrypted(dir.path().join("stress.db")).unwrap();
    let ga = group(1, 1, "A0");
    let gb = group(2, 2, "B");
    let (ida, idb) = (ga.mls_group_id.clone(), gb.mls_group_id.clone());
    storage.save_group(ga).unwrap();
    storage.save_group(gb).unwrap();

    let set = |tag: &str| -> BTreeSet<RelayUrl> {
        (0..4)
            .map(|k| RelayUrl::parse(&format!("wss://{tag}{k}.example.com")).unwrap())
            .collect()
    };
    let sets = [set("p"), set("q"), set("r")];
    storage.replace_group_relays(&ida, sets[0].clone()).unwrap();
    storage.replace_group_relays(&idb, sets[2].clone()).unwrap();
    let rounds = iterations(400);

    std::thread::scope(|s| {
        for w in 0..2usize {
            let (storage, ida, sets) = (&storage, &ida, &sets);
            s.spawn(move || {
                for r in 0..rounds {
                    storage
                        .replace_group_relays(ida, sets[(r + w) % 2].clone())
                        .unwrap();
                }
            });
        }
        for _ in 0..2 {
            let (storage, ida, idb, sets) = (&storage, &ida, &idb, &sets);
            s.spawn(move || {
                for _ in 0..rounds {
                    let a: BTreeSet<RelayUrl> = storage
                        .group_relays(ida)
                        .unwrap()
                        .into_iter()
                        .map(|r| r.relay_url)
                        .collect();
                    assert!(a == sets[0] || a == sets[1], "half-applied replace visible: {a:?}");
                    let b: BTreeSet<RelayUrl> = storage
                        .group_relays(idb)
                        .unwrap()
                        .into_iter()
                        .map(|r| r.relay_url)
                        .collect();
                    assert_eq!(b, sets[2], "group B disturbed");
                    assert_eq!(storage.find_group_by_mls_group_id(idb).unwrap().unwrap().name, "B");
                }
            });
        }
        {
            let (storage, ida, sets) = (&storage, &ida, &sets);
            s.spawn(move || {
                for r in 0..rounds {
                    let name = format!("s{}", r % 3);
                    storage.create_group_snapshot(ida, &name).unwrap();
                    storage.save_group(group(1, 1, &format!("A{r}"))).unwrap();
                    if r % 2 == 0 {
                        storage.rollback_group_to_snapshot(ida, &name).unwrap();
                        let relays: BTreeSet<RelayUrl> = storage
                            .group_relays(ida)
                            .unwrap()
                            .into_iter()
                            .map(|r| r.relay_url)
                            .collect();
                        assert!(relays == sets[0] || relays == sets[1]);
                    } else {
                        storage.release_group_snapshot(ida, &name).unwrap();
                    }
                    let _ = storage.list_group_snapshots(ida).unwrap();
                    let _ = storage.prune_expired_snapshots(0).unwrap();
                }
            });
        }
    });
}
