//! C12 review (crash at any storage step leaves a recoverable database).
//!
//! Test-only. Takes file images of the database (and its `-journal`) from inside SQLite's
//! commit hook, i.e. at the instant just BEFORE commit number k becomes durable, which is the
//! on-disk state a process death between commit k-1 and commit k leaves behind. Every image is
//! then reopened through the public constructors.

use std::collections::BTreeSet;
use std::path::{Path, PathBuf};
use std::sync::{Arc, Mutex as StdMutex};

use mdk_storage_traits::groups::GroupStorage;
use mdk_storage_traits::groups::types::{Group, GroupExporterSecret, GroupState, SelfUpdateState};
use mdk_storage_traits::{GroupId, MdkStorageProvider, Secret};
use nostr::RelayUrl;
use rusqlite::Connection;

use crate::{EncryptionConfig, MdkSqliteStorage, migrations};

fn test_group(id: u8) -> Group {
    Group {
        mls_group_id: GroupId::from_slice(&[id; 32]),
        nostr_group_id: [id; 32],
        name: format!("Test Group {}", id),
        description: format!("Description {}", id),
        admin_pubkeys: BTreeSet::new(),
        last_message_id: None,
        last_message_at: None,
        last_message_processed_at: None,
        epoch: 0,
        state: GroupState::Active,
        image_hash: None,
        image_key: None,
        image_nonce: None,
        self_update_state: SelfUpdateState::Required,
    }
}

/// Copies `db` and `db-journal` (if present) into `out/<k>/`.
fn take_image(db: &Path, out: &Path, k: usize) -> PathBuf {
    let dir = out.join(format!("{k:03}"));
    std::fs::create_dir_all(&dir).unwrap();
    let name = db.file_name().unwrap().to_str().unwrap().to_string();
    std::fs::copy(db, dir.join(&name)).unwrap();
    for suffix in ["-journal", "-wal", "-shm"] {
        let side = db.with_file_name(format!("{name}{suffix}"));
        if side.exists() {
            std::fs::copy(&side, dir.join(format!("{name}{suffix}"))).unwrap();
        }
    }
    dir.join(name)
}

/// Installs a commit hook on `conn` that takes an image before every commit.
/// Returns the shared list of image paths (index i = image taken before commit i+1).
fn image_before_every_commit(conn: &Connection, db: &Path, out: &Path) -> Arc<StdMutex<Vec<PathBuf>>> {
    let images: Arc<StdMutex<Vec<PathBuf>>> = Arc::new(StdMutex::new(Vec::new()));
    let images2 = images.clone();
    let db = db.to_path_buf();
    let out = out.to_path_buf();
    conn.commit_hook(Some(move || {
        let mut v = images2.lock().unwrap();
        let k = v.len() + 1;
        v.push(take_image(&db, &out, k));
        false // do not turn the commit into a rollback
    }));
    images
}

fn open(path: &Path, key: Option<[u8; 32]>) -> Result<MdkSqliteStorage, crate::error::Error> {
    match key {
        Some(k) => MdkSqliteStorage::new_with_key(path, EncryptionConfig::new(k)),
        None => MdkSqliteStorage::new_unencrypted(path),
    }
}

fn applied_versions(conn: &Connection) -> Vec<i64> {
    let mut stmt = match conn
        .prepare("SELECT version FROM _refinery_schema_history_nostr_mls ORDER BY version")
    {
        Ok(s) => s,
        Err(_) => return vec![],
    };
    stmt.query_map([], |r| r.get(0))
        .unwrap()
        .collect::<Result<Vec<i64>, _>>()
        .unwrap()
}

/// Runs exactly what `new_internal_skip_precreate` runs (open_connection + run_migrations) on a
/// fresh file, taking an image before every commit, and reopens every image.
fn fresh_db_migration_images(key: Option<[u8; 32]>) -> Vec<String> {
    let tmp = tempfile::tempdir().unwrap();
    let db = tmp.path().join("live").join("mdk.db");
    std::fs::create_dir_all(db.parent().unwrap()).unwrap();
    let out = tmp.path().join("images");

    let cfg = key.map(EncryptionConfig::new);
    let mut conn = MdkSqliteStorage::open_connection(&db, cfg.as_ref()).unwrap();
    let images = image_before_every_commit(&conn, &db, &out);
    migrations::run_migrations(&mut conn).unwrap();
    conn.commit_hook(None::<fn() -> bool>);
    let full = applied_versions(&conn);
    assert_eq!(full, vec![1, 2, 3, 4]);
    drop(conn);

    let mut failures = Vec::new();
    let images = images.lock().unwrap().clone();
    println!("commits during a fresh run_migrations: {}", images.len());
    for (i, img) in images.iter().enumerate() {
        // What is recorded as applied in this image (read with a throw-away raw connection on a copy)
        let probe_dir = img.parent().unwrap().join("probe");
        std::fs::create_dir_all(&probe_dir).unwrap();
        let probe = probe_dir.join("mdk.db");
        std::fs::copy(img, &probe).unwrap();
        let recorded = MdkSqliteStorage::open_connection(&probe, cfg.as_ref())
            .map(|c| applied_versions(&c))
            .unwrap_or_default();

        match open(img, key) {
            Ok(storage) => {
                // the reopened database must be complete and usable
                let v = storage.with_connection(applied_versions);
                assert_eq!(v, vec![1, 2, 3, 4], "image {} reopened but schema incomplete", i + 1);
                storage.save_group(test_group(7)).unwrap();
                assert!(storage.all_groups().unwrap().len() == 1);
                println!(
                    "  death before commit {:2} (history rows {:?}): reopen OK",
                    i + 1,
                    recorded
                );
            }
            Err(e) => {
                // Is it permanent? try again.
                let again = open(img, key).err().map(|e| e.to_string());
                println!(
                    "  death before commit {:2} (history rows {:?}): REOPEN FAILS: {} / second attempt: {:?}",
                    i + 1,
                    recorded,
                    e,
                    again
                );
                failures.push(format!("death before commit {}: {}", i + 1, e));
            }
        }
    }
    failures
}

/// (2) Migrations: a death between two commits of `run_migrations` must leave a file that opens.
#[test]
fn c12_migrations_death_between_commits_fresh_unencrypted() {
    let failures = fresh_db_migration_images(None);
    assert!(
        failures.is_empty(),
        "database cannot be reopened after a death inside run_migrations: {failures:#?}"
    );
}

/// Same with SQLCipher and a key (first open with a key; leftover -journal copied along).
#[test]
fn c12_migrations_death_between_commits_fresh_encrypted() {
    let failures = fresh_db_migration_images(Some([0x42; 32]));
    assert!(
        failures.is_empty(),
        "encrypted database cannot be reopened after a death inside run_migrations: {failures:#?}"
    );
}

/// The realistic case: an existing user database at schema V003 holding a group is upgraded by
/// a new app version (V004 = ALTER TABLE groups ADD COLUMN). Death between the commit of the
/// migration's DDL and the commit of its history row.
#[test]
fn c12_migrations_death_during_upgrade_with_user_data() {
    let tmp = tempfile::tempdir().unwrap();
    let db = tmp.path().join("live").join("mdk.db");
    std::fs::create_dir_all(db.parent().unwrap()).unwrap();
    let out = tmp.path().join("images");

    // old app version: schema up to V003, one group stored
    let mut conn = MdkSqliteStorage::open_connection(&db, None).unwrap();
    let mut runner = migrations::migrations::runner().set_target(refinery::Target::Version(3));
    runner.set_migration_table_name("_refinery_schema_history_nostr_mls");
    runner.run(&mut conn).unwrap();
    assert_eq!(applied_versions(&conn), vec![1, 2, 3]);
    conn.execute(
        "INSERT INTO groups (mls_group_id, nostr_group_id, name, description, admin_pubkeys, epoch, state)
         VALUES (?, ?, 'precious', 'user data', '[]', 5, 'active')",
        rusqlite::params![&[9u8; 32][..], &[9u8; 32][..]],
    )
    .unwrap();
    drop(conn);

    // new app version starts: the same two steps as MdkSqliteStorage::new_internal_skip_precreate
    let mut conn = MdkSqliteStorage::open_connection(&db, None).unwrap();
    let images = image_before_every_commit(&conn, &db, &out);
    migrations::run_migrations(&mut conn).unwrap();
    drop(conn);

    let images = images.lock().unwrap().clone();
    println!("commits during the V003->V004 upgrade: {}", images.len());
    let mut failures = Vec::new();
    for (i, img) in images.iter().enumerate() {
        match MdkSqliteStorage::new_unencrypted(img) {
            Ok(storage) => {
                let groups = storage.all_groups().unwrap();
                assert_eq!(groups.len(), 1);
                assert_eq!(groups[0].name, "precious");
                println!("  death before commit {}: reopen OK, group loads", i + 1);
            }
            Err(e) => {
                let again = MdkSqliteStorage::new_unencrypted(img).err().map(|e| e.to_string());
                println!(
                    "  death before commit {}: REOPEN FAILS: {} / second attempt: {:?}",
                    i + 1,
                    e,
                    again
                );
                failures.push(format!("death before commit {}: {}", i + 1, e));
            }
        }
    }
    assert!(
        failures.is_empty(),
        "user database locked out for good after a death during the schema upgrade: {failures:#?}"
    );
}

/// (1) Every operation claimed all-or-nothing must be exactly one commit.
#[test]
fn c12_atomic_operations_are_one_commit_each() {
    let tmp = tempfile::tempdir().unwrap();
    let db = tmp.path().join("mdk.db");
    let storage = MdkSqliteStorage::new_unencrypted(&db).unwrap();
    let g = test_group(1);
    let gid = g.mls_group_id.clone();
    storage.save_group(g).unwrap();
    storage
        .replace_group_relays(
            &gid,
            BTreeSet::from([RelayUrl::parse("wss://a.example").unwrap()]),
        )
        .unwrap();
    storage
        .save_group_exporter_secret(GroupExporterSecret {
            mls_group_id: gid.clone(),
            epoch: 0,
            secret: Secret::new([1u8; 32]),
        })
        .unwrap();

    let counter = Arc::new(StdMutex::new(0usize));
    let c2 = counter.clone();
    storage.with_connection(|c| {
        c.commit_hook(Some(move || {
            *c2.lock().unwrap() += 1;
            false
        }))
    });
    let take = |label: &str| {
        let mut c = counter.lock().unwrap();
        let n = *c;
        *c = 0;
        println!("  {label}: {n} commit(s)");
        n
    };

    storage.create_group_snapshot(&gid, "s1").unwrap();
    assert_eq!(take("create_group_snapshot"), 1);
    storage.create_group_snapshot(&gid, "s1").unwrap();
    assert_eq!(take("create_group_snapshot (same name again)"), 1);
    storage.create_group_snapshot(&gid, "s2").unwrap();
    take("create_group_snapshot s2");
    storage
        .replace_group_relays(
            &gid,
            BTreeSet::from([
                RelayUrl::parse("wss://b.example").unwrap(),
                RelayUrl::parse("wss://c.example").unwrap(),
                RelayUrl::parse("wss://d.example").unwrap(),
            ]),
        )
        .unwrap();
    assert_eq!(take("replace_group_relays (3 relays)"), 1);
    storage.rollback_group_to_snapshot(&gid, "s1").unwrap();
    assert_eq!(take("rollback_group_to_snapshot"), 1);
    assert_eq!(storage.group_relays(&gid).unwrap().len(), 1);
    storage.release_group_snapshot(&gid, "s2").unwrap();
    assert_eq!(take("release_group_snapshot"), 1);
    storage.create_group_snapshot(&gid, "s3").unwrap();
    take("create_group_snapshot s3");
    storage.prune_expired_snapshots(u64::MAX / 4).unwrap();
    assert_eq!(take("prune_expired_snapshots"), 1);
}

/// (3)+(1) Death in the MIDDLE of the snapshot / restore transaction with pages already spilled
/// to an encrypted main file (tiny page cache forces the spill): the image holds a hot journal
/// and must reopen, with the right key, as the state before the transaction.
#[test]
fn c12_hot_journal_mid_snapshot_and_mid_restore_encrypted() {
    let key = [0x17u8; 32];
    let tmp = tempfile::tempdir().unwrap();
    let db = tmp.path().join("live").join("mdk.db");
    std::fs::create_dir_all(db.parent().unwrap()).unwrap();
    let out = tmp.path().join("images");
    let storage = open(&db, Some(key)).unwrap();
    let g = test_group(1);
    let gid = g.mls_group_id.clone();
    storage.save_group(g).unwrap();
    // a lot of per-group state so that the transactions touch many pages
    for epoch in 0..400u64 {
        storage
            .save_group_exporter_secret(GroupExporterSecret {
                mls_group_id: gid.clone(),
                epoch,
                secret: Secret::new([epoch as u8; 32]),
            })
            .unwrap();
    }
    storage.with_connection(|c| c.execute_batch("PRAGMA cache_size = 1;").unwrap());

    let images = storage.with_connection(|c| image_before_every_commit(c, &db, &out));
    storage.create_group_snapshot(&gid, "snap").unwrap(); // image 1: mid-snapshot
    let mut g2 = storage.find_group_by_mls_group_id(&gid).unwrap().unwrap();
    g2.epoch = 9;
    g2.name = "after".into();
    storage.save_group(g2).unwrap(); // image 2
    storage.rollback_group_to_snapshot(&gid, "snap").unwrap(); // image 3: mid-restore
    let images = images.lock().unwrap().clone();
    assert_eq!(images.len(), 3);

    let main_changed = |img: &Path| -> (u64, bool) {
        let j = img.with_file_name("mdk.db-journal");
        (
            std::fs::metadata(img).unwrap().len(),
            j.exists() && std::fs::metadata(&j).unwrap().len() > 512,
        )
    };

    // image 1: died before the snapshot's COMMIT
    println!("image 1 (mid-snapshot): size/hot-journal = {:?}", main_changed(&images[0]));
    let s = open(&images[0], Some(key)).expect("mid-snapshot image must open with the key");
    assert_eq!(s.find_group_by_mls_group_id(&gid).unwrap().unwrap().epoch, 0);
    assert!(s.list_group_snapshots(&gid).unwrap().is_empty(), "half a snapshot visible");
    for epoch in [0u64, 399] {
        assert!(s.get_group_exporter_secret(&gid, epoch).unwrap().is_some());
    }

    // image 3: died before the restore's COMMIT
    println!("image 3 (mid-restore): size/hot-journal = {:?}", main_changed(&images[2]));
    let s = open(&images[2], Some(key)).expect("mid-restore image must open with the key");
    let g = s.find_group_by_mls_group_id(&gid).unwrap().unwrap();
    assert_eq!((g.epoch, g.name.as_str()), (9, "after"), "restore partially visible");
    assert_eq!(s.list_group_snapshots(&gid).unwrap().len(), 1);
    for epoch in [0u64, 399] {
        assert!(s.get_group_exporter_secret(&gid, epoch).unwrap().is_some());
    }
    // and the interrupted rollback can be run again to completion
    s.rollback_group_to_snapshot(&gid, "snap").unwrap();
    assert_eq!(s.find_group_by_mls_group_id(&gid).unwrap().unwrap().epoch, 0);
}

/// (4) Every durability-relevant PRAGMA as the crate leaves it.
#[test]
fn c12_report_effective_pragmas() {
    let tmp = tempfile::tempdir().unwrap();
    for key in [None, Some([5u8; 32])] {
        let db = tmp.path().join(if key.is_some() { "enc.db" } else { "plain.db" });
        let storage = open(&db, key).unwrap();
        storage.with_connection(|c| {
            let s = |p: &str| -> String {
                c.query_row(&format!("PRAGMA {p}"), [], |r| {
                    r.get::<_, rusqlite::types::Value>(0)
                })
                .map(|v| format!("{v:?}"))
                .unwrap_or_else(|e| format!("<{e}>"))
            };
            println!(
                "encrypted={} journal_mode={} synchronous={} foreign_keys={} temp_store={} locking_mode={} busy_timeout={} fullfsync={} defer_foreign_keys={}",
                key.is_some(),
                s("journal_mode"),
                s("synchronous"),
                s("foreign_keys"),
                s("temp_store"),
                s("locking_mode"),
                s("busy_timeout"),
                s("fullfsync"),
                s("defer_foreign_keys"),
            );
            let jm: String = c.query_row("PRAGMA journal_mode", [], |r| r.get(0)).unwrap();
            let sync: i64 = c.query_row("PRAGMA synchronous", [], |r| r.get(0)).unwrap();
            assert!(jm == "delete" || jm == "wal", "journal_mode {jm} is not crash safe");
            assert!(sync >= 2, "synchronous {sync} can lose an acknowledged commit");
        });
    }
}

/// (1) error path: COMMIT itself fails (SQLITE_BUSY because another connection - e.g. a second
/// process of the same app - still reads). `?` returns without ROLLBACK: the connection stays
/// inside the transaction, every later call "succeeds" inside it and is lost on close.
#[test]
fn c12_failed_commit_leaves_dangling_transaction_and_loses_later_writes() {
    let tmp = tempfile::tempdir().unwrap();
    let db = tmp.path().join("mdk.db");
    let storage = MdkSqliteStorage::new_unencrypted(&db).unwrap();
    let g = test_group(1);
    let gid = g.mls_group_id.clone();
    storage.save_group(g).unwrap();

    // another connection (other process / extension / backup tool) holds a read transaction
    let reader = Connection::open(&db).unwrap();
    reader.execute_batch("BEGIN;").unwrap();
    let _: i64 = reader
        .query_row("SELECT count(*) FROM groups", [], |r| r.get(0))
        .unwrap();

    // shorten the busy timeout of the storage connection so the test does not take 5 s
    storage.with_connection(|c| c.busy_timeout(std::time::Duration::from_millis(200)).unwrap());

    let r = storage.create_group_snapshot(&gid, "snap");
    println!("create_group_snapshot while a reader is active: {r:?}");
    assert!(r.is_err(), "expected the COMMIT to fail with SQLITE_BUSY");

    // the reader goes away; from now on nothing is in the way
    reader.execute_batch("COMMIT;").unwrap();
    drop(reader);

    let autocommit = storage.with_connection(|c| c.is_autocommit());
    println!("connection back in autocommit mode after the failed call: {autocommit}");

    // later calls are acknowledged with Ok(())
    let g2 = test_group(2);
    let gid2 = g2.mls_group_id.clone();
    storage.save_group(g2).unwrap();
    assert!(storage.find_group_by_mls_group_id(&gid2).unwrap().is_some());
    let again = storage.create_group_snapshot(&gid, "snap2");
    println!("next create_group_snapshot: {again:?}");

    // clean shutdown (not even a crash) and reopen
    drop(storage);
    let storage = MdkSqliteStorage::new_unencrypted(&db).unwrap();
    let survived = storage.find_group_by_mls_group_id(&gid2).unwrap().is_some();
    println!("group saved (Ok) after the failed snapshot survives a clean restart: {survived}");
    assert!(autocommit, "connection left inside an open transaction after a failed COMMIT");
    assert!(survived, "acknowledged save_group lost on clean close");
}

/// Same for replace_group_relays (RELEASE of the outermost savepoint is the commit).
#[test]
fn c12_failed_release_in_replace_group_relays_leaves_dangling_savepoint() {
    let tmp = tempfile::tempdir().unwrap();
    let db = tmp.path().join("mdk.db");
    let storage = MdkSqliteStorage::new_unencrypted(&db).unwrap();
    let g = test_group(1);
    let gid = g.mls_group_id.clone();
    storage.save_group(g).unwrap();

    let reader = Connection::open(&db).unwrap();
    reader.execute_batch("BEGIN;").unwrap();
    let _: i64 = reader
        .query_row("SELECT count(*) FROM groups", [], |r| r.get(0))
        .unwrap();
    storage.with_connection(|c| c.busy_timeout(std::time::Duration::from_millis(200)).unwrap());

    let r = storage.replace_group_relays(
        &gid,
        BTreeSet::from([RelayUrl::parse("wss://a.example").unwrap()]),
    );
    println!("replace_group_relays while a reader is active: {r:?}");
    reader.execute_batch("COMMIT;").unwrap();
    drop(reader);

    let autocommit = storage.with_connection(|c| c.is_autocommit());
    println!("autocommit after failed replace_group_relays: {autocommit}");
    storage.save_group(test_group(3)).unwrap();
    drop(storage);
    let storage = MdkSqliteStorage::new_unencrypted(&db).unwrap();
    let survived = storage
        .find_group_by_mls_group_id(&GroupId::from_slice(&[3; 32]))
        .unwrap()
        .is_some();
    println!("group saved after the failed replace_group_relays survives a clean restart: {survived}");
    assert!(r.is_err());
    assert!(autocommit && survived, "dangling savepoint swallowed an acknowledged write");
}

/// (3) `new()` (keyring constructor, the recommended one): death right after the file was
/// pre-created and before the key reached the keyring.
#[test]
fn c12_new_with_keyring_after_death_between_precreate_and_key_store() {
    crate::test_utils::ensure_mock_store();
    let tmp = tempfile::tempdir().unwrap();
    let db = tmp.path().join("sub").join("mdk.db");

    // exactly what the constructor has done on disk when it dies at `new:after_precreate`
    // (or anywhere up to `keyring:before_store`): an empty 0600 file, no keyring entry.
    let outcome = crate::permissions::precreate_secure_database_file(&db).unwrap();
    assert!(matches!(outcome, crate::permissions::FileCreationOutcome::Created));
    assert_eq!(std::fs::metadata(&db).unwrap().len(), 0);

    let r1 = MdkSqliteStorage::new(&db, "c12.review.service", "c12.review.key");
    println!("restart 1: {:?}", r1.as_ref().map(|_| "opened").map_err(|e| e.to_string()));
    let r2 = MdkSqliteStorage::new(&db, "c12.review.service", "c12.review.key");
    println!("restart 2: {:?}", r2.as_ref().map(|_| "opened").map_err(|e| e.to_string()));
    assert!(
        r1.is_ok(),
        "new() refuses the empty file its own interrupted first run left behind, for good"
    );
}
