//! R13 / C13: constructor x file-state matrix, wrong key / no key / unencrypted constructor,
//! byte-identity of refused files, leftovers, permissions.

use std::collections::BTreeMap;
use std::os::unix::fs::PermissionsExt;
use std::path::{Path, PathBuf};
use std::sync::OnceLock;

use mdk_sqlite_storage::error::Error;
use mdk_sqlite_storage::{EncryptionConfig, MdkSqliteStorage, keyring};
use mdk_storage_traits::GroupId;
use mdk_storage_traits::groups::GroupStorage;
use mdk_storage_traits::test_utils::cross_storage::create_test_group;

fn ensure_mock_store() {
    static INIT: OnceLock<()> = OnceLock::new();
    INIT.get_or_init(|| {
        keyring_core::set_default_store(keyring_core::mock::Store::new().unwrap());
    });
}

fn dir_image(dir: &Path) -> BTreeMap<String, (Vec<u8>, u32)> {
    let mut m = BTreeMap::new();
    for e in std::fs::read_dir(dir).unwrap().flatten() {
        let p = e.path();
        let md = std::fs::symlink_metadata(&p).unwrap();
        if md.is_file() {
            m.insert(
                e.file_name().to_string_lossy().to_string(),
                (std::fs::read(&p).unwrap(), md.permissions().mode() & 0o777),
            );
        } else {
            m.insert(
                e.file_name().to_string_lossy().to_string(),
                (b"<non-file>".to_vec(), md.permissions().mode() & 0o777),
            );
        }
    }
    m
}

fn names(img: &BTreeMap<String, (Vec<u8>, u32)>) -> Vec<String> {
    img.iter()
        .map(|(k, (v, m))| format!("{k}[{}B,{m:o}]", v.len()))
        .collect()
}

fn make_encrypted(db: &Path, key: [u8; 32]) {
    let s = MdkSqliteStorage::new_with_key(db, EncryptionConfig::new(key)).unwrap();
    let mut g = create_test_group(GroupId::from_slice(&[7; 16]));
    g.name = "matrix group".into();
    s.save_group(g).unwrap();
}

fn make_plain(db: &Path) {
    let s = MdkSqliteStorage::new_unencrypted(db).unwrap();
    let mut g = create_test_group(GroupId::from_slice(&[7; 16]));
    g.name = "matrix group".into();
    s.save_group(g).unwrap();
}

fn has_group(s: &MdkSqliteStorage) -> bool {
    s.find_group_by_mls_group_id(&GroupId::from_slice(&[7; 16]))
        .unwrap()
        .map(|g| g.name == "matrix group")
        .unwrap_or(false)
}

fn err_str<T>(r: &Result<T, Error>) -> String {
    match r {
        Ok(_) => "Ok".into(),
        Err(e) => format!("Err({e:?})"),
    }
}

const K1: [u8; 32] = [0x42; 32];
const K2: [u8; 32] = [0x43; 32];

/// Encrypted file: only the right key opens it; every refused open leaves the directory
/// byte-identical (no -journal/-wal left, file not touched, mode unchanged).
#[test]
fn r13_encrypted_file_refusals_leave_everything_untouched() {
    ensure_mock_store();
    let t = tempfile::tempdir().unwrap();
    let db = t.path().join("e.db");
    make_encrypted(&db, K1);
    let before = dir_image(t.path());
    println!("before: {:?}", names(&before));
    let k1hex = hex::encode(K1);
    let k2hex = hex::encode(K2);

    // wrong key
    let r = MdkSqliteStorage::new_with_key(&db, EncryptionConfig::new(K2)).map(|_| ());
    println!("wrong key        -> {}", err_str(&r));
    assert!(matches!(r, Err(Error::WrongEncryptionKey)));
    let msg = format!("{:?} {}", r.as_ref().unwrap_err(), r.as_ref().unwrap_err());
    assert!(!msg.contains(&k1hex) && !msg.contains(&k2hex), "key in error");
    assert_eq!(dir_image(t.path()), before, "wrong key changed files");

    // no key: unencrypted constructor
    let r = MdkSqliteStorage::new_unencrypted(&db).map(|_| ());
    println!("new_unencrypted  -> {}", err_str(&r));
    assert!(r.is_err());
    assert_eq!(dir_image(t.path()), before, "new_unencrypted changed files");

    // keyring constructor, no entry
    let _ = keyring::delete_db_key("r13.svc", "r13.matrix.noentry");
    let r = MdkSqliteStorage::new(&db, "r13.svc", "r13.matrix.noentry").map(|_| ());
    println!("new(no entry)    -> {}", err_str(&r));
    assert!(matches!(
        r,
        Err(Error::KeyringEntryMissingForExistingDatabase { .. })
    ));
    assert!(
        keyring::get_db_key("r13.svc", "r13.matrix.noentry")
            .unwrap()
            .is_none(),
        "a key was generated for an existing database"
    );
    assert_eq!(dir_image(t.path()), before);

    // keyring constructor, entry of ANOTHER database (different key id that has a key)
    let other = t.path().join("other.db");
    let _ = keyring::delete_db_key("r13.svc", "r13.matrix.other");
    drop(MdkSqliteStorage::new(&other, "r13.svc", "r13.matrix.other").unwrap());
    let other_key = *keyring::get_db_key("r13.svc", "r13.matrix.other")
        .unwrap()
        .unwrap()
        .key();
    let before2 = dir_image(t.path());
    let r = MdkSqliteStorage::new(&db, "r13.svc", "r13.matrix.other").map(|_| ());
    println!("new(other entry) -> {}", err_str(&r));
    assert!(matches!(r, Err(Error::WrongEncryptionKey)));
    assert_eq!(dir_image(t.path()), before2);
    assert_eq!(
        *keyring::get_db_key("r13.svc", "r13.matrix.other")
            .unwrap()
            .unwrap()
            .key(),
        other_key,
        "keyring entry overwritten"
    );

    // keyring entries of wrong length / garbage: refused, not replaced
    for (id, val) in [
        ("r13.matrix.short", &b"short"[..]),
        ("r13.matrix.hex64", &[b'a'; 64][..]),
        ("r13.matrix.empty", &b""[..]),
    ] {
        let e = keyring_core::Entry::new("r13.svc", id).unwrap();
        e.set_secret(val).unwrap();
        let r = MdkSqliteStorage::new(&db, "r13.svc", id).map(|_| ());
        println!("new({id}) -> {}", err_str(&r));
        assert!(r.is_err());
        let fresh = t.path().join(format!("{id}.db"));
        let r = MdkSqliteStorage::new(&fresh, "r13.svc", id).map(|_| ());
        println!("new({id}) on missing file -> {}", err_str(&r));
        assert!(r.is_err());
        // mock store returns NoEntry for an empty secret? print what is there now
        let now = e.get_secret();
        println!("   entry now: {:?}", now.as_ref().map(|v| v.len()));
        if let Ok(v) = now {
            assert_eq!(v, val, "bad keyring entry was replaced");
        }
        let _ = std::fs::remove_file(&fresh);
    }
    // right key still works, data intact
    let s = MdkSqliteStorage::new_with_key(&db, EncryptionConfig::new(K1)).unwrap();
    assert!(has_group(&s));
}

/// Plain database: keyed constructors refuse and do not touch; the plain file stays plain but
/// no keyed constructor ever writes to it.
#[test]
fn r13_plain_file_is_refused_by_keyed_constructors_untouched() {
    ensure_mock_store();
    let t = tempfile::tempdir().unwrap();
    let db = t.path().join("p.db");
    make_plain(&db);
    let before = dir_image(t.path());

    let r = MdkSqliteStorage::new_with_key(&db, EncryptionConfig::new(K1)).map(|_| ());
    println!("new_with_key on plain -> {}", err_str(&r));
    assert!(matches!(r, Err(Error::UnencryptedDatabaseWithEncryption)));
    assert_eq!(dir_image(t.path()), before);

    let _ = keyring::delete_db_key("r13.svc", "r13.plain.none");
    let r = MdkSqliteStorage::new(&db, "r13.svc", "r13.plain.none").map(|_| ());
    println!("new(no entry) on plain -> {}", err_str(&r));
    assert!(matches!(r, Err(Error::UnencryptedDatabaseWithEncryption)));
    assert!(
        keyring::get_db_key("r13.svc", "r13.plain.none")
            .unwrap()
            .is_none()
    );
    assert_eq!(dir_image(t.path()), before);

    // with an entry present
    let _ = keyring::get_or_create_db_key("r13.svc", "r13.plain.has").unwrap();
    let r = MdkSqliteStorage::new(&db, "r13.svc", "r13.plain.has").map(|_| ());
    println!("new(entry) on plain -> {}", err_str(&r));
    assert!(r.is_err());
    assert_eq!(dir_image(t.path()), before);
}

/// Files that are neither: all constructors either refuse (and leave the bytes alone) or - for
/// the empty file only - treat it as new.
#[test]
fn r13_odd_files() {
    ensure_mock_store();
    let t = tempfile::tempdir().unwrap();
    let mut header_then_garbage = b"SQLite format 3\0".to_vec();
    header_then_garbage.extend(std::iter::repeat_n(0xEEu8, 5000));
    let cases: Vec<(&str, Vec<u8>)> = vec![
        ("one-byte", vec![0x01]),
        ("fifteen", vec![0x55; 15]),
        ("sixteen-salt-only", vec![0x77; 16]),
        ("seventeen", vec![0x77; 17]),
        ("zeros-100", vec![0; 100]),
        ("zeros-4096", vec![0; 4096]),
        ("zeros-8192", vec![0; 8192]),
        ("random-4096", (0..4096u32).map(|i| (i.wrapping_mul(2654435761u32) >> 13) as u8).collect()),
        ("header-then-garbage", header_then_garbage),
        ("header-only", b"SQLite format 3\0".to_vec()),
    ];
    let mut bad = vec![];
    for (name, bytes) in &cases {
        for ctor in ["with_key", "keyring_entry", "keyring_noentry", "unencrypted"] {
            let d = t.path().join(format!("{name}-{ctor}"));
            std::fs::create_dir(&d).unwrap();
            let db = d.join("x.db");
            std::fs::write(&db, bytes).unwrap();
            let before = dir_image(&d);
            let key_id = format!("r13.odd.{name}.{ctor}");
            let _ = keyring::delete_db_key("r13.svc", &key_id);
            let r = match ctor {
                "with_key" => MdkSqliteStorage::new_with_key(&db, EncryptionConfig::new(K1)),
                "keyring_entry" => {
                    keyring::get_or_create_db_key("r13.svc", &key_id).unwrap();
                    MdkSqliteStorage::new(&db, "r13.svc", &key_id)
                }
                "keyring_noentry" => MdkSqliteStorage::new(&db, "r13.svc", &key_id),
                _ => MdkSqliteStorage::new_unencrypted(&db),
            };
            let ok = r.is_ok();
            let res = err_str(&r.map(|_| ()));
            let after = dir_image(&d);
            let untouched = after == before;
            let entry_after = keyring::get_db_key("r13.svc", &key_id).unwrap().is_some();
            println!(
                "{name:22} {ctor:16} -> {res:.90}  untouched={untouched} files={:?} keyring_entry_after={entry_after}",
                names(&after)
            );
            if ok {
                bad.push(format!("{name}/{ctor}: opened a non-database, files now {:?}", names(&after)));
            } else if !untouched {
                bad.push(format!("{name}/{ctor}: refused but files changed: {:?} -> {:?}", names(&before), names(&after)));
            }
            if ctor == "keyring_noentry" && entry_after {
                bad.push(format!("{name}/{ctor}: a key was generated and stored for a refused file"));
            }
        }
    }
    assert!(bad.is_empty(), "{bad:#?}");
}

/// Path shapes.
#[test]
fn r13_odd_paths() {
    ensure_mock_store();
    let t = tempfile::tempdir().unwrap();

    // a directory at the path
    let d = t.path().join("isdir.db");
    std::fs::create_dir(&d).unwrap();
    let r = MdkSqliteStorage::new_with_key(&d, EncryptionConfig::new(K1)).map(|_| ());
    println!("directory at path -> {}", err_str(&r));
    assert!(r.is_err());
    let msg = format!("{:?}", r.unwrap_err());
    assert!(!msg.contains(&hex::encode(K1)));

    // parent missing (nested): created, modes
    let nested = t.path().join("a/b/c/n.db");
    drop(MdkSqliteStorage::new_with_key(&nested, EncryptionConfig::new(K1)).unwrap());
    for p in ["a", "a/b", "a/b/c", "a/b/c/n.db"] {
        let m = std::fs::metadata(t.path().join(p)).unwrap().permissions().mode() & 0o777;
        println!("nested {p:12} mode {m:o}");
    }

    // ".." in path
    let dots = t.path().join("a/b/../b/c/../c/dots.db");
    drop(MdkSqliteStorage::new_with_key(&dots, EncryptionConfig::new(K1)).unwrap());
    assert_eq!(
        std::fs::metadata(&dots).unwrap().permissions().mode() & 0o777,
        0o600
    );

    // non-UTF-8 file name
    use std::os::unix::ffi::OsStrExt;
    let nonutf = t.path().join(std::ffi::OsStr::from_bytes(b"n\xff\xfe.db"));
    let r = MdkSqliteStorage::new_with_key(&nonutf, EncryptionConfig::new(K1)).map(|_| ());
    println!("non-utf8 path -> {}", err_str(&r));
    println!("   dir now: {:?}", names(&dir_image(t.path())));

    // symlink to elsewhere (dangling at first)
    let target_dir = t.path().join("elsewhere");
    std::fs::create_dir(&target_dir).unwrap();
    std::fs::set_permissions(&target_dir, std::fs::Permissions::from_mode(0o755)).unwrap();
    let target = target_dir.join("real.db");
    let link = t.path().join("link.db");
    std::os::unix::fs::symlink(&target, &link).unwrap();
    let r = MdkSqliteStorage::new_with_key(&link, EncryptionConfig::new(K1)).map(|_| ());
    println!("dangling symlink -> {}", err_str(&r));
    println!("   elsewhere now: {:?}", names(&dir_image(&target_dir)));
}

/// Permissions, including sidecars during an open transaction, pre-existing loose dir/file and
/// a permissive umask.
#[test]
fn r13_permissions() {
    let t = tempfile::tempdir().unwrap();
    let mut bad = vec![];

    // loose pre-existing directory
    let loose = t.path().join("loose");
    std::fs::create_dir(&loose).unwrap();
    std::fs::set_permissions(&loose, std::fs::Permissions::from_mode(0o755)).unwrap();
    let db = loose.join("l.db");
    let s = MdkSqliteStorage::new_with_key(&db, EncryptionConfig::new(K1)).unwrap();
    let dm = std::fs::metadata(&loose).unwrap().permissions().mode() & 0o777;
    let fm = std::fs::metadata(&db).unwrap().permissions().mode() & 0o777;
    println!("pre-existing 0755 dir stays {dm:o}; db file {fm:o}");
    if fm != 0o600 {
        bad.push(format!("db file in loose dir has mode {fm:o}"));
    }

    // watch for sidecars while writing
    let stop = std::sync::Arc::new(std::sync::atomic::AtomicBool::new(false));
    let seen = std::sync::Arc::new(std::sync::Mutex::new(BTreeMap::<String, u32>::new()));
    let w = {
        let stop = stop.clone();
        let seen = seen.clone();
        let loose = loose.clone();
        std::thread::spawn(move || {
            while !stop.load(std::sync::atomic::Ordering::Relaxed) {
                if let Ok(rd) = std::fs::read_dir(&loose) {
                    for e in rd.flatten() {
                        if let Ok(md) = e.metadata() {
                            let m = md.permissions().mode() & 0o777;
                            let mut s = seen.lock().unwrap();
                            let k = e.file_name().to_string_lossy().to_string();
                            let v = s.entry(k).or_insert(0);
                            *v |= m;
                        }
                    }
                }
            }
        })
    };
    for i in 0..200u8 {
        let mut g = create_test_group(GroupId::from_slice(&[i, 1, 2, 3, 4]));
        g.nostr_group_id = [i; 32];
        s.save_group(g).unwrap();
    }
    stop.store(true, std::sync::atomic::Ordering::Relaxed);
    w.join().unwrap();
    let seen = seen.lock().unwrap().clone();
    println!("files seen in loose dir with OR of modes: {seen:?}");
    for (k, m) in &seen {
        if m & 0o077 != 0 {
            bad.push(format!("{k} seen with mode {m:o} in a 0755 directory"));
        }
    }
    drop(s);

    // pre-existing encrypted file with 0644
    std::fs::set_permissions(&db, std::fs::Permissions::from_mode(0o644)).unwrap();
    let s = MdkSqliteStorage::new_with_key(&db, EncryptionConfig::new(K1)).unwrap();
    let fm = std::fs::metadata(&db).unwrap().permissions().mode() & 0o777;
    println!("pre-existing 0644 file after open: {fm:o}");
    if fm != 0o600 {
        bad.push(format!("pre-existing 0644 file stays {fm:o}"));
    }
    drop(s);

    // relative file name that starts with ':' (not ":memory:")
    let cwd = std::env::current_dir().unwrap();
    let colon = PathBuf::from(":r13-colon.db");
    let _ = std::fs::remove_file(&colon);
    let r = MdkSqliteStorage::new_with_key(&colon, EncryptionConfig::new(K1)).map(|_| ());
    println!("':r13-colon.db' -> {}", err_str(&r));
    if let Ok(md) = std::fs::metadata(cwd.join(&colon)) {
        let m = md.permissions().mode() & 0o777;
        println!("   file {:?} exists on disk with mode {m:o}", cwd.join(&colon));
        if m & 0o077 != 0 {
            bad.push(format!("database file ':r13-colon.db' created with mode {m:o}"));
        }
        let _ = std::fs::remove_file(&colon);
    }

    assert!(bad.is_empty(), "{bad:#?}");
}
