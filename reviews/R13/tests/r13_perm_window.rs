//! R13 / C13 side checks: (1) is the file / directory ever visible with a mode looser than
//! owner-only (create-then-chmod window)?  (2) `file:` URI paths.

use std::os::unix::fs::PermissionsExt;
use std::sync::Arc;
use std::sync::atomic::{AtomicBool, AtomicU32, Ordering};

use mdk_sqlite_storage::{EncryptionConfig, MdkSqliteStorage};

#[test]
fn r13_create_then_chmod_window() {
    let t = tempfile::tempdir().unwrap();
    let rounds = 400;
    let mut loose_file = 0;
    let mut loose_dir = 0;
    let mut worst_file = 0u32;
    let mut worst_dir = 0u32;
    for i in 0..rounds {
        let dir = t.path().join(format!("d{i}"));
        let db = dir.join("w.db");
        let stop = Arc::new(AtomicBool::new(false));
        let fmode = Arc::new(AtomicU32::new(0));
        let dmode = Arc::new(AtomicU32::new(0));
        let w = {
            let (stop, fmode, dmode, dir, db) =
                (stop.clone(), fmode.clone(), dmode.clone(), dir.clone(), db.clone());
            std::thread::spawn(move || {
                while !stop.load(Ordering::Relaxed) {
                    if let Ok(m) = std::fs::metadata(&dir) {
                        dmode.fetch_or(m.permissions().mode() & 0o777, Ordering::Relaxed);
                    }
                    if let Ok(m) = std::fs::metadata(&db) {
                        fmode.fetch_or(m.permissions().mode() & 0o777, Ordering::Relaxed);
                    }
                }
            })
        };
        std::thread::yield_now();
        drop(MdkSqliteStorage::new_with_key(&db, EncryptionConfig::new([1; 32])).unwrap());
        stop.store(true, Ordering::Relaxed);
        w.join().unwrap();
        let (f, d) = (fmode.load(Ordering::Relaxed), dmode.load(Ordering::Relaxed));
        if f & 0o077 != 0 {
            loose_file += 1;
            worst_file |= f;
        }
        if d & 0o077 != 0 {
            loose_dir += 1;
            worst_dir |= d;
        }
    }
    println!(
        "rounds={rounds}: db file seen group/world-accessible in {loose_file} rounds (modes OR {worst_file:o}); directory in {loose_dir} rounds (modes OR {worst_dir:o})"
    );
    assert_eq!(
        (loose_file, loose_dir),
        (0, 0),
        "file/dir observable with loose mode before the chmod"
    );
}

#[test]
fn r13_file_uri_path() {
    let t = tempfile::tempdir().unwrap();
    let real_dir = t.path().join("uri");
    std::fs::create_dir(&real_dir).unwrap();
    std::fs::set_permissions(&real_dir, std::fs::Permissions::from_mode(0o755)).unwrap();
    let real = real_dir.join("u.db");
    let uri = format!("file:{}", real.display());
    let cwd = std::env::current_dir().unwrap();
    let r = MdkSqliteStorage::new_with_key(&uri, EncryptionConfig::new([1; 32])).map(|_| ());
    println!("new_with_key({uri:?}) -> {:?}", r.as_ref().map_err(|e| e.to_string()));
    let junk = cwd.join("file:");
    println!("junk dir {:?} exists: {}", junk, junk.exists());
    if let Ok(m) = std::fs::metadata(&real) {
        let mode = m.permissions().mode() & 0o777;
        println!("real database {:?} len={} mode={:o}", real, m.len(), mode);
        let _ = std::fs::remove_dir_all(&junk);
        assert_eq!(mode & 0o077, 0, "database file reached through a file: URI is {mode:o}");
    }
    let _ = std::fs::remove_dir_all(&junk);
}
