//! R13 / C13: keyring-managed constructor against keyring faults (no process death involved).

use std::sync::OnceLock;

use keyring_core::{Entry, Error as KeyringError, mock};
use mdk_sqlite_storage::error::Error;
use mdk_sqlite_storage::{MdkSqliteStorage, keyring};
use mdk_storage_traits::GroupId;
use mdk_storage_traits::groups::GroupStorage;
use mdk_storage_traits::test_utils::cross_storage::create_test_group;

fn ensure_mock_store() {
    static INIT: OnceLock<()> = OnceLock::new();
    INIT.get_or_init(|| {
        keyring_core::set_default_store(mock::Store::new().unwrap());
    });
}

fn inject(service: &str, id: &str, err: KeyringError) {
    let entry = Entry::new(service, id).unwrap();
    let m: &mock::Cred = entry.as_any().downcast_ref().unwrap();
    m.set_error(err);
}

fn platform_failure() -> KeyringError {
    KeyringError::PlatformFailure(Box::new(std::io::Error::other("keyring busy")))
}

/// A keyring fault on an EXISTING database must not lead to a fresh key replacing the good one.
#[test]
fn r13_keyring_fault_on_existing_database_keeps_the_key() {
    ensure_mock_store();
    let t = tempfile::tempdir().unwrap();
    let db = t.path().join("k.db");
    let (svc, id) = ("r13.svc", "r13.keyring.fault.existing");
    let _ = keyring::delete_db_key(svc, id);
    {
        let s = MdkSqliteStorage::new(&db, svc, id).unwrap();
        s.save_group(create_test_group(GroupId::from_slice(&[1; 8])))
            .unwrap();
    }
    let key = *keyring::get_db_key(svc, id).unwrap().unwrap().key();
    let bytes = std::fs::read(&db).unwrap();

    for err in [
        platform_failure(),
        KeyringError::NoStorageAccess(Box::new(std::io::Error::other("locked"))),
        KeyringError::Ambiguous(vec![]),
        KeyringError::Invalid("a".into(), "b".into()),
    ] {
        let label = format!("{err:?}");
        inject(svc, id, err);
        let r = MdkSqliteStorage::new(&db, svc, id).map(|_| ());
        println!("{label:.40} -> {:?}", r.as_ref().map_err(|e| e.to_string()));
        assert!(r.is_err());
        assert_eq!(
            *keyring::get_db_key(svc, id).unwrap().unwrap().key(),
            key,
            "key replaced after {label}"
        );
        assert_eq!(std::fs::read(&db).unwrap(), bytes);
    }
    // and the database still opens with data
    let s = MdkSqliteStorage::new(&db, svc, id).unwrap();
    assert_eq!(s.all_groups().unwrap().len(), 1);
}

/// A transient keyring fault during the FIRST creation: the call fails (fine) - but afterwards
/// the path must still be usable once the keyring works again.
#[test]
fn r13_transient_keyring_fault_on_first_creation_does_not_brick_the_path() {
    ensure_mock_store();
    let t = tempfile::tempdir().unwrap();
    let db = t.path().join("first.db");
    let (svc, id) = ("r13.svc", "r13.keyring.fault.first");
    let _ = keyring::delete_db_key(svc, id);

    inject(svc, id, platform_failure());
    let r1 = MdkSqliteStorage::new(&db, svc, id).map(|_| ());
    println!("1st new (keyring fault)  -> {:?}", r1.as_ref().map_err(|e| e.to_string()));
    assert!(matches!(r1, Err(Error::Keyring(_))));
    println!(
        "   file exists={} len={:?}; keyring entry present={}",
        db.exists(),
        std::fs::metadata(&db).map(|m| m.len()).ok(),
        keyring::get_db_key(svc, id).unwrap().is_some()
    );

    // keyring healthy again; nothing was ever written to the database file
    let r2 = MdkSqliteStorage::new(&db, svc, id).map(|_| ());
    println!("2nd new (keyring healthy) -> {:?}", r2.as_ref().map_err(|e| e.to_string()));
    let r3 = MdkSqliteStorage::new(&db, svc, id).map(|_| ());
    println!("3rd new (keyring healthy) -> {:?}", r3.as_ref().map_err(|e| e.to_string()));
    assert!(
        r2.is_ok(),
        "after a transient keyring fault the never-written path is refused for good: {:?}",
        r2.err().map(|e| e.to_string())
    );
}
