//! R13 / C13: nothing in the clear at rest (main file, journal, wal, temp files), across
//! histories with snapshots, rollbacks and large values; reopen with the right key = same data.

use std::collections::BTreeSet;
use std::path::{Path, PathBuf};
use std::sync::atomic::{AtomicBool, AtomicUsize, Ordering};
use std::sync::{Arc, Mutex};

use mdk_sqlite_storage::{EncryptionConfig, MdkSqliteStorage};
use mdk_storage_traits::groups::GroupStorage;
use mdk_storage_traits::groups::types::GroupExporterSecret;
use mdk_storage_traits::messages::MessageStorage;
use mdk_storage_traits::test_utils::cross_storage::{
    create_test_group, create_test_message, create_test_welcome,
};
use mdk_storage_traits::welcomes::WelcomeStorage;
use mdk_storage_traits::{GroupId, MdkStorageProvider, Secret};
use nostr::{EventId, RelayUrl};

fn find(hay: &[u8], needle: &[u8]) -> bool {
    if needle.is_empty() || hay.len() < needle.len() {
        return false;
    }
    let first = needle[0];
    let last_start = hay.len() - needle.len();
    let mut i = 0;
    while i <= last_start {
        match hay[i..=last_start].iter().position(|&b| b == first) {
            None => return false,
            Some(off) => {
                i += off;
                if &hay[i..i + needle.len()] == needle {
                    return true;
                }
                i += 1;
            }
        }
    }
    false
}

struct Canaries {
    list: Vec<(String, Vec<u8>)>,
}

impl Canaries {
    fn new() -> Self {
        Self { list: Vec::new() }
    }
    fn text(&mut self, label: &str, s: &str) {
        self.list.push((label.to_string(), s.as_bytes().to_vec()));
        // UTF-16 variants, in case anything stores text as UTF-16
        let le: Vec<u8> = s.encode_utf16().flat_map(|c| c.to_le_bytes()).collect();
        self.list.push((format!("{label}/utf16le"), le));
    }
    fn bytes(&mut self, label: &str, b: &[u8]) {
        self.list.push((format!("{label}/raw"), b.to_vec()));
        self.list
            .push((format!("{label}/hex"), hex::encode(b).into_bytes()));
        self.list.push((
            format!("{label}/HEX"),
            hex::encode(b).to_uppercase().into_bytes(),
        ));
    }
    fn scan_file(&self, p: &Path) -> Vec<String> {
        let Ok(data) = std::fs::read(p) else {
            return vec![];
        };
        let mut hits = vec![];
        for (label, needle) in &self.list {
            if find(&data, needle) {
                hits.push(format!("{} contains {}", p.display(), label));
            }
        }
        if data.len() >= 16 && &data[..16] == b"SQLite format 3\0" {
            hits.push(format!("{} has a plaintext SQLite header", p.display()));
        }
        hits
    }
    fn scan_dir(&self, dir: &Path, seen: &mut BTreeSet<String>) -> Vec<String> {
        let mut hits = vec![];
        if let Ok(rd) = std::fs::read_dir(dir) {
            for e in rd.flatten() {
                let p = e.path();
                if p.is_file() {
                    seen.insert(p.file_name().unwrap().to_string_lossy().to_string());
                    hits.extend(self.scan_file(&p));
                }
            }
        }
        hits
    }
}

fn tmp_candidates() -> Vec<PathBuf> {
    // SQLite temp files are named etilqs_* (or sqlite_*) in SQLITE_TMPDIR/TMPDIR//var/tmp//usr/tmp//tmp/.
    let mut v = vec![];
    for d in ["/tmp", "/var/tmp", "/usr/tmp", "."] {
        if let Ok(rd) = std::fs::read_dir(d) {
            for e in rd.flatten() {
                let n = e.file_name().to_string_lossy().to_string();
                if n.starts_with("etilqs_") || n.starts_with("sqlite_") {
                    v.push(e.path());
                }
            }
        }
    }
    v
}

#[test]
fn r13_no_plaintext_in_any_file_over_a_history_with_snapshots_rollbacks_and_big_values() {
    let tmp = tempfile::tempdir().unwrap();
    let dir = tmp.path().join("dbdir");
    let db_path = dir.join("c13.db");

    let key_bytes: [u8; 32] = core::array::from_fn(|i| 0xA0u8.wrapping_add((i as u8).wrapping_mul(7)));
    let mut can = Canaries::new();
    can.bytes("db-key", &key_bytes);

    let group_name = "CANARY-GROUP-NAME-zebra-7731";
    let group_desc = "CANARY-GROUP-DESCRIPTION-quokka-1189";
    let msg_text = "CANARY-MESSAGE-TEXT-narwhal-5542";
    let welcome_name = "CANARY-WELCOME-NAME-axolotl-9021";
    let relay = "wss://canary-relay-okapi-3317.example.com";
    let snap_name = "CANARY-SNAPSHOT-NAME-tapir-6604";
    can.text("group-name", group_name);
    can.text("group-desc", group_desc);
    can.text("msg-text", msg_text);
    can.text("welcome-name", welcome_name);
    can.text("relay", "canary-relay-okapi-3317");
    can.text("snapshot-name", snap_name);

    let gid_bytes: [u8; 32] = core::array::from_fn(|i| 0x11u8.wrapping_add((i as u8).wrapping_mul(3)));
    let nostr_gid: [u8; 32] = core::array::from_fn(|i| 0x23u8.wrapping_add((i as u8).wrapping_mul(5)));
    let image_key: [u8; 32] = core::array::from_fn(|i| 0x37u8.wrapping_add((i as u8).wrapping_mul(11)));
    let image_hash: [u8; 32] = core::array::from_fn(|i| 0x41u8.wrapping_add((i as u8).wrapping_mul(13)));
    let exporter0: [u8; 32] = core::array::from_fn(|i| 0x53u8.wrapping_add((i as u8).wrapping_mul(17)));
    let exporter1: [u8; 32] = core::array::from_fn(|i| 0x67u8.wrapping_add((i as u8).wrapping_mul(19)));
    let ev_id_bytes: [u8; 32] = core::array::from_fn(|i| 0x79u8.wrapping_add((i as u8).wrapping_mul(23)));
    can.bytes("mls-group-id", &gid_bytes);
    can.bytes("nostr-group-id", &nostr_gid);
    can.bytes("image-key", &image_key);
    can.bytes("image-hash", &image_hash);
    can.bytes("exporter0", &exporter0);
    can.bytes("exporter1", &exporter1);
    can.bytes("event-id", &ev_id_bytes);

    let can = Arc::new(can);
    let hits: Arc<Mutex<BTreeSet<String>>> = Arc::new(Mutex::new(BTreeSet::new()));
    let seen: Arc<Mutex<BTreeSet<String>>> = Arc::new(Mutex::new(BTreeSet::new()));
    let scans = Arc::new(AtomicUsize::new(0));
    let tmp_before: BTreeSet<PathBuf> = tmp_candidates().into_iter().collect();

    let do_scan = {
        let can = can.clone();
        let hits = hits.clone();
        let seen = seen.clone();
        let scans = scans.clone();
        let dir = dir.clone();
        let tmp_before = tmp_before.clone();
        move || {
            let mut s = seen.lock().unwrap();
            let mut h = can.scan_dir(&dir, &mut s);
            for p in tmp_candidates() {
                if !tmp_before.contains(&p) {
                    s.insert(format!("TMP:{}", p.display()));
                    h.extend(can.scan_file(&p));
                }
            }
            scans.fetch_add(1, Ordering::Relaxed);
            hits.lock().unwrap().extend(h);
        }
    };

    // Background scanner (catches short-lived -journal files between our own scan points).
    let stop = Arc::new(AtomicBool::new(false));
    let bg = {
        let stop = stop.clone();
        let do_scan = do_scan.clone();
        std::thread::spawn(move || {
            while !stop.load(Ordering::Relaxed) {
                do_scan();
            }
        })
    };

    // With the verif hooks compiled in, also scan at every storage step, including the steps
    // INSIDE the snapshot / restore transactions (a -journal file exists there).
    #[cfg(feature = "verif-hooks")]
    {
        let do_scan = do_scan.clone();
        mdk_sqlite_storage::verif::set_thread_hook(Some(Box::new(move |p| {
            // only inside explicit transactions (a -journal file exists there); the other
            // points are covered by the scans after each operation
            if matches!(p, mdk_sqlite_storage::verif::Point::Txn(_)) {
                do_scan()
            }
        })));
    }

    let gid = GroupId::from_slice(&gid_bytes);
    let ev_id = EventId::from_byte_array(ev_id_bytes);
    let big_text = format!("{}{}", msg_text, "x".repeat(400 * 1024)) + msg_text;

    {
        let storage =
            MdkSqliteStorage::new_with_key(&db_path, EncryptionConfig::new(key_bytes)).unwrap();
        do_scan();

        let mut g = create_test_group(gid.clone());
        g.name = group_name.to_string();
        g.description = group_desc.to_string();
        g.nostr_group_id = nostr_gid;
        g.image_key = Some(Secret::new(image_key));
        g.image_hash = Some(image_hash);
        g.image_nonce = Some(Secret::new([0x5a; 12]));
        storage.save_group(g.clone()).unwrap();
        do_scan();

        let mut relays = BTreeSet::new();
        relays.insert(RelayUrl::parse(relay).unwrap());
        storage.replace_group_relays(&gid, relays).unwrap();
        do_scan();

        storage
            .save_group_exporter_secret(GroupExporterSecret {
                mls_group_id: gid.clone(),
                epoch: 0,
                secret: Secret::new(exporter0),
            })
            .unwrap();
        do_scan();

        // big message: spills to overflow pages
        let mut m = create_test_message(gid.clone(), ev_id);
        m.content = big_text.clone();
        m.event.content = msg_text.to_string();
        storage.save_message(m).unwrap();
        do_scan();

        let mut w = create_test_welcome(gid.clone(), EventId::from_byte_array([0x99; 32]));
        w.group_name = welcome_name.to_string();
        w.nostr_group_id = nostr_gid;
        w.group_image_key = Some(Secret::new(image_key));
        storage.save_welcome(w).unwrap();
        do_scan();

        // snapshot, mutate, rollback
        storage.create_group_snapshot(&gid, snap_name).unwrap();
        do_scan();
        storage
            .save_group_exporter_secret(GroupExporterSecret {
                mls_group_id: gid.clone(),
                epoch: 1,
                secret: Secret::new(exporter1),
            })
            .unwrap();
        let mut g2 = g.clone();
        g2.name = format!("{group_name}-changed");
        g2.epoch = 1;
        storage.save_group(g2).unwrap();
        do_scan();
        storage.rollback_group_to_snapshot(&gid, snap_name).unwrap();
        do_scan();

        // snapshot + release, snapshot + prune
        storage.create_group_snapshot(&gid, snap_name).unwrap();
        storage.release_group_snapshot(&gid, snap_name).unwrap();
        storage.create_group_snapshot(&gid, snap_name).unwrap();
        storage.prune_expired_snapshots(u64::MAX).unwrap();
        do_scan();

        // many messages to force sorting on read (sorter / temp b-tree)
        for i in 0..300u32 {
            let mut id = [0u8; 32];
            id[..4].copy_from_slice(&i.to_be_bytes());
            id[31] = 1;
            let mut m = create_test_message(gid.clone(), EventId::from_byte_array(id));
            m.content = format!("{msg_text}-{i}-{}", "y".repeat(3000));
            storage.save_message(m).unwrap();
        }
        let all = storage.messages(&gid, None).unwrap();
        assert!(!all.is_empty());
        do_scan();
        // storage still open here: scan once more with the connection alive
        do_scan();
    }
    do_scan();

    // reopen with the right key: same data
    {
        let storage =
            MdkSqliteStorage::new_with_key(&db_path, EncryptionConfig::new(key_bytes)).unwrap();
        let g = storage.find_group_by_mls_group_id(&gid).unwrap().unwrap();
        assert_eq!(g.name, group_name, "rollback restored the name, and it survived reopen");
        assert_eq!(g.nostr_group_id, nostr_gid);
        assert_eq!(g.image_key.as_ref().map(|k| **k), Some(image_key));
        let m = storage
            .find_message_by_event_id(&gid, &ev_id)
            .unwrap()
            .unwrap();
        assert_eq!(m.content, big_text);
        let s0 = storage.get_group_exporter_secret(&gid, 0).unwrap().unwrap();
        assert_eq!(*s0.secret, exporter0);
        assert!(
            storage.get_group_exporter_secret(&gid, 1).unwrap().is_none(),
            "epoch 1 secret removed by the rollback"
        );
        do_scan();
    }

    #[cfg(feature = "verif-hooks")]
    mdk_sqlite_storage::verif::set_thread_hook(None);
    stop.store(true, Ordering::Relaxed);
    bg.join().unwrap();
    do_scan();

    let seen = seen.lock().unwrap().clone();
    let hits = hits.lock().unwrap().clone();
    println!(
        "scans={} files seen={:?}",
        scans.load(Ordering::Relaxed),
        seen
    );
    assert!(hits.is_empty(), "plaintext found at rest: {hits:#?}");
    assert!(seen.contains("c13.db"));
}
