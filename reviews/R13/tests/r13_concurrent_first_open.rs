//! R13 / C13: several threads open the same (missing) path at once with the keyring-managed
//! constructor. Expected: one key is created and reused, and every opener gets a working
//! storage on the same encrypted database.

use std::collections::BTreeMap;
use std::sync::{Arc, Barrier, OnceLock};

use mdk_sqlite_storage::error::Error;
use mdk_sqlite_storage::{MdkSqliteStorage, keyring};
use mdk_storage_traits::GroupId;
use mdk_storage_traits::groups::GroupStorage;
use mdk_storage_traits::test_utils::cross_storage::create_test_group;

fn ensure_mock_store() {
    static INIT: OnceLock<()> = OnceLock::new();
    INIT.get_or_init(|| {
        keyring_core::set_default_store(keyring_core::mock::Store::new().unwrap());
    });
}

fn classify(e: &Error) -> String {
    match e {
        Error::UnencryptedDatabaseWithEncryption => "UnencryptedDatabaseWithEncryption".into(),
        Error::WrongEncryptionKey => "WrongEncryptionKey".into(),
        Error::KeyringEntryMissingForExistingDatabase { .. } => {
            "KeyringEntryMissingForExistingDatabase".into()
        }
        Error::Refinery(e) => format!("Refinery({e})"),
        Error::Rusqlite(e) => format!("Rusqlite({e})"),
        other => format!("{other:?}"),
    }
}

/// Plain threads, no hooks: N rounds, T threads released by a barrier on a fresh path and a
/// fresh key id.
#[test]
fn r13_concurrent_first_open_stress() {
    ensure_mock_store();
    let rounds = 60;
    let threads = 6;
    let tmp = tempfile::tempdir().unwrap();
    let mut failures: BTreeMap<String, usize> = BTreeMap::new();
    let mut failed_rounds = 0;
    let mut key_changed = 0;

    for round in 0..rounds {
        let db = tmp.path().join(format!("round-{round}")).join("c.db");
        std::fs::create_dir_all(db.parent().unwrap()).unwrap();
        let key_id = format!("r13.concurrent.{round}");
        let _ = keyring::delete_db_key("r13.svc", &key_id);
        let barrier = Arc::new(Barrier::new(threads));
        let handles: Vec<_> = (0..threads)
            .map(|i| {
                let db = db.clone();
                let key_id = key_id.clone();
                let barrier = barrier.clone();
                std::thread::spawn(move || {
                    barrier.wait();
                    let r = MdkSqliteStorage::new(&db, "r13.svc", &key_id);
                    match r {
                        Ok(s) => {
                            // the storage must be usable
                            let mut g = create_test_group(GroupId::from_slice(&[i as u8; 8]));
                            g.nostr_group_id = [i as u8; 32];
                            let key_now = keyring::get_db_key("r13.svc", &key_id)
                                .unwrap()
                                .map(|c| *c.key());
                            // keep the storage alive until all are done
                            (Ok(s), key_now, Some(g))
                        }
                        Err(e) => (Err(classify(&e)), None, None),
                    }
                })
            })
            .collect();
        let results: Vec<_> = handles.into_iter().map(|h| h.join().unwrap()).collect();
        let mut keys = std::collections::BTreeSet::new();
        let mut round_failed = false;
        for (r, k, g) in results {
            match r {
                Ok(s) => {
                    if let Some(k) = k {
                        keys.insert(k);
                    }
                    if let Err(e) = s.save_group(g.unwrap()) {
                        *failures.entry(format!("save_group after open: {e:?}")).or_default() += 1;
                        round_failed = true;
                    }
                }
                Err(c) => {
                    *failures.entry(c).or_default() += 1;
                    round_failed = true;
                }
            }
        }
        if keys.len() > 1 {
            key_changed += 1;
        }
        if round_failed {
            failed_rounds += 1;
        }
        // whatever happened, the path must remain usable with the keyring entry
        let again = MdkSqliteStorage::new(&db, "r13.svc", &key_id);
        if let Err(e) = &again {
            *failures
                .entry(format!("reopen after the round: {}", classify(e)))
                .or_default() += 1;
        }
    }
    println!("rounds={rounds} threads={threads} failed_rounds={failed_rounds} key_changed={key_changed}");
    for (k, v) in &failures {
        println!("  {v:4} x {k}");
    }
    assert_eq!(key_changed, 0, "more than one key observed for one key id");
    assert!(
        failures.is_empty(),
        "concurrent first opens of the same path failed: {failures:#?}"
    );
}

/// Deterministic schedule with the verification hooks: opener A is parked right after it
/// pre-created the file (before it looked at the keyring); opener B then runs to completion.
#[cfg(feature = "verif-hooks")]
#[test]
fn r13_concurrent_first_open_deterministic() {
    use mdk_sqlite_storage::verif::{Point, set_thread_hook};
    use std::sync::mpsc;

    ensure_mock_store();
    let tmp = tempfile::tempdir().unwrap();
    let db = tmp.path().join("det.db");
    let key_id = "r13.concurrent.det";
    let _ = keyring::delete_db_key("r13.svc", key_id);

    let (parked_tx, parked_rx) = mpsc::channel::<()>();
    let (go_tx, go_rx) = mpsc::channel::<()>();

    let a = {
        let db = db.clone();
        std::thread::spawn(move || {
            let mut go_rx = Some(go_rx);
            set_thread_hook(Some(Box::new(move |p| {
                if p == Point::Open("new:after_precreate") {
                    if let Some(rx) = go_rx.take() {
                        parked_tx.send(()).unwrap();
                        rx.recv().unwrap();
                    }
                }
            })));
            let r = MdkSqliteStorage::new(&db, "r13.svc", key_id).map(|_| ());
            set_thread_hook(None);
            r
        })
    };
    parked_rx.recv().unwrap();
    // A has created the (empty) file and has not yet created the key. B opens now.
    let b = MdkSqliteStorage::new(&db, "r13.svc", key_id).map(|_| ());
    println!("B (second opener) -> {:?}", b.as_ref().map_err(classify));
    go_tx.send(()).unwrap();
    let a = a.join().unwrap();
    println!("A (first opener)  -> {:?}", a.as_ref().map_err(classify));
    assert!(a.is_ok(), "first opener failed: {:?}", a.err());
    assert!(
        b.is_ok(),
        "second concurrent opener of a path that is being created was refused: {}",
        classify(b.as_ref().unwrap_err())
    );
}

/// Same with caller-provided keys (no keyring involved): isolates the migration race.
#[test]
fn r13_concurrent_first_open_with_key_stress() {
    use mdk_sqlite_storage::EncryptionConfig;
    let rounds = 40;
    let threads = 6;
    let tmp = tempfile::tempdir().unwrap();
    let mut failures: BTreeMap<String, usize> = BTreeMap::new();
    for round in 0..rounds {
        let db = tmp.path().join(format!("wk-{round}.db"));
        let barrier = Arc::new(Barrier::new(threads));
        let handles: Vec<_> = (0..threads)
            .map(|_| {
                let db = db.clone();
                let barrier = barrier.clone();
                std::thread::spawn(move || {
                    barrier.wait();
                    MdkSqliteStorage::new_with_key(&db, EncryptionConfig::new([9u8; 32]))
                        .map(|_| ())
                        .map_err(|e| classify(&e))
                })
            })
            .collect();
        for h in handles {
            if let Err(c) = h.join().unwrap() {
                *failures.entry(c).or_default() += 1;
            }
        }
        MdkSqliteStorage::new_with_key(&db, EncryptionConfig::new([9u8; 32])).unwrap();
    }
    println!("new_with_key: rounds={rounds} threads={threads}");
    for (k, v) in &failures {
        println!("  {v:4} x {k}");
    }
    assert!(failures.is_empty(), "{failures:#?}");
}
