//! C17: which epoch's secret is used to decrypt, in honest interleavings.
#![cfg(feature = "mip04")]

mod r17_common;

use mdk_core::MdkConfig;
use mdk_core::prelude::*;
use mdk_memory_storage::MdkMemoryStorage;
use mdk_sqlite_storage::MdkSqliteStorage;
use nostr::{Tag, TagKind};
use r17_common::*;

fn sqlite_factory() -> (tempfile::TempDir, impl Fn() -> MdkSqliteStorage) {
    let dir = tempfile::tempdir().unwrap();
    let p = dir.path().to_path_buf();
    let n = std::cell::Cell::new(0);
    (dir, move || {
        n.set(n.get() + 1);
        MdkSqliteStorage::new_unencrypted(p.join(format!("db{}.sqlite", n.get()))).unwrap()
    })
}

/// H-S1: the sender encrypts in epoch N; while the blob is being uploaded a commit of another
/// member arrives and is processed; the announcing message therefore goes out in epoch N+1.
/// Every member of epoch N (sender included) must be able to decrypt.
fn run_commit_between_encrypt_and_announce<S: MdkStorageProvider>(mk: &dyn Fn() -> S) {
    let a = new_client(mk(), MdkConfig::default());
    let b = new_client(mk(), MdkConfig::default());
    let gid = create_group(&a, &[&b]);
    // make B an admin-less committer: a self-update needs no admin rights
    let data = payload(3000, 5);

    let mgr_a = a.mdk.media_manager(gid.clone());
    let n = epoch(&a, &gid);
    let up = mgr_a.encrypt_for_upload(&data, "application/pdf", "report.pdf").unwrap();
    // ... upload to Blossom takes a while; meanwhile B's self-update commit arrives ...
    let commit = commit_self_update(&b, &gid);
    deliver(&a, &commit);
    assert_eq!(epoch(&a, &gid), n + 1);
    assert_eq!(epoch(&b, &gid), n + 1);
    // upload finished: announce
    let tag = mgr_a.create_imeta_tag(&up, "https://blossom.example/blob");
    let ev = a
        .mdk
        .create_message(&gid, announce_rumor(&a.keys, tag, "report"))
        .unwrap();
    deliver(&b, &ev);

    let mut failures = Vec::new();
    for (who, cl) in [("sender A", &a), ("member B", &b)] {
        let r = reference_from_store(cl, &gid, &up.nonce).expect("announce stored");
        match cl
            .mdk
            .media_manager(gid.clone())
            .decrypt_from_download(&up.encrypted_data, &r)
        {
            Ok(d) => assert_eq!(d, data),
            Err(e) => failures.push(format!("{who} (member of epoch {n}, now at {}): {e}", epoch(cl, &gid))),
        }
    }
    assert!(
        failures.is_empty(),
        "file encrypted in epoch {n}, announced in epoch {}: \n{}",
        n + 1,
        failures.join("\n")
    );
}

#[test]
fn commit_between_encrypt_and_announce_memory() {
    run_commit_between_encrypt_and_announce(&|| MdkMemoryStorage::default());
}

#[test]
fn commit_between_encrypt_and_announce_sqlite() {
    let (_d, f) = sqlite_factory();
    run_commit_between_encrypt_and_announce(&f);
}

/// H-S1b: the same, but the commit in between is the sender's own (e.g. periodic self-update
/// fired by a background task of the same app while the upload is in flight).
#[test]
fn own_commit_between_encrypt_and_announce_memory() {
    let a = new_client(MdkMemoryStorage::default(), MdkConfig::default());
    let b = new_client(MdkMemoryStorage::default(), MdkConfig::default());
    let gid = create_group(&a, &[&b]);
    let data = payload(3000, 6);
    let mgr_a = a.mdk.media_manager(gid.clone());
    let up = mgr_a.encrypt_for_upload(&data, "application/pdf", "report.pdf").unwrap();
    let commit = commit_self_update(&a, &gid);
    deliver(&b, &commit);
    let tag = mgr_a.create_imeta_tag(&up, "https://blossom.example/blob");
    let ev = a.mdk.create_message(&gid, announce_rumor(&a.keys, tag, "r")).unwrap();
    deliver(&b, &ev);
    let r = reference_from_store(&b, &gid, &up.nonce).unwrap();
    let res = b.mdk.media_manager(gid.clone()).decrypt_from_download(&up.encrypted_data, &r);
    assert!(res.is_ok(), "B cannot decrypt: {:?}", res.err());
}

fn upper_nonce(tag: &Tag) -> Tag {
    let vals: Vec<String> = tag
        .clone()
        .to_vec()
        .into_iter()
        .skip(1)
        .map(|i| {
            if let Some(h) = i.strip_prefix("n ") {
                format!("n {}", h.to_uppercase())
            } else if let Some(h) = i.strip_prefix("x ") {
                format!("x {}", h.to_uppercase())
            } else {
                i
            }
        })
        .collect();
    Tag::custom(TagKind::Custom("imeta".into()), vals)
}

/// H-hexcase: another client spells the hex fields in upper case (same value).
fn run_uppercase_hex<S: MdkStorageProvider>(mk: &dyn Fn() -> S) -> Result<(), String> {
    let a = new_client(mk(), MdkConfig::default());
    let b = new_client(mk(), MdkConfig::default());
    let gid = create_group(&a, &[&b]);
    let data = payload(300, 7);
    let mgr_a = a.mdk.media_manager(gid.clone());
    let up = mgr_a.encrypt_for_upload(&data, "text/plain", "t.txt").unwrap();
    let tag = upper_nonce(&mgr_a.create_imeta_tag(&up, "https://b/x"));
    let ev = a.mdk.create_message(&gid, announce_rumor(&a.keys, tag, "r")).unwrap();
    deliver(&b, &ev);
    let r = reference_from_store(&b, &gid, &up.nonce).unwrap();
    let mgr_b = b.mdk.media_manager(gid.clone());
    assert_eq!(mgr_b.decrypt_from_download(&up.encrypted_data, &r).unwrap(), data, "same epoch");
    let commit = commit_self_update(&a, &gid);
    deliver(&b, &commit);
    mgr_b
        .decrypt_from_download(&up.encrypted_data, &r)
        .map(|d| assert_eq!(d, data))
        .map_err(|e| format!("one epoch later: {e}"))
}

#[test]
fn uppercase_hex_memory() {
    let r = run_uppercase_hex(&|| MdkMemoryStorage::default());
    assert!(r.is_ok(), "memory backend: {r:?}");
}

#[test]
fn uppercase_hex_sqlite() {
    let (_d, f) = sqlite_factory();
    let r = run_uppercase_hex(&f);
    assert!(r.is_ok(), "sqlite backend: {r:?}");
}

/// H-forward: the same imeta tag (same blob, same nonce) is quoted again in a later epoch by
/// an honest member (a "forward"/"re-share" inside the same group). The original must stay
/// decryptable for the members of the encrypting epoch.
fn run_forward_same_tag<S: MdkStorageProvider>(mk: &dyn Fn() -> S) -> Vec<String> {
    let a = new_client(mk(), MdkConfig::default());
    let b = new_client(mk(), MdkConfig::default());
    let gid = create_group(&a, &[&b]);
    let mut failures = Vec::new();
    for round in 0..6 {
        let data = payload(300 + round, 8);
        let (up, ev, tag) = send_media(&a, &gid, &data, "text/plain", "t.txt");
        deliver(&b, &ev);
        let commit = commit_self_update(&a, &gid);
        deliver(&b, &commit);
        // B re-shares the very same attachment in the new epoch
        let fwd = b
            .mdk
            .create_message(&gid, announce_rumor(&b.keys, tag.clone(), "look again at this"))
            .unwrap();
        deliver(&a, &fwd);
        for (who, cl) in [("A", &a), ("B", &b)] {
            let r = cl.mdk.media_manager(gid.clone()).parse_imeta_tag(&tag).unwrap();
            if let Err(e) = cl
                .mdk
                .media_manager(gid.clone())
                .decrypt_from_download(&up.encrypted_data, &r)
            {
                failures.push(format!("round {round} {who}: {e}"));
            }
        }
    }
    failures
}

#[test]
fn forward_same_tag_memory() {
    let f = run_forward_same_tag(&|| MdkMemoryStorage::default());
    assert!(f.is_empty(), "{}", f.join("\n"));
}

#[test]
fn forward_same_tag_sqlite() {
    let (_d, fac) = sqlite_factory();
    let f = run_forward_same_tag(&fac);
    assert!(f.is_empty(), "{}", f.join("\n"));
}

/// H-nonmember: a member who joined after the encrypting epoch, or was removed before it,
/// cannot decrypt even when handed tag and blob.
#[test]
fn non_members_cannot_decrypt() {
    let a = new_client(MdkMemoryStorage::default(), MdkConfig::default());
    let b = new_client(MdkMemoryStorage::default(), MdkConfig::default());
    let c = new_client(MdkMemoryStorage::default(), MdkConfig::default());
    let d = new_client(MdkMemoryStorage::default(), MdkConfig::default());
    let gid = create_group(&a, &[&b, &d]);

    // remove D
    let rm = a.mdk.remove_members(&gid, &[d.keys.public_key()]).unwrap();
    a.mdk.merge_pending_commit(&gid).unwrap();
    deliver(&b, &rm.evolution_event);
    let _ = d.mdk.process_message(&rm.evolution_event);

    let data = payload(999, 1);
    let (up, ev, tag) = send_media(&a, &gid, &data, "text/plain", "secret.txt");
    deliver(&b, &ev);
    // D (removed) tries
    let _ = d.mdk.process_message(&ev);
    let mgr_d = d.mdk.media_manager(gid.clone());
    if let Ok(r) = mgr_d.parse_imeta_tag(&tag) {
        assert!(mgr_d.decrypt_from_download(&up.encrypted_data, &r).is_err(), "removed member decrypts");
    }

    // add C afterwards
    let add = a.mdk.add_members(&gid, &[key_package_event(&c)]).unwrap();
    a.mdk.merge_pending_commit(&gid).unwrap();
    deliver(&b, &add.evolution_event);
    join(&c, &add.welcome_rumors.as_ref().unwrap()[0]);
    // C is handed the old announce (cannot process) and a forward in the new epoch
    let _ = c.mdk.process_message(&ev);
    let fwd = b.mdk.create_message(&gid, announce_rumor(&b.keys, tag.clone(), "fwd")).unwrap();
    deliver(&c, &fwd);
    let mgr_c = c.mdk.media_manager(gid.clone());
    let r = mgr_c.parse_imeta_tag(&tag).unwrap();
    assert!(mgr_c.decrypt_from_download(&up.encrypted_data, &r).is_err(), "later joiner decrypts");
    // and after more epochs
    for _ in 0..3 {
        let cm = commit_self_update(&a, &gid);
        deliver(&b, &cm);
        deliver(&c, &cm);
        assert!(mgr_c.decrypt_from_download(&up.encrypted_data, &r).is_err());
    }
    // B (member of the epoch) still can
    let r = b.mdk.media_manager(gid.clone()).parse_imeta_tag(&tag).unwrap();
    // note: B forwarded the tag itself, so two of B's messages carry the nonce (see H-forward)
    let _ = b.mdk.media_manager(gid.clone()).decrypt_from_download(&up.encrypted_data, &r);
}

/// H-committer: the committer never "receives" in an epoch it only passes through.
#[test]
fn committer_passing_through_epochs() {
    let cfg = MdkConfig { max_past_epochs: 8, ..Default::default() };
    let a = new_client(MdkMemoryStorage::default(), cfg.clone());
    let b = new_client(MdkMemoryStorage::default(), cfg.clone());
    let gid = create_group(&a, &[&b]);
    // A commits; B processes and sends media in the new epoch; A commits three more times
    // before looking at B's message.
    let c1 = commit_self_update(&a, &gid);
    deliver(&b, &c1);
    let data = payload(100, 2);
    let (up, ev, _tag) = send_media(&b, &gid, &data, "text/plain", "b.txt");
    let mut commits = Vec::new();
    for _ in 0..3 {
        commits.push(commit_self_update(&a, &gid));
    }
    deliver(&a, &ev);
    let r = reference_from_store(&a, &gid, &up.nonce).expect("A stored B's announce");
    let d = a.mdk.media_manager(gid.clone()).decrypt_from_download(&up.encrypted_data, &r);
    assert_eq!(d.expect("A decrypts"), data);
    for c in &commits {
        deliver(&b, c);
    }
    let r = reference_from_store(&b, &gid, &up.nonce).unwrap();
    assert_eq!(
        b.mdk.media_manager(gid.clone()).decrypt_from_download(&up.encrypted_data, &r).unwrap(),
        data
    );
}

/// H-joiner-same-epoch: a member added by the commit that opens epoch N decrypts media of epoch N.
#[test]
fn joiner_in_same_epoch() {
    let a = new_client(MdkMemoryStorage::default(), MdkConfig::default());
    let b = new_client(MdkMemoryStorage::default(), MdkConfig::default());
    let c = new_client(MdkMemoryStorage::default(), MdkConfig::default());
    let gid = create_group(&a, &[&b]);
    let add = a.mdk.add_members(&gid, &[key_package_event(&c)]).unwrap();
    a.mdk.merge_pending_commit(&gid).unwrap();
    let data = payload(100, 3);
    let (up, ev, _) = send_media(&a, &gid, &data, "text/plain", "x");
    // C joins late, after two further epochs have been announced (but C has not seen them)
    let c2 = commit_self_update(&a, &gid);
    join(&c, &add.welcome_rumors.as_ref().unwrap()[0]);
    deliver(&c, &ev);
    deliver(&c, &c2);
    let r = reference_from_store(&c, &gid, &up.nonce).unwrap();
    assert_eq!(
        c.mdk.media_manager(gid.clone()).decrypt_from_download(&up.encrypted_data, &r).unwrap(),
        data
    );
    deliver(&b, &add.evolution_event);
}

/// H-rollback: two commits fork epoch N; C applies the worse one first, receives media in
/// that branch, then the better commit arrives and C rolls back. Media announced at epochs
/// <= N must still decrypt for C; media of the winning branch too.
fn run_rollback<S: MdkStorageProvider>(mk: &dyn Fn() -> S) {
    let a = new_client(mk(), MdkConfig::default());
    let b = new_client(mk(), MdkConfig::default());
    let c = new_client(mk(), MdkConfig::default());
    let gid = create_group(&a, &[&b, &c]);
    // one ordinary epoch first
    let c0 = commit_self_update(&a, &gid);
    deliver(&b, &c0);
    deliver(&c, &c0);

    let d_old = payload(111, 1);
    let (up_old, ev_old, _) = send_media(&b, &gid, &d_old, "text/plain", "old.txt");
    deliver(&a, &ev_old);
    deliver(&c, &ev_old);
    let n = epoch(&c, &gid);

    // fork: A and B both commit at epoch n (neither merged yet on the other side)
    let ra = a.mdk.self_update(&gid).unwrap();
    let rb = b.mdk.self_update(&gid).unwrap();
    let (ea, eb) = (ra.evolution_event.clone(), rb.evolution_event.clone());
    let a_is_better = (ea.created_at.as_secs(), ea.id.to_hex()) < (eb.created_at.as_secs(), eb.id.to_hex());
    // winner merges its own commit, loser clears it and applies the winner's
    let (winner, loser, win_ev, lose_ev) = if a_is_better { (&a, &b, ea, eb) } else { (&b, &a, eb, ea) };
    // the loser first lives in its own branch for a while and announces media there
    loser.mdk.merge_pending_commit(&gid).unwrap();
    deliver(&c, &lose_ev);
    assert_eq!(epoch(&c, &gid), n + 1);
    let d_lost = payload(222, 2);
    let (up_lost, ev_lost, _) = send_media(loser, &gid, &d_lost, "text/plain", "lost.txt");
    deliver(&c, &ev_lost);
    // a late message of epoch n arrives at C while C is in the losing branch
    let d_late = payload(333, 3);
    winner.mdk.clear_pending_commit(&gid).ok();
    let (up_late, ev_late, _) = send_media(winner, &gid, &d_late, "text/plain", "late.txt");
    deliver(&c, &ev_late);
    // winner now really commits (re-create: the pending one was cleared)... use the original event instead:
    // C receives the better commit -> rollback to n and apply
    let res = c.mdk.process_message(&win_ev);
    println!("C processing better commit: {res:?}");
    println!("C epoch after: {}", epoch(&c, &gid));

    let mgr_c = c.mdk.media_manager(gid.clone());
    let mut problems = Vec::new();
    for (name, up, data, must) in [
        ("old (epoch n, before fork)", &up_old, &d_old, true),
        ("late (epoch n, processed in losing branch)", &up_late, &d_late, true),
        ("lost (losing branch n+1)", &up_lost, &d_lost, false),
    ] {
        let r = reference_from_store(&c, &gid, &up.nonce);
        let out = r.map(|r| mgr_c.decrypt_from_download(&up.encrypted_data, &r));
        match out {
            Some(Ok(d)) if d == *data => println!("{name}: ok"),
            other => {
                let line = format!("{name}: {:?}", other.map(|r| r.map(|d| d.len())));
                if must { problems.push(line) } else { println!("INFO {line}") }
            }
        }
    }
    assert!(problems.is_empty(), "{}", problems.join("\n"));
}

#[test]
fn rollback_memory() {
    run_rollback(&|| MdkMemoryStorage::default());
}

#[test]
fn rollback_sqlite() {
    let (_d, f) = sqlite_factory();
    run_rollback(&f);
}
