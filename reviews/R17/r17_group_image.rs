//! C17: group image (MIP-01) round trip through the group data, tamper evidence, v1/v2.

mod r17_common;

use std::io::Cursor;

use chacha20poly1305::aead::{Aead, KeyInit};
use chacha20poly1305::{ChaCha20Poly1305, Nonce};
use mdk_core::MdkConfig;
use mdk_core::extension::{
    decrypt_group_image, derive_upload_keypair,
    migrate_group_image_v1_to_v2, prepare_group_image_for_upload,
    prepare_group_image_for_upload_with_options,
};
use mdk_core::media_processing::MediaProcessingOptions;
use mdk_core::prelude::*;
use mdk_memory_storage::MdkMemoryStorage;
use mdk_storage_traits::Secret;
use r17_common::*;

fn enc(fmt: image::ImageFormat, w: u32, h: u32) -> Vec<u8> {
    let img = image::RgbImage::from_fn(w, h, |x, y| image::Rgb([x as u8, y as u8, (x ^ y) as u8]));
    let mut out = Cursor::new(Vec::new());
    image::DynamicImage::ImageRgb8(img).write_to(&mut out, fmt).unwrap();
    out.into_inner()
}

#[test]
fn group_image_through_group_data_and_epochs() {
    let a = new_client(MdkMemoryStorage::default(), MdkConfig::default());
    let b = new_client(MdkMemoryStorage::default(), MdkConfig::default());
    let c = new_client(MdkMemoryStorage::default(), MdkConfig::default());
    let gid = create_group(&a, &[&b]);

    for (mime, fmt) in [
        ("image/png", image::ImageFormat::Png),
        ("image/jpeg", image::ImageFormat::Jpeg),
        ("image/gif", image::ImageFormat::Gif),
        ("image/webp", image::ImageFormat::WebP),
    ] {
        let raw = enc(fmt, 20, 10);
        let opts = MediaProcessingOptions { sanitize_exif: false, ..Default::default() };
        let up = prepare_group_image_for_upload_with_options(&raw, mime, &opts).unwrap();
        let upd = NostrGroupDataUpdate::new()
            .image_hash(Some(up.encrypted_hash))
            .image_key(Some(*up.image_key))
            .image_nonce(Some(*up.image_nonce))
            .image_upload_key(Some(*up.image_upload_key));
        let r = a.mdk.update_group_data(&gid, upd).unwrap();
        a.mdk.merge_pending_commit(&gid).unwrap();
        deliver(&b, &r.evolution_event);
        // a few more epochs
        for _ in 0..3 {
            let cm = commit_self_update(&a, &gid);
            deliver(&b, &cm);
        }
        for cl in [&a, &b] {
            // via the stored group record
            let g = cl.mdk.get_group(&gid).unwrap().unwrap();
            let d = decrypt_group_image(
                &up.encrypted_data,
                g.image_hash.as_ref(),
                g.image_key.as_ref().unwrap(),
                g.image_nonce.as_ref().unwrap(),
            )
            .unwrap();
            assert_eq!(d, raw, "{mime}: bytes differ (sanitize off)");
        }
    }
    // a later joiner gets the data through the welcome
    let raw = enc(image::ImageFormat::Png, 5, 5);
    let up = prepare_group_image_for_upload(&raw, "image/png").unwrap();
    let upd = NostrGroupDataUpdate::new()
        .image_hash(Some(up.encrypted_hash))
        .image_key(Some(*up.image_key))
        .image_nonce(Some(*up.image_nonce))
        .image_upload_key(Some(*up.image_upload_key));
    let r = a.mdk.update_group_data(&gid, upd).unwrap();
    a.mdk.merge_pending_commit(&gid).unwrap();
    deliver(&b, &r.evolution_event);
    let add = a.mdk.add_members(&gid, &[key_package_event(&c)]).unwrap();
    a.mdk.merge_pending_commit(&gid).unwrap();
    deliver(&b, &add.evolution_event);
    join(&c, &add.welcome_rumors.as_ref().unwrap()[0]);
    let g = c.mdk.get_group(&gid).unwrap().unwrap();
    let d = decrypt_group_image(
        &up.encrypted_data,
        g.image_hash.as_ref(),
        g.image_key.as_ref().unwrap(),
        g.image_nonce.as_ref().unwrap(),
    )
    .unwrap();
    let da = decrypt_group_image(&up.encrypted_data, Some(&up.encrypted_hash), &up.image_key, &up.image_nonce).unwrap();
    assert_eq!(d, da);
    // sanitised PNG decodes to the same pixels as the input
    let p1 = image::load_from_memory(&d).unwrap().to_rgb8();
    let p2 = image::load_from_memory(&raw).unwrap().to_rgb8();
    assert_eq!(p1, p2);
}

#[test]
fn group_image_tamper() {
    let raw = enc(image::ImageFormat::Png, 6, 6);
    let up = prepare_group_image_for_upload(&raw, "image/png").unwrap();
    let good = decrypt_group_image(&up.encrypted_data, Some(&up.encrypted_hash), &up.image_key, &up.image_nonce).unwrap();
    let mut bad = Vec::new();
    for with_hash in [true, false] {
        let h = if with_hash { Some(&up.encrypted_hash) } else { None };
        for i in 0..up.encrypted_data.len() * 8 {
            let mut ct = (*up.encrypted_data).clone();
            ct[i / 8] ^= 1 << (i % 8);
            if let Ok(d) = decrypt_group_image(&ct, h, &up.image_key, &up.image_nonce) {
                bad.push(format!("ct bit {i} hash={with_hash} same={}", d == good));
            }
        }
        for i in 0..256 {
            let mut k = *up.image_key;
            k[i / 8] ^= 1 << (i % 8);
            if decrypt_group_image(&up.encrypted_data, h, &Secret::new(k), &up.image_nonce).is_ok() {
                bad.push(format!("key bit {i}"));
            }
        }
        for i in 0..96 {
            let mut n = *up.image_nonce;
            n[i / 8] ^= 1 << (i % 8);
            if decrypt_group_image(&up.encrypted_data, h, &up.image_key, &Secret::new(n)).is_ok() {
                bad.push(format!("nonce bit {i}"));
            }
        }
    }
    for i in 0..256 {
        let mut hh = up.encrypted_hash;
        hh[i / 8] ^= 1 << (i % 8);
        if decrypt_group_image(&up.encrypted_data, Some(&hh), &up.image_key, &up.image_nonce).is_ok() {
            bad.push(format!("image_hash bit {i}"));
        }
    }
    // upload key is independent of the image key
    let kp_from_image_key = derive_upload_keypair(&up.image_key, 2).unwrap();
    assert_ne!(kp_from_image_key.public_key(), up.upload_keypair.public_key());
    assert!(derive_upload_keypair(&up.image_upload_key, 3).is_err());
    assert!(derive_upload_keypair(&up.image_upload_key, 0).is_err());
    assert!(bad.is_empty(), "{}", bad.join("\n"));
}

#[test]
fn group_image_v1_and_migration() {
    let raw = enc(image::ImageFormat::Png, 7, 3);
    // v1: key used directly
    let key = [0x11u8; 32];
    let nonce = [0x22u8; 12];
    let ct = ChaCha20Poly1305::new_from_slice(&key)
        .unwrap()
        .encrypt(Nonce::from_slice(&nonce), raw.as_slice())
        .unwrap();
    let h = sha(&ct);
    let d = decrypt_group_image(&ct, Some(&h), &Secret::new(key), &Secret::new(nonce)).unwrap();
    assert_eq!(d, raw);
    let d = decrypt_group_image(&ct, None, &Secret::new(key), &Secret::new(nonce)).unwrap();
    assert_eq!(d, raw);
    let v2 = migrate_group_image_v1_to_v2(&ct, Some(&h), &Secret::new(key), &Secret::new(nonce), "image/png").unwrap();
    let d2 = decrypt_group_image(&v2.encrypted_data, Some(&v2.encrypted_hash), &v2.image_key, &v2.image_nonce).unwrap();
    assert_eq!(
        image::load_from_memory(&d2).unwrap().to_rgb8(),
        image::load_from_memory(&raw).unwrap().to_rgb8()
    );
    // a v2 blob is not decryptable when its seed is (mis)used as a v1 direct key by a v1-only reader:
    let direct = ChaCha20Poly1305::new_from_slice(v2.image_key.as_ref())
        .unwrap()
        .decrypt(Nonce::from_slice(v2.image_nonce.as_ref()), v2.encrypted_data.as_slice());
    assert!(direct.is_err());
    // INFO: decrypt_group_image takes no version: a v1 blob under a version-2 extension label decrypts.
    println!("INFO decrypt_group_image is version-agnostic (tries v2 derivation, then v1 direct key)");
}
