//! Shared harness for the r17_* tests (property C17: media / group image encryption).
#![allow(dead_code)]

use mdk_core::encrypted_media::{EncryptedMediaUpload, MediaReference};
use mdk_core::messages::MessageProcessingResult;
use mdk_core::prelude::*;
use mdk_core::{MDK, MdkConfig};
use mdk_storage_traits::MdkStorageProvider;
use nostr::event::builder::EventBuilder;
use nostr::{Event, EventId, Keys, Kind, RelayUrl, Tag, UnsignedEvent};

pub struct Client<S: MdkStorageProvider> {
    pub keys: Keys,
    pub mdk: MDK<S>,
}

pub fn relay() -> RelayUrl {
    RelayUrl::parse("wss://test.relay").unwrap()
}

pub fn new_client<S: MdkStorageProvider>(storage: S, cfg: MdkConfig) -> Client<S> {
    Client {
        keys: Keys::generate(),
        mdk: MDK::builder(storage).with_config(cfg).build(),
    }
}

pub fn key_package_event<S: MdkStorageProvider>(c: &Client<S>) -> Event {
    let (kp, tags, _) = c
        .mdk
        .create_key_package_for_event(&c.keys.public_key(), vec![relay()])
        .expect("key package");
    EventBuilder::new(Kind::MlsKeyPackage, kp)
        .tags(tags)
        .sign_with_keys(&c.keys)
        .expect("sign kp")
}

/// Creator creates a group containing `others`, every one of them accepts the welcome.
pub fn create_group<S: MdkStorageProvider>(creator: &Client<S>, others: &[&Client<S>]) -> GroupId {
    let kps: Vec<Event> = others.iter().map(|c| key_package_event(c)).collect();
    let config = NostrGroupConfigData::new(
        "g".to_owned(),
        "d".to_owned(),
        None,
        None,
        None,
        vec![relay()],
        vec![creator.keys.public_key()],
    );
    let res = creator
        .mdk
        .create_group(&creator.keys.public_key(), kps, config)
        .expect("create group");
    let gid = res.group.mls_group_id.clone();
    creator.mdk.merge_pending_commit(&gid).expect("merge");
    for (i, rumor) in res.welcome_rumors.iter().enumerate() {
        join(others[i], rumor);
    }
    gid
}

pub fn join<S: MdkStorageProvider>(c: &Client<S>, welcome_rumor: &UnsignedEvent) {
    let mut id = [0u8; 32];
    nostr::secp256k1::rand::RngCore::fill_bytes(&mut nostr::secp256k1::rand::rngs::OsRng, &mut id);
    let w = c
        .mdk
        .process_welcome(&EventId::from_slice(&id).unwrap(), welcome_rumor)
        .expect("process welcome");
    c.mdk.accept_welcome(&w).expect("accept welcome");
}

pub fn epoch<S: MdkStorageProvider>(c: &Client<S>, gid: &GroupId) -> u64 {
    c.mdk.get_group(gid).unwrap().unwrap().epoch
}

/// `who` self-updates and merges; returns the commit event for the others.
pub fn commit_self_update<S: MdkStorageProvider>(who: &Client<S>, gid: &GroupId) -> Event {
    let r = who.mdk.self_update(gid).expect("self update");
    who.mdk.merge_pending_commit(gid).expect("merge");
    r.evolution_event
}

pub fn deliver<S: MdkStorageProvider>(to: &Client<S>, ev: &Event) -> MessageProcessingResult {
    to.mdk.process_message(ev).expect("process_message")
}

/// Build the announcing rumor (kind 9 with an imeta tag).
pub fn announce_rumor(author: &Keys, tag: Tag, text: &str) -> UnsignedEvent {
    EventBuilder::new(Kind::Custom(9), text)
        .tag(tag)
        .build(author.public_key())
}

/// Encrypt + build tag + create the announcing message. Returns (upload, wrapper event, imeta tag).
pub fn send_media<S: MdkStorageProvider>(
    sender: &Client<S>,
    gid: &GroupId,
    data: &[u8],
    mime: &str,
    filename: &str,
) -> (EncryptedMediaUpload, Event, Tag) {
    let mgr = sender.mdk.media_manager(gid.clone());
    let up = mgr
        .encrypt_for_upload(data, mime, filename)
        .unwrap_or_else(|e| panic!("encrypt_for_upload({mime},{filename:?},{}B): {e}", data.len()));
    let tag = mgr.create_imeta_tag(&up, "https://blossom.example/abcdef");
    let rumor = announce_rumor(&sender.keys, tag.clone(), "file");
    let ev = sender.mdk.create_message(gid, rumor).expect("create_message");
    (up, ev, tag)
}

/// Find the imeta tag of the (only / latest) stored message that carries one with this nonce and parse it.
pub fn reference_from_store<S: MdkStorageProvider>(
    c: &Client<S>,
    gid: &GroupId,
    nonce: &[u8; 12],
) -> Option<MediaReference> {
    let mgr = c.mdk.media_manager(gid.clone());
    let msgs = c.mdk.get_messages(gid, None).unwrap();
    for m in msgs {
        for t in m.tags.iter() {
            if t.kind() == nostr::TagKind::Custom("imeta".into())
                && let Ok(r) = mgr.parse_imeta_tag(t)
                && &r.nonce == nonce
            {
                return Some(r);
            }
        }
    }
    None
}

pub fn sha(data: &[u8]) -> [u8; 32] {
    use sha2::Digest;
    sha2::Sha256::digest(data).into()
}

pub fn payload(len: usize, seed: u8) -> Vec<u8> {
    (0..len)
        .map(|i| (i as u32).wrapping_mul(2654435761).rotate_left(seed as u32 % 31) as u8 ^ seed)
        .collect()
}
