//! C17 demonstration: a file encrypted for the group in epoch N can be decrypted by NO member
//! of epoch N (not even its sender) when a commit is processed between `encrypt_for_upload`
//! and the creation of the announcing message.
//!
//! The MIP-04 API is necessarily two-step: `encrypt_for_upload` (key = exporter secret of the
//! epoch current at that moment), then the application uploads the blob to Blossom (seconds to
//! minutes for large files), then `create_imeta_tag` + `create_message`. The imeta tag carries
//! no epoch; `decrypt_from_download` takes the epoch from the *announcing message*
//! (`find_message_epoch_by_tag_content`) and otherwise only tries the current epoch. If any
//! commit (another member's, or the sender's own periodic self-update) is applied during the
//! upload, the announcing message belongs to epoch N+1, both candidates are wrong and the
//! file is permanently undecryptable although every member still stores the exporter secret
//! of epoch N.
#![cfg(feature = "mip04")]

mod r17_common;

use mdk_core::MdkConfig;
use mdk_core::encrypted_media::crypto::{decrypt_data_with_aad, derive_encryption_key};
use mdk_core::prelude::*;
use mdk_memory_storage::MdkMemoryStorage;
use mdk_sqlite_storage::MdkSqliteStorage;
use mdk_storage_traits::Secret;
use r17_common::*;

fn run<S: MdkStorageProvider>(mk: &dyn Fn() -> S, commits_in_between: usize) -> Vec<String> {
    let a = new_client(mk(), MdkConfig::default());
    let b = new_client(mk(), MdkConfig::default());
    let gid = create_group(&a, &[&b]);
    let data = payload(50_000, 5);

    // --- epoch N: A encrypts, starts uploading
    let n = epoch(&a, &gid);
    assert_eq!(epoch(&b, &gid), n);
    let mgr_a = a.mdk.media_manager(gid.clone());
    let up = mgr_a
        .encrypt_for_upload(&data, "application/pdf", "report.pdf")
        .unwrap();
    assert_eq!(up.original_hash, sha(&data));
    // (diagnostic only) the key both members can derive in epoch N
    let key_n_a = derive_encryption_key(&a.mdk, &gid, "mip04-v2", &up.original_hash, "application/pdf", "report.pdf").unwrap();
    let key_n_b = derive_encryption_key(&b.mdk, &gid, "mip04-v2", &up.original_hash, "application/pdf", "report.pdf").unwrap();
    assert_eq!(*key_n_a, *key_n_b);

    // --- meanwhile: B's self-update commit(s) arrive and are processed by A
    for _ in 0..commits_in_between {
        let commit = commit_self_update(&b, &gid);
        deliver(&a, &commit);
    }
    let now = epoch(&a, &gid);
    assert_eq!(now, n + commits_in_between as u64);

    // --- upload finished: A announces the file
    let tag = mgr_a.create_imeta_tag(&up, "https://blossom.example/blob");
    let ev = a
        .mdk
        .create_message(&gid, announce_rumor(&a.keys, tag, "here is the report"))
        .unwrap();
    deliver(&b, &ev);

    // sanity: blob + tag + epoch-N key are perfectly fine
    let r = reference_from_store(&b, &gid, &up.nonce).expect("B stored the announcing message");
    let manual = decrypt_data_with_aad(
        &up.encrypted_data,
        &key_n_b,
        &Secret::new(r.nonce),
        &r.scheme_version,
        &r.original_hash,
        &r.mime_type,
        &r.filename,
    )
    .expect("blob decrypts with the epoch-N key");
    assert_eq!(manual, data);

    let mut failures = Vec::new();
    for (who, cl) in [("sender A", &a), ("member B", &b)] {
        let r = reference_from_store(cl, &gid, &up.nonce).expect("announce stored");
        match cl
            .mdk
            .media_manager(gid.clone())
            .decrypt_from_download(&up.encrypted_data, &r)
        {
            Ok(d) => assert_eq!(d, data, "{who}: different bytes"),
            Err(e) => failures.push(format!(
                "{who}: member of encrypting epoch {n}, announcing message in epoch {now}: {e}"
            )),
        }
    }
    failures
}

#[test]
fn control_no_commit_in_between() {
    assert!(run(&|| MdkMemoryStorage::default(), 0).is_empty());
}

#[test]
fn demo_commit_during_upload_memory() {
    let f = run(&|| MdkMemoryStorage::default(), 1);
    assert!(f.is_empty(), "C17 round-trip broken:\n{}", f.join("\n"));
}

#[test]
fn demo_commit_during_upload_sqlite() {
    let dir = tempfile::tempdir().unwrap();
    let n = std::cell::Cell::new(0);
    let f = run(
        &|| {
            n.set(n.get() + 1);
            MdkSqliteStorage::new_unencrypted(dir.path().join(format!("db{}.sqlite", n.get())))
                .unwrap()
        },
        1,
    );
    assert!(f.is_empty(), "C17 round-trip broken:\n{}", f.join("\n"));
}

#[test]
fn demo_three_commits_during_upload_memory() {
    let f = run(&|| MdkMemoryStorage::default(), 3);
    assert!(f.is_empty(), "C17 round-trip broken:\n{}", f.join("\n"));
}
