//! C17: round trips (sizes, MIME families, names) across 0..6 epochs, both processing orders,
//! memory and sqlite backends.
#![cfg(feature = "mip04")]

mod r17_common;

use mdk_core::MdkConfig;
use mdk_core::prelude::*;
use mdk_memory_storage::MdkMemoryStorage;
use mdk_sqlite_storage::MdkSqliteStorage;
use r17_common::*;

fn cfg() -> MdkConfig {
    MdkConfig {
        max_past_epochs: 8,
        ..Default::default()
    }
}

fn run_epoch_matrix<S: MdkStorageProvider>(mk: &dyn Fn() -> S) {
    let a = new_client(mk(), cfg());
    let b = new_client(mk(), cfg());
    let c = new_client(mk(), cfg());
    let gid = create_group(&a, &[&b, &c]);

    let mut failures = Vec::new();
    for k in 0..=6usize {
        for after in [false, true] {
            let data = payload(1000 + k * 7 + after as usize, k as u8);
            let name = format!("f{k}_{after}.bin");
            let (up, ev, _tag) = send_media(&a, &gid, &data, "application/pdf", &name);
            assert_eq!(up.original_hash, sha(&data));
            let enc_epoch = epoch(&a, &gid);

            if !after {
                deliver(&b, &ev);
                deliver(&c, &ev);
            }
            for _ in 0..k {
                let commit = commit_self_update(&a, &gid);
                deliver(&b, &commit);
                deliver(&c, &commit);
            }
            if after {
                deliver(&b, &ev);
                deliver(&c, &ev);
            }
            assert_eq!(epoch(&b, &gid), enc_epoch + k as u64);

            for (who, cl) in [("sender", &a), ("B", &b), ("C", &c)] {
                let r = reference_from_store(cl, &gid, &up.nonce);
                let Some(r) = r else {
                    failures.push(format!("k={k} after={after} {who}: announcing message not stored"));
                    continue;
                };
                match cl
                    .mdk
                    .media_manager(gid.clone())
                    .decrypt_from_download(&up.encrypted_data, &r)
                {
                    Ok(d) if d == data => {}
                    Ok(_) => failures.push(format!("k={k} after={after} {who}: DIFFERENT BYTES")),
                    Err(e) => failures.push(format!("k={k} after={after} {who}: {e}")),
                }
            }
        }
    }
    assert!(failures.is_empty(), "round-trip failures:\n{}", failures.join("\n"));
}

#[test]
fn epoch_matrix_memory() {
    run_epoch_matrix(&|| MdkMemoryStorage::default());
}

#[test]
fn epoch_matrix_sqlite() {
    let dir = tempfile::tempdir().unwrap();
    let n = std::cell::Cell::new(0);
    run_epoch_matrix(&|| {
        n.set(n.get() + 1);
        MdkSqliteStorage::new_unencrypted(dir.path().join(format!("db{}.sqlite", n.get()))).unwrap()
    });
}

fn run_sizes_mimes_names<S: MdkStorageProvider>(mk: &dyn Fn() -> S) {
    let a = new_client(mk(), cfg());
    let b = new_client(mk(), cfg());
    let gid = create_group(&a, &[&b]);

    let sizes = [
        0usize, 1, 15, 16, 17, 31, 32, 33, 63, 64, 65, 255, 256, 257, 4095, 4096, 4097, 65535,
        65536, 65537, 1 << 20, (3 << 20) + 5,
    ];
    let mimes = [
        "text/plain",
        "application/pdf",
        "application/octet-stream",
        "video/mp4",
        "video/quicktime",
        "video/x-matroska",
        "video/webm",
        "video/x-msvideo",
        "video/ogg",
        "audio/ogg",
        "audio/flac",
        "audio/x-flac",
        "audio/aac",
        "audio/mp4",
        "audio/webm",
        "audio/mpeg",
        "audio/wav",
        "audio/x-matroska",
        // spellings
        "TEXT/PLAIN",
        "  text/plain; charset=utf-8 ",
        "Application/PDF;foo=bar;baz",
        "text/plain ;x",
        "text/plain;",
    ];
    let nfc = "caf\u{00e9}.txt";
    let nfd = "cafe\u{0301}.txt";
    let long = "x".repeat(210);
    let long_uni = "\u{1F600}".repeat(52); // 208 bytes
    let names: Vec<&str> = vec![
        "a",
        ".",
        "..",
        "...",
        ".hidden",
        "trailing.",
        " leading space",
        "trailing space ",
        "  two  spaces  ",
        "with \"quotes\" and 'single'",
        "100%_sure.txt",
        "n 000000000000000000000000",
        "x deadbeef",
        "filename other",
        "v mip04-v1",
        "m image-png",
        "url https:evil",
        "[\"imeta\"]",
        "a,b;c:d|e?f*g<h>i",
        nfc,
        nfd,
        &long,
        &long_uni,
        "日本語のファイル名.pdf",
        "\u{202e}gnp.exe",
        "\u{feff}bom.txt",
        "\u{00a0}nbsp",
        "\u{2028}linesep",
    ];

    let mut failures = Vec::new();
    let mut i = 0usize;
    let mut check = |data: &[u8], mime: &str, name: &str| {
        i += 1;
        let mgr = a.mdk.media_manager(gid.clone());
        let up = match mgr.encrypt_for_upload(data, mime, name) {
            Ok(u) => u,
            Err(e) => {
                failures.push(format!("ENCRYPT refused {mime:?} {name:?} {}B: {e}", data.len()));
                return;
            }
        };
        if up.original_hash != sha(data) {
            failures.push(format!("hash differs for non-image {mime:?} {name:?}"));
        }
        let tag = mgr.create_imeta_tag(&up, "https://blossom.example/abcdef");
        let ev = a
            .mdk
            .create_message(&gid, announce_rumor(&a.keys, tag, "file"))
            .unwrap();
        deliver(&b, &ev);
        // advance one epoch every few files so that hint lookup matters
        if i % 5 == 0 {
            let commit = commit_self_update(&a, &gid);
            deliver(&b, &commit);
        }
        for (who, cl) in [("sender", &a), ("B", &b)] {
            let Some(r) = reference_from_store(cl, &gid, &up.nonce) else {
                failures.push(format!("{who}: no parsable imeta for {mime:?} {name:?}"));
                continue;
            };
            if r.filename != name {
                failures.push(format!("{who}: filename changed {name:?} -> {:?}", r.filename));
            }
            match cl
                .mdk
                .media_manager(gid.clone())
                .decrypt_from_download(&up.encrypted_data, &r)
            {
                Ok(d) if d == data => {}
                Ok(_) => failures.push(format!("{who}: DIFFERENT BYTES {mime:?} {name:?}")),
                Err(e) => failures.push(format!(
                    "{who}: decrypt failed {mime:?} {name:?} {}B: {e}",
                    data.len()
                )),
            }
        }
    };

    for (j, s) in sizes.iter().enumerate() {
        check(&payload(*s, j as u8), mimes[j % 18], "file.bin");
    }
    for (j, m) in mimes.iter().enumerate() {
        check(&payload(100 + j, j as u8), m, "file.bin");
    }
    for (j, n) in names.iter().enumerate() {
        check(&payload(200 + j, j as u8), "text/plain", n);
    }
    assert!(failures.is_empty(), "failures:\n{}", failures.join("\n"));
}

#[test]
fn sizes_mimes_names_memory() {
    run_sizes_mimes_names(&|| MdkMemoryStorage::default());
}

#[test]
fn sizes_mimes_names_sqlite() {
    let dir = tempfile::tempdir().unwrap();
    let n = std::cell::Cell::new(0);
    run_sizes_mimes_names(&|| {
        n.set(n.get() + 1);
        MdkSqliteStorage::new_unencrypted(dir.path().join(format!("db{}.sqlite", n.get()))).unwrap()
    });
}
