//! C17: tamper evidence of every imeta field, ciphertext and nonce bits; key separation; images.
#![cfg(feature = "mip04")]

mod r17_common;

use std::io::Cursor;

use mdk_core::MdkConfig;
use mdk_core::encrypted_media::crypto::{
    decrypt_data_with_aad, derive_encryption_key, encrypt_data_with_aad,
};
use mdk_core::encrypted_media::{MediaProcessingOptions, MediaReference};
use mdk_memory_storage::MdkMemoryStorage;
use mdk_storage_traits::Secret;
use nostr::{Tag, TagKind};
use r17_common::*;

fn imeta(values: Vec<String>) -> Tag {
    Tag::custom(TagKind::Custom("imeta".into()), values)
}

fn replace_field(tag: &Tag, key: &str, new_value: &str) -> Tag {
    let v = tag.clone().to_vec();
    let mut out = Vec::new();
    for item in v.into_iter().skip(1) {
        if item.starts_with(&format!("{key} ")) {
            out.push(format!("{key} {new_value}"));
        } else {
            out.push(item);
        }
    }
    imeta(out)
}

fn field(tag: &Tag, key: &str) -> String {
    tag.clone()
        .to_vec()
        .into_iter()
        .skip(1)
        .find(|i| i.starts_with(&format!("{key} ")))
        .map(|i| i[key.len() + 1..].to_string())
        .unwrap()
}

#[test]
fn every_bit_of_ciphertext_and_nonce_and_hash() {
    let a = new_client(MdkMemoryStorage::default(), MdkConfig::default());
    let b = new_client(MdkMemoryStorage::default(), MdkConfig::default());
    let gid = create_group(&a, &[&b]);
    let data = payload(64, 3);
    let (up, ev, _tag) = send_media(&a, &gid, &data, "text/plain", "t.txt");
    deliver(&b, &ev);
    let r = reference_from_store(&b, &gid, &up.nonce).unwrap();
    let mgr = b.mdk.media_manager(gid.clone());
    assert_eq!(mgr.decrypt_from_download(&up.encrypted_data, &r).unwrap(), data);

    let mut bad = Vec::new();
    // every single bit of the ciphertext (incl. tag)
    for i in 0..up.encrypted_data.len() * 8 {
        let mut ct = up.encrypted_data.clone();
        ct[i / 8] ^= 1 << (i % 8);
        if let Ok(d) = mgr.decrypt_from_download(&ct, &r) {
            bad.push(format!("ct bit {i} -> {} bytes same={}", d.len(), d == data));
        }
    }
    // truncation / extension
    for cut in 0..up.encrypted_data.len() {
        if mgr.decrypt_from_download(&up.encrypted_data[..cut], &r).is_ok() {
            bad.push(format!("truncated to {cut}"));
        }
    }
    let mut ext = up.encrypted_data.clone();
    ext.push(0);
    if mgr.decrypt_from_download(&ext, &r).is_ok() {
        bad.push("extended".into());
    }
    // every nonce bit
    for i in 0..96 {
        let mut r2 = r.clone();
        r2.nonce[i / 8] ^= 1 << (i % 8);
        if let Ok(d) = mgr.decrypt_from_download(&up.encrypted_data, &r2) {
            bad.push(format!("nonce bit {i} same={}", d == data));
        }
    }
    // every hash bit
    for i in 0..256 {
        let mut r2 = r.clone();
        r2.original_hash[i / 8] ^= 1 << (i % 8);
        if let Ok(d) = mgr.decrypt_from_download(&up.encrypted_data, &r2) {
            bad.push(format!("hash bit {i} same={}", d == data));
        }
    }
    assert!(bad.is_empty(), "tamper accepted:\n{}", bad.join("\n"));
}

#[test]
fn every_imeta_field() {
    let a = new_client(MdkMemoryStorage::default(), MdkConfig::default());
    let b = new_client(MdkMemoryStorage::default(), MdkConfig::default());
    let gid = create_group(&a, &[&b]);
    let data = payload(500, 9);
    let (up, ev, tag) = send_media(&a, &gid, &data, "audio/flac", "Song.flac");
    deliver(&b, &ev);
    let mgr = b.mdk.media_manager(gid.clone());
    let ok = mgr.parse_imeta_tag(&tag).unwrap();
    assert_eq!(mgr.decrypt_from_download(&up.encrypted_data, &ok).unwrap(), data);

    let mut accepted = Vec::new();
    let mut try_tag = |what: &str, t: Tag, must_fail: bool| match mgr.parse_imeta_tag(&t) {
        Err(_) => {}
        Ok(r) => match mgr.decrypt_from_download(&up.encrypted_data, &r) {
            Err(_) => {}
            Ok(d) => {
                let line = format!(
                    "{what}: decrypts (same bytes={}) ref={{m:{:?}, filename:{:?}, v:{:?}}}",
                    d == data,
                    r.mime_type,
                    r.filename,
                    r.scheme_version
                );
                if must_fail {
                    accepted.push(line);
                } else {
                    println!("INFO (unbound field) {line}");
                }
            }
        },
    };

    // filename variants
    for f in [
        "song.flac", "Song.flac ", " Song.flac", "Song.flaC", "Song.fla", "Song.flacc", "Song",
        "S\u{006f}\u{0301}ng.flac", "Song\u{200b}.flac", "Song.flac\u{feff}",
    ] {
        try_tag(&format!("filename {f:?}"), replace_field(&tag, "filename", f), true);
    }
    // mime variants (different values)
    for m in [
        "audio/x-flac", "audio/ogg", "audio/mpeg", "application/octet-stream", "text/plain",
        "video/ogg", "audio/flac2", "audio/fla",
    ] {
        try_tag(&format!("m {m:?}"), replace_field(&tag, "m", m), true);
    }
    // hash variants
    let x = field(&tag, "x");
    let mut xb = hex::decode(&x).unwrap();
    xb[31] ^= 1;
    try_tag("x last bit", replace_field(&tag, "x", &hex::encode(&xb)), true);
    try_tag("x of ciphertext", replace_field(&tag, "x", &hex::encode(up.encrypted_hash)), true);
    try_tag("x zero", replace_field(&tag, "x", &"00".repeat(32)), true);
    // version variants
    for v in ["mip04-v1", "mip04-v3", "MIP04-V2", "mip04-v2 ", " mip04-v2", "mip04-v2\u{0}", "2", ""] {
        try_tag(&format!("v {v:?}"), replace_field(&tag, "v", v), true);
    }
    // nonce variants
    let n = field(&tag, "n");
    let mut nb = hex::decode(&n).unwrap();
    nb[0] ^= 0x80;
    try_tag("n first bit", replace_field(&tag, "n", &hex::encode(&nb)), true);
    try_tag("n zero", replace_field(&tag, "n", &"00".repeat(12)), true);
    // duplicate fields: a second, different value appended (last wins in the parser)
    for (k, v) in [
        ("filename", "other.flac"),
        ("m", "audio/ogg"),
        ("x", &"11".repeat(32) as &str),
        ("n", &"22".repeat(12) as &str),
    ] {
        let mut vals: Vec<String> = tag.clone().to_vec().into_iter().skip(1).collect();
        vals.push(format!("{k} {v}"));
        try_tag(&format!("appended duplicate {k}"), imeta(vals.clone()), true);
        let mut vals2 = vec![format!("{k} {v}")];
        vals2.extend(tag.clone().to_vec().into_iter().skip(1));
        // prepended duplicate: original (last) wins -> decrypts with the true value; that is
        // a tag that still states the true value, only informational
        try_tag(&format!("prepended duplicate {k}"), imeta(vals2), false);
    }
    // unbound fields (informational)
    try_tag("url", replace_field(&tag, "url", "https://evil.example/x"), false);

    assert!(accepted.is_empty(), "tampered tag accepted:\n{}", accepted.join("\n"));
}

#[test]
fn key_separation() {
    let a = new_client(MdkMemoryStorage::default(), MdkConfig::default());
    let b = new_client(MdkMemoryStorage::default(), MdkConfig::default());
    let gid1 = create_group(&a, &[&b]);
    let gid2 = create_group(&a, &[&b]);
    let h1 = [1u8; 32];
    let h2 = [2u8; 32];
    let mut keys = std::collections::HashMap::new();
    let mut collisions = Vec::new();
    let mimes = ["text/plain", "application/pdf", "audio/flac", "audio/x-flac", "a", "ab", "a/b", ""];
    let names = ["a", "ab", "b", "/c", "c", "a\0b", "\0", "", "key", "a\0key", "plain", "text/plaina"];
    for (gi, gid) in [&gid1, &gid2].iter().enumerate() {
        for h in [h1, h2] {
            for m in mimes {
                for n in names {
                    // direct crypto API: no validation of mime/filename here
                    let k = derive_encryption_key(&a.mdk, gid, "mip04-v2", &h, m, n).unwrap();
                    let id = format!("g{gi} h{} m{m:?} n{n:?}", h[0]);
                    if let Some(prev) = keys.insert(*k, id.clone()) {
                        collisions.push(format!("{prev}  ==  {id}"));
                    }
                }
            }
        }
    }
    // B derives the same keys as A for the same inputs
    let ka = derive_encryption_key(&a.mdk, &gid1, "mip04-v2", &h1, "text/plain", "a").unwrap();
    let kb = derive_encryption_key(&b.mdk, &gid1, "mip04-v2", &h1, "text/plain", "a").unwrap();
    assert_eq!(*ka, *kb);
    // NUL-containing inputs can collide in the raw crypto API; the manager refuses such names.
    for c in &collisions {
        println!("raw-API collision: {c}");
    }
    let reachable: Vec<_> = collisions
        .iter()
        .filter(|c| !c.contains("\\0"))
        .collect();
    assert!(reachable.is_empty(), "key collisions without NUL: {reachable:?}");
    let mgr = a.mdk.media_manager(gid1.clone());
    assert!(mgr.encrypt_for_upload(b"x", "text/plain", "a\0b").is_err());
    assert!(mgr.encrypt_for_upload(b"x", "text/plain\0a", "b").is_err());
}

#[test]
fn aad_binds_independently_of_key() {
    // even with the right key, AAD alone must bind name / mime / hash / version
    let key = Secret::new([7u8; 32]);
    let nonce = Secret::new([9u8; 12]);
    let h = [3u8; 32];
    let ct = encrypt_data_with_aad(b"hello", &key, &nonce, "mip04-v2", &h, "text/plain", "a").unwrap();
    assert!(decrypt_data_with_aad(&ct, &key, &nonce, "mip04-v2", &h, "text/plain", "a").is_ok());
    assert!(decrypt_data_with_aad(&ct, &key, &nonce, "mip04-v2", &h, "text/plain", "b").is_err());
    assert!(decrypt_data_with_aad(&ct, &key, &nonce, "mip04-v2", &h, "text/plai", "na").is_err());
    assert!(decrypt_data_with_aad(&ct, &key, &nonce, "mip04-v1", &h, "text/plain", "a").is_err());
    let mut h2 = h;
    h2[0] ^= 1;
    assert!(decrypt_data_with_aad(&ct, &key, &nonce, "mip04-v2", &h2, "text/plain", "a").is_err());
}

fn png(w: u32, h: u32) -> Vec<u8> {
    let img = image::RgbImage::from_fn(w, h, |x, y| image::Rgb([x as u8, y as u8, (x ^ y) as u8]));
    let mut out = Cursor::new(Vec::new());
    img.write_to(&mut out, image::ImageFormat::Png).unwrap();
    out.into_inner()
}
fn enc(fmt: image::ImageFormat, w: u32, h: u32) -> Vec<u8> {
    let img = image::RgbImage::from_fn(w, h, |x, y| image::Rgb([x as u8, y as u8, (x ^ y) as u8]));
    let mut out = Cursor::new(Vec::new());
    image::DynamicImage::ImageRgb8(img).write_to(&mut out, fmt).unwrap();
    out.into_inner()
}

#[test]
fn images_roundtrip_to_reported_hash() {
    let a = new_client(MdkMemoryStorage::default(), MdkConfig::default());
    let b = new_client(MdkMemoryStorage::default(), MdkConfig::default());
    let gid = create_group(&a, &[&b]);
    let mgr_a = a.mdk.media_manager(gid.clone());
    let mgr_b = b.mdk.media_manager(gid.clone());
    let mut problems = Vec::new();

    let cases: Vec<(&str, Vec<u8>)> = vec![
        ("image/png", png(1, 1)),
        ("image/png", png(33, 17)),
        ("IMAGE/PNG; q=1", png(8, 8)),
        ("image/jpeg", enc(image::ImageFormat::Jpeg, 40, 30)),
        ("image/gif", enc(image::ImageFormat::Gif, 10, 10)),
        ("image/webp", enc(image::ImageFormat::WebP, 10, 10)),
    ];
    for (mime, bytes) in &cases {
        for sanitize in [true, false] {
            for blur in [true, false] {
                let opts = MediaProcessingOptions {
                    sanitize_exif: sanitize,
                    generate_blurhash: blur,
                    ..Default::default()
                };
                let up = match mgr_a.encrypt_for_upload_with_options(bytes, mime, "pic", &opts) {
                    Ok(u) => u,
                    Err(e) => {
                        problems.push(format!("{mime} sanitize={sanitize} blur={blur}: encrypt refused: {e}"));
                        continue;
                    }
                };
                let tag = mgr_a.create_imeta_tag(&up, "https://b/x");
                let ev = a.mdk.create_message(&gid, announce_rumor(&a.keys, tag, "pic")).unwrap();
                deliver(&b, &ev);
                let r = reference_from_store(&b, &gid, &up.nonce).unwrap();
                match mgr_b.decrypt_from_download(&up.encrypted_data, &r) {
                    Ok(d) => {
                        if sha(&d) != up.original_hash {
                            problems.push(format!("{mime}: decrypted bytes differ from reported hash"));
                        }
                        if !sanitize && d != *bytes {
                            problems.push(format!("{mime}: sanitize=false but bytes altered"));
                        }
                        if d.len() as u64 != up.original_size {
                            problems.push(format!("{mime}: original_size mismatch"));
                        }
                        // decodes to the same dimensions the tag states
                        let dim = image::ImageReader::new(Cursor::new(&d))
                            .with_guessed_format()
                            .unwrap()
                            .into_dimensions()
                            .unwrap();
                        if Some(dim) != r.dimensions {
                            problems.push(format!("{mime}: dim {:?} vs {:?}", dim, r.dimensions));
                        }
                    }
                    Err(e) => problems.push(format!("{mime} sanitize={sanitize} blur={blur}: decrypt: {e}")),
                }
            }
        }
    }
    // allow-listed image types the image crate is not built to decode
    for (mime, fmt_bytes) in [
        ("image/bmp", {
            // minimal 1x1 24-bit BMP
            let mut v = vec![
                b'B', b'M', 58, 0, 0, 0, 0, 0, 0, 0, 54, 0, 0, 0, 40, 0, 0, 0, 1, 0, 0, 0, 1, 0, 0,
                0, 1, 0, 24, 0, 0, 0, 0, 0, 4, 0, 0, 0, 0x13, 0x0b, 0, 0, 0x13, 0x0b, 0, 0, 0, 0, 0,
                0, 0, 0, 0, 0,
            ];
            v.extend_from_slice(&[0, 0, 255, 0]);
            v
        }),
    ] {
        match mgr_a.encrypt_for_upload(&fmt_bytes, mime, "pic") {
            Ok(_) => {}
            Err(e) => println!("INFO allow-listed {mime} cannot be encrypted at all: {e}"),
        }
    }
    assert!(problems.is_empty(), "image problems:\n{}", problems.join("\n"));
}

#[test]
fn hand_made_reference_unknown_version_refused() {
    let a = new_client(MdkMemoryStorage::default(), MdkConfig::default());
    let b = new_client(MdkMemoryStorage::default(), MdkConfig::default());
    let gid = create_group(&a, &[&b]);
    let data = payload(10, 1);
    let (up, ev, _) = send_media(&a, &gid, &data, "text/plain", "t");
    deliver(&b, &ev);
    let r = reference_from_store(&b, &gid, &up.nonce).unwrap();
    for v in ["mip04-v1", "mip04-v3", ""] {
        let r2 = MediaReference {
            scheme_version: v.to_string(),
            ..r.clone()
        };
        assert!(
            b.mdk
                .media_manager(gid.clone())
                .decrypt_from_download(&up.encrypted_data, &r2)
                .is_err(),
            "version {v:?} accepted"
        );
    }
}
