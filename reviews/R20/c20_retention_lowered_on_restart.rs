//! C20 demo: after a restart with a smaller `epoch_snapshot_retention`, a group keeps more
//! rollback snapshots than configured until its next commit happens to arrive.
//!
//! The retention bound is enforced only inside `EpochSnapshotManager::ensure_hydrated`
//! (crates/mdk-core/src/epoch_snapshots.rs:105-154, prune at 146-151), which runs lazily,
//! per group, the first time a commit (or a wrong-epoch commit) of THAT group is processed.
//! `MdkBuilder::build` (crates/mdk-core/src/lib.rs:247-264) prunes by age only. A group that
//! is quiet (or inactive: it will never process a commit again) therefore keeps every stored
//! snapshot - each one a copy of the group's epoch secrets - until the TTL expires.

use mdk_core::prelude::*;
use mdk_core::{MDK, MdkConfig};
use mdk_memory_storage::MdkMemoryStorage;
use mdk_sqlite_storage::MdkSqliteStorage;
use mdk_storage_traits::{GroupId, MdkStorageProvider};
use nostr::{Event, EventBuilder, EventId, Keys, Kind, RelayUrl};
use openmls_traits::OpenMlsProvider;

fn kp_event<S: MdkStorageProvider>(mdk: &MDK<S>, keys: &Keys) -> Event {
    let relays = vec![RelayUrl::parse("wss://test.relay").unwrap()];
    let (kp, tags, _) = mdk
        .create_key_package_for_event(&keys.public_key(), relays)
        .unwrap();
    EventBuilder::new(Kind::MlsKeyPackage, kp)
        .tags(tags)
        .sign_with_keys(keys)
        .unwrap()
}

fn cfg(admins: Vec<nostr::PublicKey>) -> NostrGroupConfigData {
    NostrGroupConfigData::new(
        "g".to_owned(),
        "d".to_owned(),
        None,
        None,
        None,
        vec![RelayUrl::parse("wss://test.relay").unwrap()],
        admins,
    )
}

fn open_observer(path: &std::path::Path, retention: usize) -> MDK<MdkSqliteStorage> {
    MDK::builder(MdkSqliteStorage::new_unencrypted(path).unwrap())
        .with_config(MdkConfig {
            epoch_snapshot_retention: retention,
            ..Default::default()
        })
        .build()
}

/// An admin (memory backend) creates a group with the observer in it.
fn new_group(
    observer: &MDK<MdkSqliteStorage>,
    observer_keys: &Keys,
    wrapper: u8,
) -> (MDK<MdkMemoryStorage>, Keys, GroupId) {
    let admin_keys = Keys::generate();
    let admin = MDK::new(MdkMemoryStorage::default());
    let created = admin
        .create_group(
            &admin_keys.public_key(),
            vec![kp_event(observer, observer_keys)],
            cfg(vec![admin_keys.public_key()]),
        )
        .unwrap();
    let gid = created.group.mls_group_id.clone();
    admin.merge_pending_commit(&gid).unwrap();
    let welcome = observer
        .process_welcome(
            &EventId::from_slice(&[wrapper; 32]).unwrap(),
            &created.welcome_rumors[0],
        )
        .unwrap();
    observer.accept_welcome(&welcome).unwrap();
    (admin, admin_keys, gid)
}

/// The admin commits (self-update), the observer processes the commit.
fn commit(admin: &MDK<MdkMemoryStorage>, observer: &MDK<MdkSqliteStorage>, gid: &GroupId) {
    let up = admin.self_update(gid).unwrap();
    admin.merge_pending_commit(gid).unwrap();
    observer.process_message(&up.evolution_event).unwrap();
}

fn stored(observer: &MDK<MdkSqliteStorage>, gid: &GroupId) -> usize {
    observer
        .provider
        .storage()
        .list_group_snapshots(gid)
        .unwrap()
        .len()
}

#[test]
fn snapshots_exceed_retention_after_restart_with_smaller_retention() {
    let dir = tempfile::TempDir::new().unwrap();
    let path = dir.path().join("observer.db");
    let observer_keys = Keys::generate();

    // First run: retention 5, two groups, 5 received commits each.
    let observer = open_observer(&path, 5);
    let (admin1, _, g1) = new_group(&observer, &observer_keys, 1);
    let (admin2, _, g2) = new_group(&observer, &observer_keys, 2);
    for _ in 0..5 {
        commit(&admin1, &observer, &g1);
        commit(&admin2, &observer, &g2);
    }
    assert_eq!(stored(&observer, &g1), 5);
    assert_eq!(stored(&observer, &g2), 5);
    drop(observer);

    // Restart with retention 2 (TTL unchanged: nothing is old enough to expire).
    let retention = 2;
    let observer = open_observer(&path, retention);

    // Group 1 receives one more commit: its queue is hydrated and pruned to the new bound.
    commit(&admin1, &observer, &g1);
    assert_eq!(
        stored(&observer, &g1),
        retention,
        "group 1 (had traffic) is pruned to the configured retention"
    );

    // Group 2 had no traffic: C20 says it holds at most `retention` snapshots at any time.
    let n2 = stored(&observer, &g2);
    assert!(
        n2 <= retention,
        "C20 violated: quiet group holds {n2} rollback snapshots, configured retention is {retention}"
    );
}

#[test]
fn snapshots_survive_restart_with_retention_zero() {
    let dir = tempfile::TempDir::new().unwrap();
    let path = dir.path().join("observer.db");
    let observer_keys = Keys::generate();

    let observer = open_observer(&path, 3);
    let (admin, admin_keys, gid) = new_group(&observer, &observer_keys, 1);
    for _ in 0..3 {
        commit(&admin, &observer, &gid);
    }
    assert_eq!(stored(&observer, &gid), 3);
    drop(observer);

    // Rollback support switched off: no copy of past epoch state should be kept.
    let observer = open_observer(&path, 0);
    // Application traffic does not touch the snapshot queue.
    let rumor = EventBuilder::new(Kind::Custom(9), "hi").build(admin_keys.public_key());
    let msg = admin.create_message(&gid, rumor).unwrap();
    observer.process_message(&msg).unwrap();
    let n = stored(&observer, &gid);
    assert_eq!(
        n, 0,
        "C20 violated: {n} rollback snapshots kept although the configured retention is 0"
    );
}
