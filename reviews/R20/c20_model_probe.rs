//! C20 model probe (scratch): histories of commits / races / restarts, invariants on snapshots.

use mdk_core::prelude::*;
use mdk_core::{MDK, MdkConfig};
use mdk_memory_storage::MdkMemoryStorage;
use mdk_sqlite_storage::MdkSqliteStorage;
use mdk_storage_traits::{GroupId, MdkStorageProvider};
use nostr::{Event, EventBuilder, EventId, Keys, Kind, RelayUrl};
use openmls_traits::OpenMlsProvider;

fn kp_event<S: MdkStorageProvider>(mdk: &MDK<S>, keys: &Keys) -> Event {
    let relays = vec![RelayUrl::parse("wss://test.relay").unwrap()];
    let (kp, tags, _) = mdk
        .create_key_package_for_event(&keys.public_key(), relays)
        .unwrap();
    EventBuilder::new(Kind::MlsKeyPackage, kp)
        .tags(tags)
        .sign_with_keys(keys)
        .unwrap()
}

fn cfg(admins: Vec<nostr::PublicKey>) -> NostrGroupConfigData {
    NostrGroupConfigData::new(
        "g".to_owned(),
        "d".to_owned(),
        None,
        None,
        None,
        vec![RelayUrl::parse("wss://test.relay").unwrap()],
        admins,
    )
}

fn join<S: MdkStorageProvider>(m: &MDK<S>, rumors: &[nostr::UnsignedEvent]) {
    for (i, rumor) in rumors.iter().enumerate() {
        let wid = EventId::from_slice(&mdk_storage_traits::test_utils::crypto_utils::generate_random_bytes(32)).unwrap();
        let _ = i;
        if let Ok(w) = m.process_welcome(&wid, rumor) {
            m.accept_welcome(&w).unwrap();
            return;
        }
    }
    panic!("no welcome matched");
}

fn better_first<'a>(a: &'a Event, b: &'a Event) -> bool {
    if a.created_at != b.created_at {
        a.created_at < b.created_at
    } else {
        a.id.to_hex() < b.id.to_hex()
    }
}

#[derive(Clone, Copy, Debug)]
enum Step {
    Commit(usize),
    Race(usize, bool),
    Restart,
}

struct G {
    gid: GroupId,
    a: MDK<MdkMemoryStorage>,
    rivals: Vec<MDK<MdkMemoryStorage>>,
    model: Vec<(u64, String)>,
    epoch: u64,
}

fn check<S: MdkStorageProvider>(o: &MDK<S>, g: &G, r: usize, what: &str) {
    let l = o.provider.storage().list_group_snapshots(&g.gid).unwrap();
    let mut got: Vec<(u64, String)> = l
        .iter()
        .map(|(n, _)| {
            let p: Vec<&str> = n.split('_').collect();
            (p[2].parse::<u64>().unwrap(), p[3].to_string())
        })
        .collect();
    got.sort();
    let mut want = g.model.clone();
    want.sort();
    let oe = o.get_group(&g.gid).unwrap().unwrap().epoch;
    assert_eq!(oe, g.epoch, "{what}: observer epoch");
    assert!(got.len() <= r, "{what}: {} snapshots > retention {r}: {:?}", got.len(), got);
    assert_eq!(got, want, "{what}: stored snapshots differ from model");
}

fn apply(g: &mut G, r: usize, e: u64, id: &EventId) {
    g.model.push((e, id.to_hex()));
    while g.model.len() > r {
        g.model.remove(0);
    }
}

fn run<S: MdkStorageProvider>(open: &dyn Fn(usize) -> MDK<S>, r: usize, ngroups: usize, nrivals: usize, steps: &[Step]) {
    let okeys = Keys::generate();
    let mut o = open(r);
    let mut gs: Vec<G> = vec![];
    for _ in 0..ngroups {
        let akeys = Keys::generate();
        let a = MDK::new(MdkMemoryStorage::default());
        let mut rk = vec![];
        let mut rivals = vec![];
        for _ in 0..nrivals {
            rk.push(Keys::generate());
            rivals.push(MDK::new(MdkMemoryStorage::default()));
        }
        let mut kps = vec![kp_event(&o, &okeys)];
        let mut admins = vec![akeys.public_key(), okeys.public_key()];
        for (m, k) in rivals.iter().zip(rk.iter()) {
            kps.push(kp_event(m, k));
            admins.push(k.public_key());
        }
        let created = a.create_group(&akeys.public_key(), kps, cfg(admins)).unwrap();
        let gid = created.group.mls_group_id.clone();
        a.merge_pending_commit(&gid).unwrap();
        join(&o, &created.welcome_rumors);
        for m in rivals.iter() {
            join(m, &created.welcome_rumors);
        }
        let epoch = a.get_group(&gid).unwrap().unwrap().epoch;
        gs.push(G { gid, a, rivals, model: vec![], epoch });
    }

    for (si, st) in steps.iter().enumerate() {
        let what = format!("step {si} {:?}", st);
        match *st {
            Step::Commit(gi) => {
                let g = &mut gs[gi % ngroups];
                let up = g.a.self_update(&g.gid).unwrap();
                g.a.merge_pending_commit(&g.gid).unwrap();
                for m in &g.rivals {
                    m.process_message(&up.evolution_event).unwrap();
                }
                o.process_message(&up.evolution_event).unwrap();
                let e = g.epoch;
                apply(g, r, e, &up.evolution_event.id);
                g.epoch += 1;
            }
            Step::Race(gi, follow) => {
                let g = &mut gs[gi % ngroups];
                if g.rivals.is_empty() {
                    continue;
                }
                let rv = g.rivals.pop().unwrap();
                let x = rv.self_update(&g.gid).unwrap().evolution_event;
                let y = g.a.self_update(&g.gid).unwrap().evolution_event;
                let e = g.epoch;
                if better_first(&y, &x) {
                    // x (rival) is worse: observer sees x first
                    o.process_message(&x).unwrap();
                    apply(g, r, e, &x.id);
                    g.epoch += 1;
                    check(&o, g, r, &format!("{what} after worse x"));
                    if follow {
                        rv.merge_pending_commit(&g.gid).unwrap();
                        let x2 = rv.self_update(&g.gid).unwrap().evolution_event;
                        rv.merge_pending_commit(&g.gid).unwrap();
                        o.process_message(&x2).unwrap();
                        apply(g, r, e + 1, &x2.id);
                        g.epoch += 1;
                        check(&o, g, r, &format!("{what} after x2"));
                    }
                    let had = g.model.iter().any(|(ep, _)| *ep == e);
                    let res = o.process_message(&y);
                    if had {
                        res.unwrap();
                        g.model.retain(|(ep, _)| *ep < e);
                        apply(g, r, e, &y.id);
                        g.epoch = e + 1;
                    } else {
                        // no snapshot of that epoch any more: observer cannot roll back; stop using this group
                        println!("{what}: no snapshot to roll back; result {:?}", res.is_ok());
                        check(&o, g, r, &what);
                        return;
                    }
                    g.a.merge_pending_commit(&g.gid).unwrap();
                    for m in &g.rivals {
                        m.process_message(&y).unwrap();
                    }
                    // rv is discarded
                } else {
                    // y (canonical admin) is worse
                    o.process_message(&y).unwrap();
                    apply(g, r, e, &y.id);
                    g.epoch += 1;
                    check(&o, g, r, &format!("{what} after worse y"));
                    let had = g.model.iter().any(|(ep, _)| *ep == e);
                    let res = o.process_message(&x);
                    if !had {
                        println!("{what}: no snapshot to roll back; result {:?}", res.is_ok());
                        check(&o, g, r, &what);
                        return;
                    }
                    res.unwrap();
                    g.model.retain(|(ep, _)| *ep < e);
                    apply(g, r, e, &x.id);
                    g.epoch = e + 1;
                    g.a.clear_pending_commit(&g.gid).unwrap();
                    g.a.process_message(&x).unwrap();
                    rv.merge_pending_commit(&g.gid).unwrap();
                    for m in &g.rivals {
                        m.process_message(&x).unwrap();
                    }
                    g.rivals.push(rv);
                }
            }
            Step::Restart => {
                drop(o);
                o = open(r);
            }
        }
        for g in &gs {
            check(&o, g, r, &what);
        }
    }
}

fn gen_steps(seed: u64, n: usize, ngroups: usize, restarts: bool) -> Vec<Step> {
    let mut s = seed.wrapping_mul(6364136223846793005).wrapping_add(1442695040888963407);
    let mut next = || {
        s = s.wrapping_mul(6364136223846793005).wrapping_add(1442695040888963407);
        (s >> 33) as usize
    };
    let mut v = vec![];
    for _ in 0..n {
        let gi = next() % ngroups;
        match next() % 10 {
            0..=4 => v.push(Step::Commit(gi)),
            5..=6 => v.push(Step::Race(gi, false)),
            7 => v.push(Step::Race(gi, true)),
            _ => {
                if restarts {
                    v.push(Step::Restart)
                } else {
                    v.push(Step::Commit(gi))
                }
            }
        }
    }
    v
}

#[test]
fn model_memory() {
    for r in 0..=4usize {
        for seed in 0..3u64 {
            let ng = 1 + (seed as usize % 2);
            let steps = gen_steps(seed * 7 + r as u64, 14, ng, false);
            println!("memory r={r} seed={seed} {:?}", steps);
            run(
                &|r| {
                    MDK::builder(MdkMemoryStorage::default())
                        .with_config(MdkConfig { epoch_snapshot_retention: r, ..Default::default() })
                        .build()
                },
                r,
                ng,
                4,
                &steps,
            );
        }
    }
}

#[test]
fn model_sqlite() {
    for r in 0..=4usize {
        for seed in 0..3u64 {
            let ng = 1 + (seed as usize % 2);
            let steps = gen_steps(seed * 11 + r as u64 + 100, 14, ng, true);
            println!("sqlite r={r} seed={seed} {:?}", steps);
            let dir = tempfile::TempDir::new().unwrap();
            let path = dir.path().join("o.db");
            run(
                &|r| {
                    MDK::builder(MdkSqliteStorage::new_unencrypted(&path).unwrap())
                        .with_config(MdkConfig { epoch_snapshot_retention: r, ..Default::default() })
                        .build()
                },
                r,
                ng,
                4,
                &steps,
            );
        }
    }
}
