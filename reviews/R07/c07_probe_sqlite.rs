//! C07 probe on sqlite with restarts
#![allow(dead_code)]
use mdk_core::prelude::*;
use mdk_sqlite_storage::MdkSqliteStorage;
use mdk_storage_traits::messages::MessageStorage;
use nostr::{Event, EventBuilder, EventId, Keys, Kind, RelayUrl};
use openmls_traits::OpenMlsProvider;

type M = MDK<MdkSqliteStorage>;

fn open(p: &std::path::Path) -> M {
    MDK::new(MdkSqliteStorage::new_unencrypted(p).unwrap())
}
fn kp(m: &M, k: &Keys) -> Event {
    let relays = vec![RelayUrl::parse("wss://test.relay").unwrap()];
    let (hex, tags, _h) = m.create_key_package_for_event(&k.public_key(), relays).unwrap();
    EventBuilder::new(Kind::MlsKeyPackage, hex).tags(tags).sign_with_keys(k).unwrap()
}
fn cfg(admins: Vec<nostr::PublicKey>) -> NostrGroupConfigData {
    NostrGroupConfigData::new("G".into(), "D".into(), None, None, None,
        vec![RelayUrl::parse("wss://test.relay").unwrap()], admins)
}
fn rumor(k: &Keys, c: &str) -> nostr::UnsignedEvent {
    EventBuilder::new(Kind::TextNote, c).build(k.public_key())
}
fn join(m: &M, w: &nostr::UnsignedEvent) {
    let welcome = m.process_welcome(&EventId::all_zeros(), w).unwrap();
    m.accept_welcome(&welcome).unwrap();
}
fn fp(m: &M, gid: &GroupId) -> String {
    let g = m.get_group(gid).unwrap().unwrap();
    let mut s = format!(
        "group: epoch={} name={} admins={:?} state={:?} last_id={:?} last_at={:?} last_proc={:?} su={:?}\n",
        g.epoch, g.name, g.admin_pubkeys, g.state, g.last_message_id, g.last_message_at, g.last_message_processed_at, g.self_update_state);
    s += &format!("members: {:?}\n", m.get_members(gid).ok());
    if let Ok(Some(mls)) = m.load_mls_group(gid) {
        s += &format!("mls: epoch={} active={} pc={} pp={} auth={}\n", mls.epoch().as_u64(), mls.is_active(),
            mls.pending_commit().is_some(), mls.pending_proposals().count(), hex::encode(mls.epoch_authenticator().as_slice()));
    }
    let mut msgs = m.get_messages(gid, None).unwrap();
    msgs.sort_by_key(|x| x.id);
    for x in msgs {
        s += &format!("msg {} state={:?} epoch={:?} wrapper={} proc_at={} content={}\n", x.id, x.state, x.epoch, x.wrapper_event_id, x.processed_at.as_secs(), x.content);
    }
    s
}
fn rec(m: &M, e: &Event) -> String {
    match m.provider.storage().find_processed_message_by_event_id(&e.id).unwrap() {
        Some(r) => format!("{:?}/ep{:?}/{:?}", r.state, r.epoch, r.failure_reason),
        None => "none".to_string(),
    }
}
fn replay(label: &str, m: &M, gid: &GroupId, e: &Event, n: usize) -> bool {
    let mut ok = true;
    for i in 0..n {
        let before = fp(m, gid);
        let rb = rec(m, e);
        let r = m.process_message(e);
        let after = fp(m, gid);
        let ra = rec(m, e);
        println!("[{label}] replay#{i}: result={:?} rec {rb} -> {ra}", r.as_ref().map(|x| format!("{x:?}").chars().take(30).collect::<String>()).map_err(|e| e.to_string()));
        if before != after {
            ok = false;
            println!("[{label}] !!! STATE CHANGED on replay#{i}\n--- before\n{before}--- after\n{after}");
        }
    }
    ok
}
fn better(x: &Event, y: &Event) -> bool {
    (x.created_at.as_secs(), x.id.to_hex()) < (y.created_at.as_secs(), y.id.to_hex())
}

#[test]
fn sq_race_rollback_restart() {
    let dir = tempfile::tempdir().unwrap();
    let (pa, pb, pc) = (dir.path().join("a.db"), dir.path().join("b.db"), dir.path().join("c.db"));
    let (ak, bk, ck) = (Keys::generate(), Keys::generate(), Keys::generate());
    let (a, b, mut c) = (open(&pa), open(&pb), open(&pc));
    let r = a.create_group(&ak.public_key(), vec![kp(&b, &bk), kp(&c, &ck)], cfg(vec![ak.public_key(), bk.public_key()])).unwrap();
    let gid = r.group.mls_group_id.clone();
    a.merge_pending_commit(&gid).unwrap();
    join(&b, &r.welcome_rumors[0]);
    join(&c, &r.welcome_rumors[1]);

    let pre1 = a.create_message(&gid, rumor(&ak, "pre1")).unwrap();
    let pre2 = a.create_message(&gid, rumor(&ak, "pre2-late")).unwrap();
    let own_c = c.create_message(&gid, rumor(&ck, "carol-own-pre")).unwrap();
    let leave = c.leave_group(&gid).unwrap().evolution_event; // queued own proposal
    c.process_message(&pre1).unwrap();
    let ca = a.update_group_data(&gid, NostrGroupDataUpdate::new().name("by-alice")).unwrap().evolution_event;
    let cb = b.self_update(&gid).unwrap().evolution_event;
    let (win, lose, wm, wk, lm, lk) = if better(&ca, &cb) { (ca, cb, &a, &ak, &b, &bk) } else { (cb, ca, &b, &bk, &a, &ak) };
    wm.merge_pending_commit(&gid).unwrap();
    lm.merge_pending_commit(&gid).unwrap();
    let on_lose = lm.create_message(&gid, rumor(lk, "on-losing-branch")).unwrap();
    let on_win = wm.create_message(&gid, rumor(wk, "on-winning-branch")).unwrap();

    c.process_message(&lose).unwrap();
    c.process_message(&on_lose).unwrap();
    c.process_message(&pre2).unwrap();
    let mut ok = true;
    ok &= replay("lose dup", &c, &gid, &lose, 1);
    // restart before the winner arrives? -> known weakness (timestamps lost). So restart AFTER.
    let r = c.process_message(&win).unwrap();
    println!("win: {r:?}\n{}", fp(&c, &gid));
    drop(c);
    c = open(&pc);
    ok &= replay("win dup", &c, &gid, &win, 2);
    ok &= replay("lose dup after rollback", &c, &gid, &lose, 2);
    ok &= replay("on_lose dup", &c, &gid, &on_lose, 2);
    ok &= replay("pre1 dup", &c, &gid, &pre1, 2);
    ok &= replay("pre2 dup", &c, &gid, &pre2, 2);
    ok &= replay("leave echo", &c, &gid, &leave, 2);
    let r = c.process_message(&own_c);
    println!("own_c: {r:?}");
    let r = c.process_message(&on_win);
    println!("on_win: {r:?}");
    drop(c);
    c = open(&pc);
    ok &= replay("own_c dup", &c, &gid, &own_c, 2);
    ok &= replay("on_win dup", &c, &gid, &on_win, 2);
    ok &= replay("pre2 dup again", &c, &gid, &pre2, 1);
    ok &= replay("win dup again", &c, &gid, &win, 1);
    assert!(ok);
}
