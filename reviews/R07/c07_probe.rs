//! C07 probe: replay of already-handled events must change nothing.
#![allow(dead_code)]

use mdk_core::prelude::*;
use mdk_memory_storage::MdkMemoryStorage;
use mdk_storage_traits::messages::MessageStorage;
use nostr::{Event, EventBuilder, EventId, Keys, Kind, RelayUrl};
use openmls_traits::OpenMlsProvider;

type M = MDK<MdkMemoryStorage>;

fn mdk() -> M {
    MDK::new(MdkMemoryStorage::default())
}

fn kp(m: &M, k: &Keys) -> Event {
    let relays = vec![RelayUrl::parse("wss://test.relay").unwrap()];
    let (hex, tags, _h) = m
        .create_key_package_for_event(&k.public_key(), relays)
        .unwrap();
    EventBuilder::new(Kind::MlsKeyPackage, hex)
        .tags(tags)
        .sign_with_keys(k)
        .unwrap()
}

fn cfg(admins: Vec<nostr::PublicKey>) -> NostrGroupConfigData {
    NostrGroupConfigData::new(
        "G".to_string(),
        "D".to_string(),
        None,
        None,
        None,
        vec![RelayUrl::parse("wss://test.relay").unwrap()],
        admins,
    )
}

fn rumor(k: &Keys, c: &str) -> nostr::UnsignedEvent {
    EventBuilder::new(Kind::TextNote, c).build(k.public_key())
}

fn join(m: &M, w: &nostr::UnsignedEvent) {
    let welcome = m.process_welcome(&EventId::all_zeros(), w).unwrap();
    m.accept_welcome(&welcome).unwrap();
}

/// Observable-state fingerprint.
fn fp(m: &M, gid: &GroupId) -> String {
    let g = m.get_group(gid).unwrap().unwrap();
    let mut s = String::new();
    s += &format!(
        "group: epoch={} name={} desc={} admins={:?} state={:?} last_id={:?} last_at={:?} last_proc={:?} ngid={}\n",
        g.epoch,
        g.name,
        g.description,
        g.admin_pubkeys,
        g.state,
        g.last_message_id,
        g.last_message_at,
        g.last_message_processed_at,
        hex::encode(g.nostr_group_id)
    );
    s += &format!("members: {:?}\n", m.get_members(gid).ok());
    s += &format!("relays: {:?}\n", m.get_relays(gid).ok());
    if let Ok(Some(mls)) = m.load_mls_group(gid) {
        s += &format!(
            "mls: epoch={} active={} pending_commit={} pending_props={} auth={}\n",
            mls.epoch().as_u64(),
            mls.is_active(),
            mls.pending_commit().is_some(),
            mls.pending_proposals().count(),
            hex::encode(mls.epoch_authenticator().as_slice()),
        );
    }
    let mut msgs = m.get_messages(gid, None).unwrap();
    msgs.sort_by_key(|x| x.id);
    for x in msgs {
        s += &format!(
            "msg {} state={:?} epoch={:?} wrapper={} proc_at={} content={}\n",
            x.id,
            x.state,
            x.epoch,
            x.wrapper_event_id,
            x.processed_at.as_secs(),
            x.content
        );
    }
    s
}

fn rec(m: &M, e: &Event) -> String {
    match m
        .provider
        .storage()
        .find_processed_message_by_event_id(&e.id)
        .unwrap()
    {
        Some(r) => format!("{:?}/ep{:?}/{:?}", r.state, r.epoch, r.failure_reason),
        None => "none".to_string(),
    }
}

fn replay(label: &str, m: &M, gid: &GroupId, e: &Event, n: usize) -> bool {
    let mut ok = true;
    for i in 0..n {
        let before = fp(m, gid);
        let rb = rec(m, e);
        let r = m.process_message(e);
        let after = fp(m, gid);
        let ra = rec(m, e);
        println!(
            "[{label}] replay#{i}: result={:?} rec {rb} -> {ra}",
            r.as_ref().map(|x| format!("{x:?}")).map_err(|e| e.to_string())
        );
        if before != after {
            ok = false;
            println!("[{label}] !!! STATE CHANGED on replay#{i}\n--- before\n{before}--- after\n{after}");
        }
    }
    ok
}

struct World {
    ak: Keys,
    bk: Keys,
    ck: Keys,
    a: M,
    b: M,
    c: M,
    gid: GroupId,
}

/// alice admin (+ optionally bob admin), members bob, carol
fn world(bob_admin: bool) -> World {
    let (ak, bk, ck) = (Keys::generate(), Keys::generate(), Keys::generate());
    let (a, b, c) = (mdk(), mdk(), mdk());
    let mut admins = vec![ak.public_key()];
    if bob_admin {
        admins.push(bk.public_key());
    }
    let r = a
        .create_group(&ak.public_key(), vec![kp(&b, &bk), kp(&c, &ck)], cfg(admins))
        .unwrap();
    let gid = r.group.mls_group_id.clone();
    a.merge_pending_commit(&gid).unwrap();
    join(&b, &r.welcome_rumors[0]);
    join(&c, &r.welcome_rumors[1]);
    World {
        ak,
        bk,
        ck,
        a,
        b,
        c,
        gid,
    }
}

#[test]
fn s1_app_message_dups() {
    let w = world(false);
    let m1 = w.a.create_message(&w.gid, rumor(&w.ak, "m1")).unwrap();
    w.b.process_message(&m1).unwrap();
    let mut ok = replay("s1 same epoch", &w.b, &w.gid, &m1, 3);
    // own echo at alice
    ok &= {
        w.a.process_message(&m1).unwrap();
        replay("s1 own echo", &w.a, &w.gid, &m1, 3)
    };
    // advance epoch
    let u = w.a.self_update(&w.gid).unwrap();
    w.a.merge_pending_commit(&w.gid).unwrap();
    w.b.process_message(&u.evolution_event).unwrap();
    ok &= replay("s1 later epoch", &w.b, &w.gid, &m1, 2);
    ok &= replay("s1 own echo later epoch", &w.a, &w.gid, &m1, 2);
    ok &= replay("s1 commit dup at bob", &w.b, &w.gid, &u.evolution_event, 3);
    ok &= replay("s1 own commit echo at alice", &w.a, &w.gid, &u.evolution_event, 3);
    assert!(ok);
}

#[test]
fn s2_proposal_dups() {
    let w = world(false);
    // carol leaves: proposal
    let p = w.c.leave_group(&w.gid).unwrap().evolution_event;
    let r = w.b.process_message(&p).unwrap();
    println!("bob got {r:?}");
    let mut ok = replay("s2 prop dup at bob", &w.b, &w.gid, &p, 3);
    ok &= {
        w.c.process_message(&p).ok();
        replay("s2 own prop echo at carol", &w.c, &w.gid, &p, 3)
    };
    // alice admin auto-commits
    let r = w.a.process_message(&p).unwrap();
    let commit = match r {
        MessageProcessingResult::Proposal(u) => u.evolution_event,
        o => panic!("unexpected {o:?}"),
    };
    ok &= replay("s2 prop dup at alice before merge", &w.a, &w.gid, &p, 2);
    w.a.merge_pending_commit(&w.gid).unwrap();
    ok &= replay("s2 prop dup at alice after merge", &w.a, &w.gid, &p, 2);
    ok &= replay("s2 auto-commit echo at alice", &w.a, &w.gid, &commit, 2);
    w.b.process_message(&commit).unwrap();
    ok &= replay("s2 prop dup at bob after commit", &w.b, &w.gid, &p, 2);
    ok &= replay("s2 commit dup at bob", &w.b, &w.gid, &commit, 2);
    // carol evicted
    let r = w.c.process_message(&commit);
    println!("carol evict: {r:?}");
    ok &= replay("s2 evict commit dup at carol", &w.c, &w.gid, &commit, 2);
    ok &= replay("s2 prop dup at carol after evict", &w.c, &w.gid, &p, 2);
    assert!(ok);
}

fn better(x: &Event, y: &Event) -> bool {
    (x.created_at.as_secs(), x.id.to_hex()) < (y.created_at.as_secs(), y.id.to_hex())
}

#[test]
fn s5_race_rollback() {
    let w = world(true);
    // pre-fork messages
    let pre1 = w.a.create_message(&w.gid, rumor(&w.ak, "pre1")).unwrap();
    let pre2 = w.a.create_message(&w.gid, rumor(&w.ak, "pre2-late")).unwrap();
    let own_c = w.c.create_message(&w.gid, rumor(&w.ck, "carol-own-pre")).unwrap();
    w.c.process_message(&pre1).unwrap();
    // two competing commits at the same epoch by alice and bob
    let ca = w
        .a
        .update_group_data(&w.gid, NostrGroupDataUpdate::new().name("by-alice"))
        .unwrap()
        .evolution_event;
    let cb = w
        .b
        .update_group_data(&w.gid, NostrGroupDataUpdate::new().name("by-bob"))
        .unwrap()
        .evolution_event;
    let (win, lose, wm, wk, lm, lk) = if better(&ca, &cb) {
        (ca, cb, &w.a, &w.ak, &w.b, &w.bk)
    } else {
        (cb, ca, &w.b, &w.bk, &w.a, &w.ak)
    };
    wm.merge_pending_commit(&w.gid).unwrap();
    lm.merge_pending_commit(&w.gid).unwrap();
    // messages on each branch
    let on_lose = lm.create_message(&w.gid, rumor(lk, "on-losing-branch")).unwrap();
    let on_win = wm.create_message(&w.gid, rumor(wk, "on-winning-branch")).unwrap();

    // carol: loser first
    w.c.process_message(&lose).unwrap();
    println!("after lose: {}", fp(&w.c, &w.gid));
    w.c.process_message(&on_lose).unwrap();
    w.c.process_message(&pre2).unwrap(); // past-epoch message after snapshot
    let own_post = w.c.create_message(&w.gid, rumor(&w.ck, "carol-own-on-losing")).unwrap();
    let r = w.c.process_message(&on_win);
    println!("on_win early: {r:?}");
    let mut ok = true;
    ok &= replay("s5 lose dup before rollback", &w.c, &w.gid, &lose, 2);
    // winner arrives -> rollback
    let r = w.c.process_message(&win).unwrap();
    println!("win: {r:?}\n{}", fp(&w.c, &w.gid));
    ok &= replay("s5 win dup", &w.c, &w.gid, &win, 2);
    ok &= replay("s5 lose dup after rollback", &w.c, &w.gid, &lose, 2);
    ok &= replay("s5 on_lose dup", &w.c, &w.gid, &on_lose, 2);
    ok &= replay("s5 pre1 dup", &w.c, &w.gid, &pre1, 2);
    ok &= replay("s5 pre2 dup", &w.c, &w.gid, &pre2, 2);
    ok &= replay("s5 own_post echo", &w.c, &w.gid, &own_post, 2);
    // first legit processing of own_c echo and on_win
    let r = w.c.process_message(&own_c);
    println!("own_c: {r:?}");
    let r = w.c.process_message(&on_win);
    println!("on_win retry: {r:?}");
    ok &= replay("s5 own_c dup", &w.c, &w.gid, &own_c, 2);
    ok &= replay("s5 on_win dup", &w.c, &w.gid, &on_win, 2);
    ok &= replay("s5 lose dup again", &w.c, &w.gid, &lose, 1);
    assert!(ok);
}

// ---------------------------------------------------------------------------
// randomized exploration
// ---------------------------------------------------------------------------
struct Rng(u64);
impl Rng {
    fn next(&mut self) -> u64 {
        self.0 = self.0.wrapping_mul(6364136223846793005).wrapping_add(1442695040888963407);
        (self.0 >> 33) as u64
    }
    fn below(&mut self, n: usize) -> usize {
        (self.next() % n as u64) as usize
    }
}

fn explore(seed: u64, steps: usize) -> bool {
    use std::collections::HashSet;
    let mut rng = Rng(seed);
    let keys: Vec<Keys> = (0..4).map(|_| Keys::generate()).collect();
    let ms: Vec<M> = (0..4).map(|_| mdk()).collect();
    let names = ["A", "B", "C", "D"];
    let admins = vec![keys[0].public_key(), keys[1].public_key()];
    let r = ms[0]
        .create_group(
            &keys[0].public_key(),
            vec![kp(&ms[1], &keys[1]), kp(&ms[2], &keys[2]), kp(&ms[3], &keys[3])],
            cfg(admins),
        )
        .unwrap();
    let gid = r.group.mls_group_id.clone();
    ms[0].merge_pending_commit(&gid).unwrap();
    for i in 1..4 {
        join(&ms[i], &r.welcome_rumors[i - 1]);
    }
    let mut log: Vec<(usize, Event, String)> = Vec::new();
    let mut seen: Vec<HashSet<EventId>> = (0..4).map(|_| HashSet::new()).collect();
    let mut pending: Vec<bool> = vec![false; 4];
    let mut ok = true;
    let mut trace: Vec<String> = Vec::new();
    for step in 0..steps {
        let who = rng.below(4);
        let m = &ms[who];
        let active = m
            .load_mls_group(&gid)
            .ok()
            .flatten()
            .map(|g| g.is_active())
            .unwrap_or(false);
        let act = rng.below(12);
        match act {
            0 | 1 if active => {
                if let Ok(e) = m.create_message(&gid, rumor(&keys[who], &format!("m{step}"))) {
                    trace.push(format!("{step}: {} create_message {}", names[who], e.id));
                    log.push((who, e, "msg".into()));
                }
            }
            2 if active && who < 2 && !pending[who] => {
                let r = match rng.below(3) {
                    0 => m.update_group_data(
                        &gid,
                        NostrGroupDataUpdate::new().name(format!("n{step}")),
                    ),
                    1 => m.self_update(&gid),
                    _ => m.remove_members(&gid, &[keys[3].public_key()]),
                };
                if let Ok(u) = r {
                    trace.push(format!("{step}: {} commit {}", names[who], u.evolution_event.id));
                    log.push((who, u.evolution_event, "commit".into()));
                    pending[who] = true;
                }
            }
            3 if pending[who] => {
                let r = m.merge_pending_commit(&gid);
                trace.push(format!("{step}: {} merge_pending {:?}", names[who], r.is_ok()));
                pending[who] = false;
            }
            4 if active && who == 2 => {
                if let Ok(u) = m.leave_group(&gid) {
                    trace.push(format!("{step}: {} leave {}", names[who], u.evolution_event.id));
                    log.push((who, u.evolution_event, "leave".into()));
                }
            }
            5 if active && who >= 2 && !pending[who] => {
                if let Ok(u) = m.self_update(&gid) {
                    trace.push(format!("{step}: {} self_update {}", names[who], u.evolution_event.id));
                    log.push((who, u.evolution_event, "commit".into()));
                    pending[who] = true;
                }
            }
            _ => {
                if log.is_empty() {
                    continue;
                }
                let idx = rng.below(log.len());
                let (_, e, kind) = log[idx].clone();
                let dup = seen[who].contains(&e.id);
                let before = fp(m, &gid);
                let rb = rec(m, &e);
                let r = m.process_message(&e);
                let after = fp(m, &gid);
                let ra = rec(m, &e);
                let rs = r
                    .as_ref()
                    .map(|x| format!("{x:?}"))
                    .map_err(|e| e.to_string());
                trace.push(format!(
                    "{step}: deliver {kind} {} to {} dup={dup} rec {rb}->{ra} res={:?}",
                    e.id, names[who], rs
                ));
                if let Ok(MessageProcessingResult::Proposal(u)) = &r {
                    trace.push(format!("{step}:   auto-commit {}", u.evolution_event.id));
                    log.push((who, u.evolution_event.clone(), "commit".into()));
                    pending[who] = true;
                }
                // a pending commit may have been consumed
                if let Ok(Some(g)) = m.load_mls_group(&gid) {
                    pending[who] = g.pending_commit().is_some();
                }
                let was_effective = seen[who].contains(&e.id);
                let effective_now = matches!(
                    r,
                    Ok(MessageProcessingResult::ApplicationMessage(_))
                        | Ok(MessageProcessingResult::Commit { .. })
                        | Ok(MessageProcessingResult::Proposal(_))
                        | Ok(MessageProcessingResult::PendingProposal { .. })
                        | Ok(MessageProcessingResult::IgnoredProposal { .. })
                );
                if effective_now {
                    seen[who].insert(e.id);
                }
                let dup = was_effective;
                if dup && before != after {
                    ok = false;
                    println!("seed {seed}: STATE CHANGED on duplicate at step {step}");
                    for t in &trace {
                        println!("  {t}");
                    }
                    println!("--- before\n{before}--- after\n{after}");
                    return false;
                }
            }
        }
    }
    ok
}

#[test]
fn s9_explore() {
    let base: u64 = std::env::var("SEED").ok().and_then(|s| s.parse().ok()).unwrap_or(1);
    let n: u64 = std::env::var("RUNS").ok().and_then(|s| s.parse().ok()).unwrap_or(20);
    let mut bad = 0;
    for s in base..base + n {
        if !explore(s, 120) {
            bad += 1;
            if bad >= 3 {
                break;
            }
        }
    }
    assert_eq!(bad, 0);
}

// ---------------------------------------------------------------------------
// exploration 2: mostly in-order delivery, races between two admins, dups
// ---------------------------------------------------------------------------
#[derive(Debug, Default)]
struct Cb(std::sync::atomic::AtomicUsize);
impl mdk_core::callback::MdkCallback for Cb {
    fn on_rollback(&self, _info: &mdk_core::callback::RollbackInfo) {
        self.0.fetch_add(1, std::sync::atomic::Ordering::SeqCst);
    }
}

fn explore2(seed: u64, steps: usize, rollbacks: &std::sync::Arc<Cb>) -> bool {
    use std::collections::HashSet;
    let mut rng = Rng(seed);
    let n = 4usize;
    let keys: Vec<Keys> = (0..n).map(|_| Keys::generate()).collect();
    let ms: Vec<M> = (0..n)
        .map(|_| {
            let mut c = mdk_core::MdkConfig::default();
            match std::env::var("CFG").ok().as_deref() {
                Some("1") => {
                    c.max_past_epochs = 0;
                    c.epoch_snapshot_retention = 1;
                }
                Some("2") => {
                    c.max_past_epochs = 1;
                    c.epoch_snapshot_retention = 2;
                    c.out_of_order_tolerance = 1;
                    c.maximum_forward_distance = 2;
                }
                _ => {}
            }
            MDK::builder(MdkMemoryStorage::default())
                .with_config(c)
                .with_callback(rollbacks.clone())
                .build()
        })
        .collect();
    let names = ["A", "B", "C", "D"];
    let admins = vec![keys[0].public_key(), keys[1].public_key()];
    let r = ms[0]
        .create_group(
            &keys[0].public_key(),
            (1..n).map(|i| kp(&ms[i], &keys[i])).collect(),
            cfg(admins),
        )
        .unwrap();
    let gid = r.group.mls_group_id.clone();
    ms[0].merge_pending_commit(&gid).unwrap();
    for i in 1..n {
        join(&ms[i], &r.welcome_rumors[i - 1]);
    }
    let mut log: Vec<(Event, String)> = Vec::new();
    let mut eff: Vec<HashSet<EventId>> = (0..n).map(|_| HashSet::new()).collect();
    let mut cursor = vec![0usize; n];
    let mut trace: Vec<String> = Vec::new();

    let mut deliver = |who: usize,
                       idx: usize,
                       log: &mut Vec<(Event, String)>,
                       eff: &mut Vec<HashSet<EventId>>,
                       trace: &mut Vec<String>,
                       step: usize|
     -> bool {
        let (e, kind) = log[idx].clone();
        let m = &ms[who];
        let dup = eff[who].contains(&e.id);
        let before = fp(m, &gid);
        let rb = rec(m, &e);
        let r = m.process_message(&e);
        let after = fp(m, &gid);
        let ra = rec(m, &e);
        let rs = r
            .as_ref()
            .map(|x| format!("{x:?}").chars().take(40).collect::<String>())
            .map_err(|e| e.to_string());
        trace.push(format!(
            "{step}: deliver#{idx} {kind} {} to {} dup={dup} rec {rb}->{ra} res={:?}",
            &e.id.to_hex()[..8],
            names[who],
            rs
        ));
        if let Ok(MessageProcessingResult::Proposal(u)) = &r {
            trace.push(format!("{step}:   auto-commit {}", &u.evolution_event.id.to_hex()[..8]));
            log.push((u.evolution_event.clone(), format!("autocommit-by-{}", names[who])));
        }
        if matches!(
            r,
            Ok(MessageProcessingResult::ApplicationMessage(_))
                | Ok(MessageProcessingResult::Commit { .. })
                | Ok(MessageProcessingResult::Proposal(_))
                | Ok(MessageProcessingResult::PendingProposal { .. })
                | Ok(MessageProcessingResult::IgnoredProposal { .. })
        ) {
            eff[who].insert(e.id);
        }
        if dup && before != after {
            println!("seed {seed}: STATE CHANGED on duplicate at step {step}");
            for t in trace.iter() {
                println!("  {t}");
            }
            println!("--- before\n{before}--- after\n{after}");
            return false;
        }
        true
    };

    for step in 0..steps {
        let who = rng.below(n);
        let m = &ms[who];
        let g = m.load_mls_group(&gid).ok().flatten();
        let active = g.as_ref().map(|g| g.is_active()).unwrap_or(false);
        let has_pending = g.as_ref().map(|g| g.pending_commit().is_some()).unwrap_or(false);
        let act = rng.below(20);
        match act {
            0 | 1 | 2 if active => {
                if let Ok(e) = m.create_message(&gid, rumor(&keys[who], &format!("m{step}"))) {
                    trace.push(format!("{step}: {} create_message {}", names[who], &e.id.to_hex()[..8]));
                    log.push((e, format!("msg-by-{}", names[who])));
                }
            }
            3 | 4 if active && !has_pending => {
                let r = if who < 2 {
                    match rng.below(4) {
                        0 | 1 => m.update_group_data(
                            &gid,
                            NostrGroupDataUpdate::new().name(format!("n{step}")),
                        ),
                        2 => m.self_update(&gid),
                        _ => m.remove_members(&gid, &[keys[3].public_key()]),
                    }
                } else {
                    m.self_update(&gid)
                };
                if let Ok(u) = r {
                    trace.push(format!("{step}: {} commit {}", names[who], &u.evolution_event.id.to_hex()[..8]));
                    log.push((u.evolution_event, format!("commit-by-{}", names[who])));
                    // mostly merge at once
                    if rng.below(3) != 0 {
                        let r = m.merge_pending_commit(&gid);
                        trace.push(format!("{step}:   merge {:?}", r.is_ok()));
                    }
                }
            }
            5 if has_pending => {
                let r = m.merge_pending_commit(&gid);
                trace.push(format!("{step}: {} merge_pending {:?}", names[who], r.is_ok()));
            }
            6 if active && who == 2 && rng.below(4) == 0 => {
                if let Ok(u) = m.leave_group(&gid) {
                    trace.push(format!("{step}: {} leave {}", names[who], &u.evolution_event.id.to_hex()[..8]));
                    log.push((u.evolution_event, "leave".into()));
                }
            }
            7 | 8 | 9 => {
                // duplicate: any event before the cursor
                if cursor[who] == 0 {
                    continue;
                }
                let idx = rng.below(cursor[who]);
                if !deliver(who, idx, &mut log, &mut eff, &mut trace, step) {
                    return false;
                }
            }
            10 => {
                // reorder: swap the next two
                if cursor[who] + 1 < log.len() {
                    let c = cursor[who];
                    if !deliver(who, c + 1, &mut log, &mut eff, &mut trace, step) {
                        return false;
                    }
                    if !deliver(who, c, &mut log, &mut eff, &mut trace, step) {
                        return false;
                    }
                    cursor[who] += 2;
                }
            }
            _ => {
                // catch up in order
                let k = 1 + rng.below(3);
                for _ in 0..k {
                    if cursor[who] < log.len() {
                        let c = cursor[who];
                        if !deliver(who, c, &mut log, &mut eff, &mut trace, step) {
                            return false;
                        }
                        cursor[who] += 1;
                    }
                }
            }
        }
    }
    true
}

#[test]
fn s10_explore2() {
    let base: u64 = std::env::var("SEED").ok().and_then(|s| s.parse().ok()).unwrap_or(1);
    let n: u64 = std::env::var("RUNS").ok().and_then(|s| s.parse().ok()).unwrap_or(20);
    let cb = std::sync::Arc::new(Cb::default());
    let mut bad = 0;
    for s in base..base + n {
        if !explore2(s, 150, &cb) {
            bad += 1;
            if bad >= 2 {
                break;
            }
        }
    }
    println!("rollbacks seen: {}", cb.0.load(std::sync::atomic::Ordering::SeqCst));
    assert_eq!(bad, 0);
}

#[test]
fn s6_own_pending_vs_competitor() {
    let mut ok = true;
    for round in 0..6 {
        let w = world(true);
        let m0 = w.c.create_message(&w.gid, rumor(&w.ck, "c-pre")).unwrap();
        w.a.process_message(&m0).unwrap();
        let ca = w.a.update_group_data(&w.gid, NostrGroupDataUpdate::new().name("by-alice")).unwrap().evolution_event;
        let cb = w.b.update_group_data(&w.gid, NostrGroupDataUpdate::new().name("by-bob")).unwrap().evolution_event;
        w.b.merge_pending_commit(&w.gid).unwrap();
        let mb = w.b.create_message(&w.gid, rumor(&w.bk, "on-bob-branch")).unwrap();
        println!("round {round}: alice-better={}", better(&ca, &cb));
        // alice has CA pending; CB arrives
        let r = w.a.process_message(&cb);
        println!("alice got CB: {r:?}");
        let r = w.a.process_message(&mb);
        println!("alice got mb: {r:?}");
        ok &= replay("s6 CB dup", &w.a, &w.gid, &cb, 1);
        // first echo of CA
        let r = w.a.process_message(&ca);
        println!("alice got CA echo: {r:?} -> name={}", w.a.get_group(&w.gid).unwrap().unwrap().name);
        std::thread::sleep(std::time::Duration::from_millis(1100));
        ok &= replay("s6 CA echo dup", &w.a, &w.gid, &ca, 2);
        ok &= replay("s6 CB dup2", &w.a, &w.gid, &cb, 2);
        ok &= replay("s6 mb dup", &w.a, &w.gid, &mb, 2);
        ok &= replay("s6 m0 dup", &w.a, &w.gid, &m0, 2);
        let r = w.a.merge_pending_commit(&w.gid);
        println!("late merge_pending_commit: {r:?}");
        ok &= replay("s6 CA echo dup3", &w.a, &w.gid, &ca, 1);
        ok &= replay("s6 CB dup3", &w.a, &w.gid, &cb, 1);
    }
    assert!(ok);
}

#[test]
fn s7_leave_autocommit_race() {
    let mut ok = true;
    for round in 0..6 {
        let (ak, bk, ck, dk) = (Keys::generate(), Keys::generate(), Keys::generate(), Keys::generate());
        let (a, b, c, d) = (mdk(), mdk(), mdk(), mdk());
        let r = a
            .create_group(&ak.public_key(), vec![kp(&b, &bk), kp(&c, &ck), kp(&d, &dk)], cfg(vec![ak.public_key(), bk.public_key()]))
            .unwrap();
        let gid = r.group.mls_group_id.clone();
        a.merge_pending_commit(&gid).unwrap();
        join(&b, &r.welcome_rumors[0]);
        join(&c, &r.welcome_rumors[1]);
        join(&d, &r.welcome_rumors[2]);
        let p = c.leave_group(&gid).unwrap().evolution_event;
        let aca = match a.process_message(&p).unwrap() { MessageProcessingResult::Proposal(u) => u.evolution_event, o => panic!("{o:?}") };
        let acb = match b.process_message(&p).unwrap() { MessageProcessingResult::Proposal(u) => u.evolution_event, o => panic!("{o:?}") };
        let a_better = better(&aca, &acb);
        println!("round {round}: a_better={a_better}");
        b.merge_pending_commit(&gid).unwrap();
        let mb = b.create_message(&gid, rumor(&bk, "after-bob-ac")).unwrap();
        // dave: P, then bob's, then alice's
        d.process_message(&p).unwrap();
        ok &= replay("s7 d P dup", &d, &gid, &p, 1);
        d.process_message(&acb).unwrap();
        let r = d.process_message(&mb); println!("d mb {r:?}");
        let r = d.process_message(&aca); println!("d aca {r:?}");
        std::thread::sleep(std::time::Duration::from_millis(1100));
        ok &= replay("s7 d P dup2", &d, &gid, &p, 2);
        ok &= replay("s7 d acb dup", &d, &gid, &acb, 2);
        ok &= replay("s7 d aca dup", &d, &gid, &aca, 2);
        ok &= replay("s7 d mb dup", &d, &gid, &mb, 2);
        // alice: pending ACa; receives bob's ACb, then own echo
        let r = a.process_message(&acb); println!("a acb {r:?}");
        let r = a.process_message(&mb); println!("a mb {r:?}");
        let r = a.process_message(&aca); println!("a aca echo {r:?}");
        ok &= replay("s7 a P dup", &a, &gid, &p, 2);
        ok &= replay("s7 a acb dup", &a, &gid, &acb, 2);
        ok &= replay("s7 a aca dup", &a, &gid, &aca, 2);
        ok &= replay("s7 a mb dup", &a, &gid, &mb, 2);
        // carol (leaver): own proposal echo, then commits
        let r = c.process_message(&p); println!("c p echo {r:?}");
        let r = c.process_message(&acb); println!("c acb {r:?}");
        let r = c.process_message(&aca); println!("c aca {r:?}");
        ok &= replay("s7 c p dup", &c, &gid, &p, 1);
        ok &= replay("s7 c acb dup", &c, &gid, &acb, 1);
        ok &= replay("s7 c aca dup", &c, &gid, &aca, 1);
    }
    assert!(ok);
}
