//! R05 review tests for property C05 (only admins change roster or group data).
//!
//! Unit tests (inside the crate) because they need `load_mls_group`, `load_mls_signer`,
//! `build_message_event`, which are crate-private without the `debug-examples` feature.

#![allow(missing_docs)]

use std::collections::BTreeSet;

use mdk_memory_storage::MdkMemoryStorage;
use mdk_storage_traits::GroupId;
use nostr::{Event, Keys, PublicKey};
use openmls::prelude::*;
use openmls::schedule::{ExternalPsk, PreSharedKeyId, Psk};
use openmls_basic_credential::SignatureKeyPair;
use tls_codec::Serialize as _;

use crate::MDK;
use crate::extension::NostrGroupDataExtension;
use crate::messages::MessageProcessingResult;
use crate::test_util::{create_key_package_event, create_nostr_group_config_data};
use crate::tests::create_test_mdk;

pub struct Client {
    pub keys: Keys,
    pub mdk: MDK<MdkMemoryStorage>,
}

impl Client {
    fn pk(&self) -> PublicKey {
        self.keys.public_key()
    }
    fn members(&self, gid: &GroupId) -> BTreeSet<PublicKey> {
        self.mdk.get_members(gid).unwrap()
    }
    fn admins(&self, gid: &GroupId) -> BTreeSet<PublicKey> {
        self.mdk.get_group(gid).unwrap().unwrap().admin_pubkeys
    }
    fn epoch(&self, gid: &GroupId) -> u64 {
        self.mdk.get_group(gid).unwrap().unwrap().epoch
    }
    fn name(&self, gid: &GroupId) -> String {
        self.mdk.get_group(gid).unwrap().unwrap().name
    }
    fn mls(&self, gid: &GroupId) -> MlsGroup {
        self.mdk.load_mls_group(gid).unwrap().unwrap()
    }
    fn signer(&self, g: &MlsGroup) -> SignatureKeyPair {
        self.mdk.load_mls_signer(g).unwrap()
    }
    fn leaf_of(&self, gid: &GroupId, pk: &PublicKey) -> LeafNodeIndex {
        let g = self.mls(gid);
        for m in g.members() {
            if self.mdk.pubkey_for_member(&m).unwrap() == *pk {
                return m.index;
            }
        }
        panic!("member not found");
    }
    /// Wrap a raw MLS message exactly as the library does for its own messages.
    fn wrap(&self, gid: &GroupId, msg: &MlsMessageOut) -> Event {
        self.mdk
            .build_message_event(gid, msg.tls_serialize_detached().unwrap())
            .unwrap()
    }
    fn pending_kinds(&self, gid: &GroupId) -> Vec<String> {
        self.mls(gid)
            .pending_proposals()
            .map(|p| format!("{:?}", p.proposal().proposal_type()))
            .collect()
    }
}

/// Client 0 creates the group; `admin_idx` lists the admin clients (0 must be in it).
pub fn setup(n: usize, admin_idx: &[usize]) -> (Vec<Client>, GroupId) {
    let clients: Vec<Client> = (0..n)
        .map(|_| Client {
            keys: Keys::generate(),
            mdk: create_test_mdk(),
        })
        .collect();
    let admins: Vec<PublicKey> = admin_idx.iter().map(|i| clients[*i].pk()).collect();
    let kps: Vec<Event> = clients[1..]
        .iter()
        .map(|c| create_key_package_event(&c.mdk, &c.keys))
        .collect();
    let res = clients[0]
        .mdk
        .create_group(
            &clients[0].pk(),
            kps,
            create_nostr_group_config_data(admins),
        )
        .unwrap();
    let gid = res.group.mls_group_id.clone();
    clients[0].mdk.merge_pending_commit(&gid).unwrap();
    for (i, c) in clients[1..].iter().enumerate() {
        let w = c
            .mdk
            .process_welcome(&nostr::EventId::all_zeros(), &res.welcome_rumors[i])
            .unwrap();
        c.mdk.accept_welcome(&w).unwrap();
    }
    (clients, gid)
}

fn describe(r: &Result<MessageProcessingResult, crate::Error>) -> String {
    match r {
        Ok(MessageProcessingResult::Commit { .. }) => "Ok(Commit)".into(),
        Ok(MessageProcessingResult::Proposal(_)) => "Ok(Proposal/auto-committed)".into(),
        Ok(MessageProcessingResult::PendingProposal { .. }) => "Ok(PendingProposal)".into(),
        Ok(MessageProcessingResult::IgnoredProposal { reason, .. }) => {
            format!("Ok(IgnoredProposal: {reason})")
        }
        Ok(MessageProcessingResult::Unprocessable { .. }) => "Ok(Unprocessable)".into(),
        Ok(MessageProcessingResult::ApplicationMessage(_)) => "Ok(App)".into(),
        Ok(MessageProcessingResult::ExternalJoinProposal { .. }) => "Ok(ExternalJoin)".into(),
        Ok(MessageProcessingResult::PreviouslyFailed) => "Ok(PreviouslyFailed)".into(),
        Err(e) => format!("Err({e:?})"),
    }
}

// ---------------------------------------------------------------------------------------------
// H1: a non-admin's Remove proposal naming another member is carried out with NO admin
//     operation at all: the admin's automatic commit of somebody's leave request sweeps the
//     whole proposal queue.
// ---------------------------------------------------------------------------------------------
#[test]
fn r05_h1_leave_autocommit_carries_out_non_admin_remove_proposal() {
    // 0 = Alice (admin), 1 = Bob (non-admin, attacker), 2 = Carol (admin, victim), 3 = Dave
    let (c, gid) = setup(4, &[0, 2]);
    let (alice, bob, carol, dave) = (&c[0], &c[1], &c[2], &c[3]);

    // Bob builds a Remove(Carol) proposal directly with openmls.
    let carol_leaf = bob.leaf_of(&gid, &carol.pk());
    let mut bob_group = bob.mls(&gid);
    let bob_signer = bob.signer(&bob_group);
    let (remove_carol, _) = bob_group
        .propose_remove_member(&bob.mdk.provider, &bob_signer, carol_leaf)
        .unwrap();
    let ev_remove_carol = bob.wrap(&gid, &remove_carol);

    // Bob then asks to leave through the public API.
    let ev_bob_leave = bob.mdk.leave_group(&gid).unwrap().evolution_event;

    let members_before = alice.members(&gid);
    let admins_before = alice.admins(&gid);
    assert!(members_before.contains(&carol.pk()));

    // Alice (admin) only RECEIVES. She performs no operation of her own.
    let r1 = alice.mdk.process_message(&ev_remove_carol);
    println!("alice <- Remove(Carol) by Bob: {}", describe(&r1));
    let r2 = alice.mdk.process_message(&ev_bob_leave);
    println!("alice <- leave by Bob:         {}", describe(&r2));
    let auto_commit = match r2 {
        Ok(MessageProcessingResult::Proposal(u)) => u.evolution_event,
        other => panic!("expected auto-commit, got {}", describe(&other)),
    };
    // The application publishes the returned commit and merges it, as documented.
    alice.mdk.merge_pending_commit(&gid).unwrap();

    // Dave (plain member) sees both proposals, then Alice's automatic commit.
    println!(
        "dave <- Remove(Carol): {}",
        describe(&dave.mdk.process_message(&ev_remove_carol))
    );
    println!(
        "dave <- leave:         {}",
        describe(&dave.mdk.process_message(&ev_bob_leave))
    );
    let rd = dave.mdk.process_message(&auto_commit);
    println!("dave <- auto-commit:   {}", describe(&rd));

    let alice_after = alice.members(&gid);
    let dave_after = dave.members(&gid);
    println!("members before: {}", members_before.len());
    println!("alice after:    {}", alice_after.len());
    println!("dave after:     {}", dave_after.len());
    println!("admins before {:?}", admins_before.len());

    // Expected by C05: only Bob (who asked to leave) is gone.
    let mut expected = members_before.clone();
    expected.remove(&bob.pk());
    assert_eq!(
        alice_after, expected,
        "C05 broken on Alice: the automatic commit of Bob's leave also removed Carol (an admin), \
         a removal that only non-admin Bob ever proposed"
    );
    assert_eq!(dave_after, expected, "C05 broken on Dave");
}

// H1b: same with an Add proposal: a non-admin gets an arbitrary key package added.
#[test]
fn r05_h1b_leave_autocommit_carries_out_non_admin_add_proposal() {
    let (c, gid) = setup(4, &[0]);
    let (alice, bob, _carol, dave) = (&c[0], &c[1], &c[2], &c[3]);

    let mallory = Client {
        keys: Keys::generate(),
        mdk: create_test_mdk(),
    };
    let mallory_kp_event = create_key_package_event(&mallory.mdk, &mallory.keys);
    let mallory_kp = bob.mdk.parse_key_package(&mallory_kp_event).unwrap();

    let mut bob_group = bob.mls(&gid);
    let bob_signer = bob.signer(&bob_group);
    let (add_mallory, _) = bob_group
        .propose_add_member(&bob.mdk.provider, &bob_signer, &mallory_kp)
        .unwrap();
    let ev_add = bob.wrap(&gid, &add_mallory);

    // Dave (another non-admin) leaves at some point.
    let ev_leave = dave.mdk.leave_group(&gid).unwrap().evolution_event;

    let before = alice.members(&gid);
    println!(
        "alice <- Add(Mallory) by Bob: {}",
        describe(&alice.mdk.process_message(&ev_add))
    );
    let r = alice.mdk.process_message(&ev_leave);
    println!("alice <- leave by Dave: {}", describe(&r));
    alice.mdk.merge_pending_commit(&gid).unwrap();
    let after = alice.members(&gid);

    let mut expected = before.clone();
    expected.remove(&dave.pk());
    assert_eq!(
        after, expected,
        "C05 broken: Mallory was added by the automatic leave commit (in group: {})",
        after.contains(&mallory.pk())
    );
}

// ---------------------------------------------------------------------------------------------
// H2: whitelist of non-admin commits. Each commit has an update path plus one extra inline
//     proposal; all must be refused and leave the receiver untouched.
// ---------------------------------------------------------------------------------------------
fn non_admin_commit_variant(variant: &str) -> (String, bool) {
    let (c, gid) = setup(4, &[0]);
    let (alice, bob, carol, dave) = (&c[0], &c[1], &c[2], &c[3]);
    let mut g = bob.mls(&gid);
    let signer = bob.signer(&g);
    let carol_leaf = bob.leaf_of(&gid, &carol.pk());

    let builder = g.commit_builder().force_self_update(true);
    let builder = match variant {
        "remove" => builder.propose_removals([carol_leaf]),
        "add" => {
            let m = Client {
                keys: Keys::generate(),
                mdk: create_test_mdk(),
            };
            let ev = create_key_package_event(&m.mdk, &m.keys);
            builder.propose_adds([bob.mdk.parse_key_package(&ev).unwrap()])
        }
        "gce_unchanged" => {
            let ext = bob.mls(&gid).extensions().clone();
            builder.propose_group_context_extensions(ext).unwrap()
        }
        "gce_self_promote" => {
            let probe = bob.mls(&gid);
            let mut data = NostrGroupDataExtension::from_group(&probe).unwrap();
            data.add_admin(bob.pk());
            let raw = data.as_raw().tls_serialize_detached().unwrap();
            let mut ext = probe.extensions().clone();
            ext.add_or_replace(Extension::Unknown(
                data.extension_type(),
                UnknownExtension(raw),
            ))
            .unwrap();
            builder.propose_group_context_extensions(ext).unwrap()
        }
        "empty_path_only" => builder,
        _ => unreachable!(),
    };
    let bundle = builder
        .load_psks(bob.mdk.provider.storage())
        .unwrap()
        .build(
            bob.mdk.provider.rand(),
            bob.mdk.provider.crypto(),
            &signer,
            |_| true,
        )
        .unwrap()
        .stage_commit(&bob.mdk.provider)
        .unwrap();
    let ev = bob.wrap(&gid, bundle.commit());

    let mut changed = false;
    let mut out = String::new();
    for (name, r) in [("alice", alice), ("dave", dave), ("carol", carol)] {
        let before = (r.members(&gid), r.admins(&gid), r.epoch(&gid), r.name(&gid));
        let res = r.mdk.process_message(&ev);
        let after = (r.members(&gid), r.admins(&gid), r.epoch(&gid), r.name(&gid));
        out += &format!("{name}: {} ", describe(&res));
        if variant != "empty_path_only" {
            if before != after {
                changed = true;
            }
        } else if before.0 != after.0 || before.1 != after.1 || before.3 != after.3 {
            changed = true;
        }
    }
    (out, changed)
}

#[test]
fn r05_h2_non_admin_commit_whitelist() {
    for v in [
        "remove",
        "add",
        "gce_unchanged",
        "gce_self_promote",
        "empty_path_only",
    ] {
        let (out, changed) = non_admin_commit_variant(v);
        println!("{v}: {out} changed={changed}");
        assert!(!changed, "variant {v} changed a receiver");
    }
}

// ---------------------------------------------------------------------------------------------
// H3: by-reference: a non-admin commit that covers ANOTHER member's pending leave request.
// ---------------------------------------------------------------------------------------------
#[test]
fn r05_h3_non_admin_commit_covering_pending_leave() {
    // no admin online except Alice, who is only a receiver here.
    let (c, gid) = setup(4, &[0]);
    let (alice, bob, carol, dave) = (&c[0], &c[1], &c[2], &c[3]);

    let ev_leave = dave.mdk.leave_group(&gid).unwrap().evolution_event;
    // Bob and Carol (non-admins) queue it.
    println!("bob <- leave: {}", describe(&bob.mdk.process_message(&ev_leave)));
    println!("carol <- leave: {}", describe(&carol.mdk.process_message(&ev_leave)));

    // Bob commits the queue directly with openmls.
    let mut g = bob.mls(&gid);
    let signer = bob.signer(&g);
    let (commit, _, _) = g
        .commit_to_pending_proposals(&bob.mdk.provider, &signer)
        .unwrap();
    let ev = bob.wrap(&gid, &commit);

    let before = carol.members(&gid);
    let r = carol.mdk.process_message(&ev);
    println!("carol <- bob's commit of Dave's leave: {}", describe(&r));
    assert_eq!(before, carol.members(&gid));
    // Alice never saw the proposal: commit before proposal
    let before = alice.members(&gid);
    let r = alice.mdk.process_message(&ev);
    println!("alice <- bob's commit of Dave's leave: {}", describe(&r));
    assert_eq!(before, alice.members(&gid));
}

// ---------------------------------------------------------------------------------------------
// H4: external commit (outsider joins with a GroupInfo handed over by a non-admin member).
// ---------------------------------------------------------------------------------------------
#[test]
fn r05_h4_external_commit_is_refused() {
    let (c, gid) = setup(3, &[0]);
    let (alice, bob, carol) = (&c[0], &c[1], &c[2]);

    let g = bob.mls(&gid);
    let signer = bob.signer(&g);
    let gi = g
        .export_group_info(bob.mdk.provider.crypto(), &signer, true)
        .unwrap();
    let gi_bytes = gi.tls_serialize_detached().unwrap();
    let gi_in = MlsMessageIn::tls_deserialize_exact_bytes(&gi_bytes).unwrap();
    let vgi = match gi_in.extract() {
        MlsMessageBodyIn::GroupInfo(v) => v,
        _ => panic!(),
    };

    let mallory = Client {
        keys: Keys::generate(),
        mdk: create_test_mdk(),
    };
    let (cred, msigner) = mallory
        .mdk
        .generate_credential_with_key(&mallory.pk())
        .unwrap();
    let built = MlsGroup::external_commit_builder()
        .build_group(&mallory.mdk.provider, vgi, cred);
    let builder = match built {
        Ok(b) => b,
        Err(e) => {
            println!("external commit could not be built: {e:?}");
            return;
        }
    };
    let (_mg, bundle) = builder
        .leaf_node_parameters(
            LeafNodeParameters::builder()
                .with_capabilities(mallory.mdk.capabilities())
                .build(),
        )
        .load_psks(mallory.mdk.provider.storage())
        .unwrap()
        .build(
            mallory.mdk.provider.rand(),
            mallory.mdk.provider.crypto(),
            &msigner,
            |_| true,
        )
        .unwrap()
        .finalize(&mallory.mdk.provider)
        .unwrap();
    // Bob wraps it with the group's exporter secret.
    let ev = bob.wrap(&gid, bundle.commit());
    for (n, r) in [("alice", alice), ("carol", carol)] {
        let before = (r.members(&gid), r.epoch(&gid));
        let res = r.mdk.process_message(&ev);
        println!("{n} <- external commit: {}", describe(&res));
        assert_eq!(before, (r.members(&gid), r.epoch(&gid)));
    }
}

// ---------------------------------------------------------------------------------------------
// H5: proposals that are reported "ignored" must not stay in the proposal queue, where the
//     admin's next self_update (which commits the queue) would carry them out.
// ---------------------------------------------------------------------------------------------
#[test]
fn r05_h5_ignored_proposals_are_not_queued() {
    let (c, gid) = setup(3, &[0]);
    let (alice, bob, carol) = (&c[0], &c[1], &c[2]);

    // (a) GroupContextExtensions proposal renaming the group and promoting Bob.
    let mut g = bob.mls(&gid);
    let signer = bob.signer(&g);
    let mut data = NostrGroupDataExtension::from_group(&g).unwrap();
    data.add_admin(bob.pk());
    data.set_name("pwned".to_string());
    let raw = data.as_raw().tls_serialize_detached().unwrap();
    let mut ext = g.extensions().clone();
    ext.add_or_replace(Extension::Unknown(
        data.extension_type(),
        UnknownExtension(raw),
    ))
    .unwrap();
    let (gce, _) = g
        .propose_group_context_extensions(&bob.mdk.provider, ext, &signer)
        .unwrap();
    let ev_gce = bob.wrap(&gid, &gce);

    // (b) Update proposal with a foreign identity (Carol's pubkey) and a new signer.
    let (foreign_cred, foreign_signer) = bob.mdk.generate_credential_with_key(&carol.pk()).unwrap();
    let _ = foreign_signer;
    let params = LeafNodeParameters::builder()
        .with_credential_with_key(CredentialWithKey {
            credential: foreign_cred.credential.clone(),
            signature_key: signer.public().into(),
        })
        .build();
    let upd = g.propose_self_update(&bob.mdk.provider, &signer, params);
    let ev_upd = match upd {
        Ok((m, _)) => Some(bob.wrap(&gid, &m)),
        Err(e) => {
            println!("update proposal with foreign identity could not be built: {e:?}");
            None
        }
    };

    for (n, r) in [("alice", alice), ("carol", carol)] {
        println!("{n} <- GCE proposal: {}", describe(&r.mdk.process_message(&ev_gce)));
        if let Some(ev) = &ev_upd {
            println!("{n} <- Update(foreign id): {}", describe(&r.mdk.process_message(ev)));
        }
        println!("{n} queue: {:?}", r.pending_kinds(&gid));
        assert!(r.pending_kinds(&gid).is_empty());
    }

    // Alice's unrelated self_update.
    let before = (alice.members(&gid), alice.admins(&gid), alice.name(&gid));
    let up = alice.mdk.self_update(&gid).unwrap();
    alice.mdk.merge_pending_commit(&gid).unwrap();
    println!("carol <- alice self_update: {}", describe(&carol.mdk.process_message(&up.evolution_event)));
    assert_eq!(before, (alice.members(&gid), alice.admins(&gid), alice.name(&gid)));
    assert_eq!(before, (carol.members(&gid), carol.admins(&gid), carol.name(&gid)));
}

// ---------------------------------------------------------------------------------------------
// H6: a refused commit leaves the receiver exactly as it was (record, MLS state, queue), and
//     the receiver still accepts the sender's later legitimate traffic.
// ---------------------------------------------------------------------------------------------
#[test]
fn r05_h6_refused_commit_leaves_group_untouched() {
    let (c, gid) = setup(4, &[0]);
    let (alice, bob, carol, dave) = (&c[0], &c[1], &c[2], &c[3]);

    // a leave request is pending on Alice? no: she would auto-commit. Use Carol as receiver.
    let ev_leave = dave.mdk.leave_group(&gid).unwrap().evolution_event;
    carol.mdk.process_message(&ev_leave).unwrap();

    let snap = |r: &Client| {
        let g = r.mls(&gid);
        (
            format!("{:?}", r.mdk.get_group(&gid).unwrap().unwrap()),
            g.epoch().as_u64(),
            g.epoch_authenticator().as_slice().to_vec(),
            g.export_ratchet_tree().tls_serialize_detached().unwrap(),
            r.pending_kinds(&gid),
            g.pending_commit().is_some(),
        )
    };

    let before = snap(carol);
    // Bob: remove Alice (the admin)
    let alice_leaf = bob.leaf_of(&gid, &alice.pk());
    let mut g = bob.mls(&gid);
    let signer = bob.signer(&g);
    let bundle = g
        .commit_builder()
        .propose_removals([alice_leaf])
        .load_psks(bob.mdk.provider.storage())
        .unwrap()
        .build(bob.mdk.provider.rand(), bob.mdk.provider.crypto(), &signer, |_| true)
        .unwrap()
        .stage_commit(&bob.mdk.provider)
        .unwrap();
    let ev = bob.wrap(&gid, bundle.commit());
    println!("carol <- Bob removes Alice: {}", describe(&carol.mdk.process_message(&ev)));
    let after = snap(carol);
    assert_eq!(before, after, "refused commit changed the receiver");

    // Bob drops his commit and goes on legitimately.
    bob.mdk.clear_pending_commit(&gid).unwrap();
    let up = bob.mdk.self_update(&gid).unwrap();
    let r = carol.mdk.process_message(&up.evolution_event);
    println!("carol <- Bob's later self_update: {}", describe(&r));
    assert!(matches!(r, Ok(MessageProcessingResult::Commit { .. })));
}

// ---------------------------------------------------------------------------------------------
// H7: admin-authored commits whose new admin list is empty / names an outsider: accepted?
//     (admin-authored, so not a C05 violation by itself; recorded as an observation.)
// ---------------------------------------------------------------------------------------------
#[test]
fn r05_h7_admin_commit_with_odd_admin_lists() {
    for variant in ["empty", "outsider_only"] {
        let (c, gid) = setup(3, &[0]);
        let (alice, bob) = (&c[0], &c[1]);
        let mut g = alice.mls(&gid);
        let signer = alice.signer(&g);
        let mut data = NostrGroupDataExtension::from_group(&g).unwrap();
        data.remove_admin(&alice.pk());
        if variant == "outsider_only" {
            data.add_admin(Keys::generate().public_key());
        }
        let raw = data.as_raw().tls_serialize_detached().unwrap();
        let mut ext = g.extensions().clone();
        ext.add_or_replace(Extension::Unknown(
            data.extension_type(),
            UnknownExtension(raw),
        ))
        .unwrap();
        let (m, _, _) = g
            .update_group_context_extensions(&alice.mdk.provider, ext, &signer)
            .unwrap();
        let ev = alice.wrap(&gid, &m);
        let r = bob.mdk.process_message(&ev);
        println!(
            "{variant}: bob <- {} ; bob's admins now {:?}",
            describe(&r),
            bob.admins(&gid).len()
        );
    }
}

// ---------------------------------------------------------------------------------------------
// H8: a non-admin's Remove(the only admin) proposal: what can the admin still do?
// ---------------------------------------------------------------------------------------------
#[test]
fn r05_h8_remove_admin_proposal_blocks_admin() {
    let (c, gid) = setup(3, &[0]);
    let (alice, bob, carol) = (&c[0], &c[1], &c[2]);
    let alice_leaf = bob.leaf_of(&gid, &alice.pk());
    let mut g = bob.mls(&gid);
    let signer = bob.signer(&g);
    let (m, _) = g
        .propose_remove_member(&bob.mdk.provider, &signer, alice_leaf)
        .unwrap();
    let ev = bob.wrap(&gid, &m);
    println!("alice <- Remove(Alice) by Bob: {}", describe(&alice.mdk.process_message(&ev)));
    println!("alice queue: {:?}", alice.pending_kinds(&gid));
    let r = alice.mdk.remove_members(&gid, &[bob.pk()]);
    println!("alice remove_members(Bob): {:?}", r.as_ref().map(|_| ()).map_err(|e| e.to_string()));
    let r = alice.mdk.self_update(&gid);
    println!("alice self_update: {:?}", r.as_ref().map(|_| ()).map_err(|e| e.to_string()));
    let r = alice.mdk.update_group_data(&gid, crate::groups::NostrGroupDataUpdate::new().name("x".to_string()));
    println!("alice update_group_data: {:?}", r.as_ref().map(|_| ()).map_err(|e| e.to_string()));
    let _ = carol;
}

// ---------------------------------------------------------------------------------------------
// H9: identity change through the update path, end to end (admin and non-admin author; the new
//     identity is fresh, or another member's, or the admin's).
// ---------------------------------------------------------------------------------------------
#[test]
fn r05_h9_update_path_identity_change_end_to_end() {
    for (author_idx, target) in [(1usize, "fresh"), (1, "admin"), (1, "carol"), (0, "fresh"), (0, "carol")] {
        let (c, gid) = setup(4, &[0]);
        let author = &c[author_idx];
        let new_identity = match target {
            "fresh" => Keys::generate().public_key(),
            "admin" => c[0].pk(),
            "carol" => c[2].pk(),
            _ => unreachable!(),
        };
        let mut g = author.mls(&gid);
        let signer = author.signer(&g);
        let (new_cred, new_signer) = author.mdk.generate_credential_with_key(&new_identity).unwrap();
        let own_leaf = g.own_leaf().unwrap().clone();
        let params = LeafNodeParameters::builder()
            .with_credential_with_key(new_cred.clone())
            .with_capabilities(own_leaf.capabilities().clone())
            .with_extensions(own_leaf.extensions().clone())
            .build();
        let bundle = g
            .commit_builder()
            .leaf_node_parameters(params)
            .consume_proposal_store(false)
            .load_psks(author.mdk.provider.storage())
            .unwrap()
            .build_with_new_signer(
                author.mdk.provider.rand(),
                author.mdk.provider.crypto(),
                &signer,
                NewSignerBundle { signer: &new_signer, credential_with_key: new_cred },
                |_| true,
            )
            .unwrap()
            .stage_commit(&author.mdk.provider)
            .unwrap();
        let ev = author.wrap(&gid, bundle.commit());
        let recv = &c[3];
        let before = (recv.members(&gid), recv.epoch(&gid));
        let r = recv.mdk.process_message(&ev);
        println!("author={author_idx} new identity={target}: dave <- {}", describe(&r));
        assert_eq!(before, (recv.members(&gid), recv.epoch(&gid)));
    }
}

// ---------------------------------------------------------------------------------------------
// H10: non-admin commit = update path + external PSK proposal.
// ---------------------------------------------------------------------------------------------
#[test]
fn r05_h10_non_admin_commit_with_psk() {
    let (c, gid) = setup(3, &[0]);
    let (alice, bob, carol) = (&c[0], &c[1], &c[2]);
    let psk_id = PreSharedKeyId::new(
        bob.mdk.ciphersuite,
        bob.mdk.provider.rand(),
        Psk::External(ExternalPsk::new(b"r05".to_vec())),
    )
    .unwrap();
    for cl in [alice, bob, carol] {
        psk_id.store(&cl.mdk.provider, &[7u8; 32]).unwrap();
    }
    let mut g = bob.mls(&gid);
    let signer = bob.signer(&g);
    let bundle = g
        .commit_builder()
        .force_self_update(true)
        .add_proposal(Proposal::PreSharedKey(Box::new(PreSharedKeyProposal::new(psk_id))))
        .load_psks(bob.mdk.provider.storage())
        .unwrap()
        .build(bob.mdk.provider.rand(), bob.mdk.provider.crypto(), &signer, |_| true)
        .unwrap()
        .stage_commit(&bob.mdk.provider)
        .unwrap();
    let ev = bob.wrap(&gid, bundle.commit());
    for (n, r) in [("alice", alice), ("carol", carol)] {
        let e = r.epoch(&gid);
        let res = r.mdk.process_message(&ev);
        println!("{n} <- path+PSK from non-admin: {}", describe(&res));
        assert_eq!(e, r.epoch(&gid));
    }
}

// ---------------------------------------------------------------------------------------------
// H11: an admin commit that is refused AFTER the merge (group data the receiver cannot store):
//      is the receiver exactly as before (record, tree, queue), and can it go on?
// ---------------------------------------------------------------------------------------------
#[test]
fn r05_h11_commit_refused_after_merge_leaves_group_untouched() {
    for variant in ["drop_group_data", "garbage_group_data"] {
        let (c, gid) = setup(4, &[0]);
        let (alice, bob, carol, dave) = (&c[0], &c[1], &c[2], &c[3]);
        let _ = bob;

        let ev_leave = dave.mdk.leave_group(&gid).unwrap().evolution_event;
        carol.mdk.process_message(&ev_leave).unwrap();

        let snap = |r: &Client| {
            let g = r.mls(&gid);
            (
                format!("{:?}", r.mdk.get_group(&gid).unwrap().unwrap()),
                g.epoch().as_u64(),
                g.epoch_authenticator().as_slice().to_vec(),
                g.export_ratchet_tree().tls_serialize_detached().unwrap(),
                r.pending_kinds(&gid),
                g.pending_commit().is_some(),
                r.mdk.get_relays(&gid).unwrap(),
            )
        };
        let before = snap(carol);

        let mut g = alice.mls(&gid);
        let signer = alice.signer(&g);
        let ext = match variant {
            "drop_group_data" => Extensions::from_vec(vec![alice.mdk.required_capabilities_extension()]).unwrap(),
            _ => {
                let mut e = g.extensions().clone();
                e.add_or_replace(Extension::Unknown(
                    NostrGroupDataExtension::EXTENSION_TYPE,
                    UnknownExtension(vec![0xff, 0xff, 1, 2, 3]),
                ))
                .unwrap();
                e
            }
        };
        let bundle = g
            .commit_builder()
            .consume_proposal_store(false)
            .propose_group_context_extensions(ext)
            .unwrap()
            .load_psks(alice.mdk.provider.storage())
            .unwrap()
            .build(alice.mdk.provider.rand(), alice.mdk.provider.crypto(), &signer, |_| true);
        let bundle = match bundle {
            Ok(b) => b.stage_commit(&alice.mdk.provider).unwrap(),
            Err(e) => {
                println!("{variant}: cannot build: {e:?}");
                continue;
            }
        };
        let ev = alice.wrap(&gid, bundle.commit());
        let r = carol.mdk.process_message(&ev);
        println!("{variant}: carol <- {}", describe(&r));
        let after = snap(carol);
        if before != after {
            println!("{variant}: DIFFERENCE after refused commit:");
            println!("  record  same: {}", before.0 == after.0);
            if before.0 != after.0 { println!("  before {}\n  after  {}", before.0, after.0); }
            println!("  epoch   {} -> {}", before.1, after.1);
            println!("  tree    same: {}", before.3 == after.3);
            println!("  queue   {:?} -> {:?}", before.4, after.4);
            println!("  pending commit {} -> {}", before.5, after.5);
        }
        assert_eq!(before, after, "{variant}: refused commit changed the receiver");

        // and it goes on: Alice drops that commit and sends a normal one
        alice.mdk.clear_pending_commit(&gid).unwrap();
        let up = alice.mdk.update_group_data(&gid, crate::groups::NostrGroupDataUpdate::new().name("fine".to_string())).unwrap();
        let r = carol.mdk.process_message(&up.evolution_event);
        println!("{variant}: carol <- later valid admin commit: {}", describe(&r));
    }
}

// ---------------------------------------------------------------------------------------------
// H12 (observation, MIP-03 by design?): the non-admin being removed answers with a BACKDATED
//      self-update for the same epoch; third parties roll the removal back and keep her.
// ---------------------------------------------------------------------------------------------
#[test]
fn r05_h12_backdated_self_update_undoes_removal_on_third_parties() {
    let (c, gid) = setup(4, &[0]);
    let (alice, _bob, carol, dave) = (&c[0], &c[1], &c[2], &c[3]);

    let x = alice.mdk.remove_members(&gid, &[carol.pk()]).unwrap().evolution_event;
    alice.mdk.merge_pending_commit(&gid).unwrap();
    println!("dave <- X (Alice removes Carol): {}", describe(&dave.mdk.process_message(&x)));
    assert!(!dave.members(&gid).contains(&carol.pk()));

    // Carol never applies X; she self-updates in the old epoch and backdates the wrapper.
    let y = carol.mdk.self_update(&gid).unwrap().evolution_event;
    let y_backdated = nostr::EventBuilder::new(y.kind, y.content.clone())
        .tags(y.tags.iter().cloned())
        .custom_created_at(nostr::Timestamp::from(x.created_at.as_secs() - 60))
        .sign_with_keys(&Keys::generate())
        .unwrap();
    let r = dave.mdk.process_message(&y_backdated);
    println!("dave <- Y (Carol's backdated self-update): {}", describe(&r));
    println!(
        "dave: Carol member again = {}, epoch {}",
        dave.members(&gid).contains(&carol.pk()),
        dave.epoch(&gid)
    );
}

// ---------------------------------------------------------------------------------------------
// H1c: the proposal path bypasses the key-package identity binding (`parse_key_package`): a
//      non-admin proposes a key package of his own making that claims the ADMIN's Nostr
//      identity; the automatic leave commit puts it in the tree.
// ---------------------------------------------------------------------------------------------
#[test]
fn r05_h1c_autocommit_adds_leaf_claiming_admin_identity() {
    let (c, gid) = setup(4, &[0]);
    let (alice, bob, _carol, dave) = (&c[0], &c[1], &c[2], &c[3]);

    // Bob's own client makes a key package whose credential says "Alice".
    let relays = vec![nostr::RelayUrl::parse("wss://test.relay").unwrap()];
    let (kp_b64, _tags, _) = bob
        .mdk
        .create_key_package_for_event(&alice.pk(), relays)
        .unwrap();
    let kp_bytes = {
        use nostr::base64::Engine;
        nostr::base64::engine::general_purpose::STANDARD
            .decode(&kp_b64)
            .unwrap()
    };
    let kp = KeyPackageIn::tls_deserialize_exact_bytes(&kp_bytes)
        .unwrap()
        .validate(bob.mdk.provider.crypto(), ProtocolVersion::Mls10)
        .unwrap();
    let mut g = bob.mls(&gid);
    let signer = bob.signer(&g);
    let (add, _) = match g.propose_add_member(&bob.mdk.provider, &signer, &kp) {
        Ok(x) => x,
        Err(e) => {
            println!("openmls refuses to propose a duplicate identity: {e:?}");
            return;
        }
    };
    let ev_add = bob.wrap(&gid, &add);
    let ev_leave = dave.mdk.leave_group(&gid).unwrap().evolution_event;

    println!("alice <- Add(leaf claiming Alice) by Bob: {}", describe(&alice.mdk.process_message(&ev_add)));
    let r = alice.mdk.process_message(&ev_leave);
    println!("alice <- leave by Dave: {}", describe(&r));
    if alice.mdk.merge_pending_commit(&gid).is_err() {
        println!("no commit was created");
        return;
    }
    let g = alice.mls(&gid);
    let leaves_claiming_alice = g
        .members()
        .filter(|m| alice.mdk.pubkey_for_member(m).unwrap() == alice.pk())
        .count();
    println!(
        "alice's tree: {} leaves, {} of them bound to Alice's (admin) Nostr identity; get_members() = {}",
        g.members().count(),
        leaves_claiming_alice,
        alice.members(&gid).len()
    );
    assert_eq!(leaves_claiming_alice, 1, "a second leaf bound to the admin's identity entered the tree on a non-admin's proposal");
}

// ---------------------------------------------------------------------------------------------
// H13: outsider proposals (NewMemberProposal external join; External sender remove), wrapped by a
//      colluding member: nothing may be queued.
// ---------------------------------------------------------------------------------------------
#[test]
fn r05_h13_outsider_proposals_are_not_queued() {
    let (c, gid) = setup(3, &[0]);
    let (alice, bob, carol) = (&c[0], &c[1], &c[2]);
    let mallory = Client { keys: Keys::generate(), mdk: create_test_mdk() };
    let relays = vec![nostr::RelayUrl::parse("wss://test.relay").unwrap()];
    let (kp_b64, _t, _) = mallory.mdk.create_key_package_for_event(&mallory.pk(), relays).unwrap();
    let kp_bytes = {
        use nostr::base64::Engine;
        nostr::base64::engine::general_purpose::STANDARD.decode(&kp_b64).unwrap()
    };
    let kp = KeyPackageIn::tls_deserialize_exact_bytes(&kp_bytes)
        .unwrap()
        .validate(mallory.mdk.provider.crypto(), ProtocolVersion::Mls10)
        .unwrap();
    // Mallory's signer for that key package
    let msigner = SignatureKeyPair::read(
        mallory.mdk.provider.storage(),
        kp.leaf_node().signature_key().as_slice(),
        mallory.mdk.ciphersuite.signature_algorithm(),
    )
    .unwrap();
    let g = bob.mls(&gid);
    let join = JoinProposal::new::<MdkMemoryStorage>(kp, g.group_id().clone(), g.epoch(), &msigner).unwrap();
    let ev = bob.wrap(&gid, &join);
    for (n, r) in [("alice", alice), ("carol", carol)] {
        let res = r.mdk.process_message(&ev);
        println!("{n} <- external join proposal: {} ; queue {:?}", describe(&res), r.pending_kinds(&gid));
        assert!(r.pending_kinds(&gid).is_empty());
    }
    // External-sender Remove (no external_senders extension in the group)
    let alice_leaf = bob.leaf_of(&gid, &alice.pk());
    let rm = ExternalProposal::new_remove::<crate::MdkProvider<MdkMemoryStorage>>(
        alice_leaf, g.group_id().clone(), g.epoch(), &msigner, SenderExtensionIndex::new(0),
    ).unwrap();
    let ev = bob.wrap(&gid, &rm);
    for (n, r) in [("alice", alice), ("carol", carol)] {
        let res = r.mdk.process_message(&ev);
        println!("{n} <- external-sender Remove(Alice): {} ; queue {:?}", describe(&res), r.pending_kinds(&gid));
        assert!(r.pending_kinds(&gid).is_empty());
    }
}
