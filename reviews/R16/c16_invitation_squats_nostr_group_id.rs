//! C16 demo: a merely received (never accepted, even declined) invitation disables a group the
//! user is an active member of.
//!
//! `process_welcome` writes a Pending group record for the inviter-chosen group before any
//! consent. That record carries the inviter-chosen `nostr_group_id`, and both storage backends
//! enforce that a `nostr_group_id` belongs to one group record only. An invitation whose group
//! data names the Nostr group id an existing group is about to rotate to (MIP-01 rotation; the
//! new id is public on the relays as the `h` tag as soon as the first member uses it) therefore
//! reserves that id. When the user's client then processes the rotation commit of its own,
//! active group, the merged state cannot be stored ("nostr_group_id already exists for a
//! different group" / UNIQUE constraint), the commit is rolled back and refused for ever, and
//! the user is cut off from the group at the old epoch.
//!
//! History (deterministic, no races):
//!   1. Alice creates G with Bob; Bob accepts -> Bob is an active member.
//!   2. Alice (admin) rotates G's nostr_group_id to N2 (commit c), merges.
//!   3. Eve (outsider, own client) creates a group X, sets its nostr_group_id to N2, adds Bob
//!      with Bob's published key package -> welcome WX.
//!   4. Bob's client receives WX first: process_welcome(WX) (no accept; optionally decline).
//!   5. Bob's client receives c: process_message(c) must apply it. It does not.
//!
//! The control runs (same history without step 3/4, or with an invitation whose group keeps
//! another Nostr group id) pass.

use mdk_core::MDK;
use mdk_core::groups::{NostrGroupConfigData, NostrGroupDataUpdate};
use mdk_core::messages::MessageProcessingResult;
use mdk_memory_storage::MdkMemoryStorage;
use mdk_sqlite_storage::MdkSqliteStorage;
use mdk_storage_traits::MdkStorageProvider;
use mdk_storage_traits::groups::types::GroupState;
use nostr::{Event, EventBuilder, EventId, Keys, Kind, PublicKey, RelayUrl};

fn mem() -> MDK<MdkMemoryStorage> {
    MDK::new(MdkMemoryStorage::default())
}

fn sql() -> MDK<MdkSqliteStorage> {
    MDK::new(MdkSqliteStorage::new_unencrypted(":memory:").unwrap())
}

fn key_package_event<S: MdkStorageProvider>(mdk: &MDK<S>, keys: &Keys) -> Event {
    let relays = vec![RelayUrl::parse("wss://test.relay").unwrap()];
    let (content, tags, _) = mdk
        .create_key_package_for_event(&keys.public_key(), relays)
        .unwrap();
    EventBuilder::new(Kind::MlsKeyPackage, content)
        .tags(tags)
        .sign_with_keys(keys)
        .unwrap()
}

fn config(name: &str, admins: Vec<PublicKey>) -> NostrGroupConfigData {
    NostrGroupConfigData::new(
        name.to_owned(),
        "description".to_owned(),
        None,
        None,
        None,
        vec![RelayUrl::parse("wss://test.relay").unwrap()],
        admins,
    )
}

fn wrapper_id(n: u8) -> EventId {
    EventId::from_slice(&[n; 32]).unwrap()
}

#[derive(Clone, Copy, PartialEq)]
enum Invitation {
    /// control: no invitation is delivered
    None,
    /// control: the same invitation, but X keeps the random Nostr group id it was created with
    ReceivedOtherId,
    /// the invitation is processed and left pending
    Received,
    /// the invitation is processed and declined
    Declined,
}

fn run<S: MdkStorageProvider>(mk: impl Fn() -> MDK<S>, invitation: Invitation) {
    let (alice, bob, eve) = (mk(), mk(), mk());
    let (alice_keys, bob_keys, eve_keys) = (Keys::generate(), Keys::generate(), Keys::generate());

    // Bob's published key package (last resort, reusable - anybody can invite him with it)
    let bob_kp = key_package_event(&bob, &bob_keys);

    // 1. Alice creates G with Bob, Bob accepts
    let created = alice
        .create_group(
            &alice_keys.public_key(),
            vec![bob_kp.clone()],
            config("G", vec![alice_keys.public_key()]),
        )
        .unwrap();
    let g = created.group.mls_group_id.clone();
    alice.merge_pending_commit(&g).unwrap();
    let w = bob
        .process_welcome(&wrapper_id(1), &created.welcome_rumors[0])
        .unwrap();
    bob.accept_welcome(&w).unwrap();
    assert_eq!(bob.get_group(&g).unwrap().unwrap().state, GroupState::Active);

    // sanity: the group works for Bob
    let hello = alice
        .create_message(
            &g,
            EventBuilder::new(Kind::TextNote, "hello").build(alice_keys.public_key()),
        )
        .unwrap();
    assert!(matches!(
        bob.process_message(&hello).unwrap(),
        MessageProcessingResult::ApplicationMessage(_)
    ));

    // 2. Alice rotates the Nostr group id of G (MIP-01)
    let n2 = [0x42u8; 32];
    let rotation = alice
        .update_group_data(&g, NostrGroupDataUpdate::new().nostr_group_id(n2))
        .unwrap();
    alice.merge_pending_commit(&g).unwrap();
    assert_eq!(alice.get_group(&g).unwrap().unwrap().nostr_group_id, n2);

    if invitation != Invitation::None {
        // 3. Eve (an outsider with a client of her own) builds a group that claims n2 and
        //    invites Bob with his published key package
        let x = eve
            .create_group(
                &eve_keys.public_key(),
                vec![],
                config("X", vec![eve_keys.public_key()]),
            )
            .unwrap()
            .group
            .mls_group_id;
        if invitation != Invitation::ReceivedOtherId {
            eve.update_group_data(&x, NostrGroupDataUpdate::new().nostr_group_id(n2))
                .unwrap();
            eve.merge_pending_commit(&x).unwrap();
        }
        let add = eve.add_members(&x, &[bob_kp]).unwrap();
        eve.merge_pending_commit(&x).unwrap();
        let wx = add.welcome_rumors.unwrap().remove(0);

        // 4. Bob's client receives the invitation before the rotation commit
        let before = bob.get_group(&g).unwrap().unwrap();
        let pending = bob.process_welcome(&wrapper_id(2), &wx).unwrap();
        assert_ne!(pending.mls_group_id, g);
        assert_eq!(
            pending.nostr_group_id == n2,
            invitation != Invitation::ReceivedOtherId
        );
        if invitation == Invitation::Declined {
            bob.decline_welcome(&pending).unwrap();
        }
        // so far G itself is untouched
        assert_eq!(bob.get_group(&g).unwrap().unwrap(), before);
    }

    // 5. Bob's client receives the rotation commit of the group he is an active member of,
    //    (a second time too, as relays do), and then Alice's next message
    let commit_result = bob.process_message(&rotation.evolution_event);
    let commit_retry = bob.process_message(&rotation.evolution_event);
    let next = alice
        .create_message(
            &g,
            EventBuilder::new(Kind::TextNote, "after rotation").build(alice_keys.public_key()),
        )
        .unwrap();
    let next_result = bob.process_message(&next);
    let bob_g = bob.get_group(&g).unwrap().unwrap();
    let alice_g = alice.get_group(&g).unwrap().unwrap();

    assert!(
        matches!(commit_result, Ok(MessageProcessingResult::Commit { .. })),
        "Bob, an active member of G, cannot apply G's commit after a merely received invitation: \
         first delivery {:?}, second delivery {:?}, Alice's next message {:?}, \
         Bob's epoch {} vs Alice's {}",
        commit_result,
        commit_retry,
        next_result.as_ref().map(|_| "processed"),
        bob_g.epoch,
        alice_g.epoch
    );

    // ... and G goes on working for Bob under the new id
    assert_eq!(bob_g.state, GroupState::Active);
    assert_eq!(bob_g.epoch, alice_g.epoch);
    assert_eq!(bob_g.nostr_group_id, n2);
    assert!(matches!(
        next_result,
        Ok(MessageProcessingResult::ApplicationMessage(_))
    ));
}

#[test]
fn control_without_invitation_memory() {
    run(mem, Invitation::None);
}

#[test]
fn control_without_invitation_sqlite() {
    run(sql, Invitation::None);
}

#[test]
fn control_invitation_with_other_nostr_id_memory() {
    run(mem, Invitation::ReceivedOtherId);
}

#[test]
fn control_invitation_with_other_nostr_id_sqlite() {
    run(sql, Invitation::ReceivedOtherId);
}

#[test]
fn received_invitation_disables_active_group_memory() {
    run(mem, Invitation::Received);
}

#[test]
fn received_invitation_disables_active_group_sqlite() {
    run(sql, Invitation::Received);
}

#[test]
fn declined_invitation_disables_active_group_memory() {
    run(mem, Invitation::Declined);
}

#[test]
fn declined_invitation_disables_active_group_sqlite() {
    run(sql, Invitation::Declined);
}
